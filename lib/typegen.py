"""C20: generator of a FAMILY of random Rust type definitions in the shapes supported by
#[derive(BuildSchema)] + serde's derives (seeded, deterministic).

  Family(seed)            builds the family
  .rust()                 text of harness/src/gen_types.rs (definitions, value generators, bit-exact
                          comparison, registry run_family / schemas / inst_oracle)
  .defs_sx()              the family as the `defs` term of coq/model/Derive.v (s-expression)
  .roots                  [(label, rtype)]: the types whose schema is checked / compared with the model
  .type_sx(t)             s-expression of an rtype
  write_if_changed(path, text)

Type descriptions (python tuples):
  ("prim", p)  p in PRIMS | ("string",) | ("bytes",) | ("bytearr", n) | ("option", t) | ("vec", t)
  | ("map", "HashMap"|"BTreeMap", t) | ("ptr", "Box"|"Rc"|"Arc"|"RefCell", t) | ("named", id, (args..)) | ("param", i)
("bytes",) and ("bytearr", n) are schema-side types; on the Rust side they are Vec<u8> / [u8; n] under
#[serde(with = "serde_bytes")] and therefore only occur in slots (field / newtype / variant payload),
directly or under one Option.

Well-foundedness: every definition has a random rank; a reference that is not under an "escapable"
constructor (Option<Box<_>>, Vec<_>, map, a non-base union variant) only goes to a definition of strictly
lower rank. So finite values exist for every type, value generation at depth 0 terminates, no record
always contains itself, and the declaration order is unrelated to the reference structure (earlier
and LATER types are referenced). Generic definitions only reference lower ranks (a generic type that
is recursive through its own TypeLookup does not compile)."""
import os, random

MODPATH = "avrodrive.gen_types"
PRIMS = ["unit", "bool", "i8", "i16", "i32", "i64", "u16", "u32", "u64", "usize", "f32", "f64"]
PRIM_RUST = {"unit": "()"}
PRIM_AVRO = {"unit": "null", "bool": "boolean", "i8": "int", "i16": "int", "i32": "int", "u16": "int",
             "i64": "long", "u32": "long", "u64": "long", "usize": "long", "f32": "float", "f64": "double"}
AVRO_BRANCH = {"null": "Null", "boolean": "Boolean", "int": "Int", "long": "Long", "float": "Float",
               "double": "Double", "string": "String", "bytes": "Bytes"}
# logical type -> (spelling choices in the attribute, base type the macro substitutes, branch name, sx)
LOGICALS = {
    "uuid": (["Uuid", "uuid"], ("string",), "Uuid"),
    "date": (["date", "Date"], ("prim", "i32"), "Date"),
    "time-millis": (["time-millis", "TimeMillis", "time_millis"], ("prim", "i32"), "TimeMillis"),
    "time-micros": (["time-micros", "TimeMicros"], ("prim", "i64"), "TimeMicros"),
    "timestamp-millis": (["timestamp-millis", "TimestampMillis"], ("prim", "i64"), "TimestampMillis"),
    "timestamp-micros": (["timestamp-micros", "timestamp_micros"], ("prim", "i64"), "TimestampMicros"),
}
IDENT_POOL = ["alpha", "beta", "gamma", "delta", "count", "name", "value", "items", "next", "left", "right",
              "id", "data", "flag", "size", "kind", "payload", "child", "meta", "tag", "x", "y", "z9", "a_b"]
RAW_IDENTS = ["type", "match", "loop", "fn"]
SYMBOLS = ["A", "B", "C", "Red", "Green", "Blue", "North", "South", "On", "Off", "X1", "Spades", "Hearts"]


def hx(s):
    if isinstance(s, str):
        s = s.encode()
    return "x" + bytes(s).hex()


class Slot:
    """One field / newtype inner / variant payload: how it is spelled in Rust and what the macro sees."""
    def __init__(self, stype, rust, serde="", avro=None, gen=None, logical=None, kind="plain"):
        self.stype = stype          # schema-side rtype (after has_same_type_as)
        self.rust = rust            # Rust type text
        self.serde = serde          # serde attribute text ("" or '#[serde(...)]')
        self.avro = avro or []      # avro_schema attribute items
        self.gen = gen              # Rust expression producing a value (uses g, d) or None: <T as Gen>::gen
        self.logical = logical      # None | sx text of the logical type ("date", "(decimal 2 5)", "(unknown x..)")
        self.kind = kind

    def attrs(self):
        out = []
        if self.avro:
            out.append("#[avro_schema(%s)]" % ", ".join(self.avro))
        if self.serde:
            out.append(self.serde)
        return " ".join(out)

    def gen_expr(self, d="d"):
        if self.gen is not None:
            return self.gen.replace("@d", d)
        return "<%s as Gen>::gen(g, %s)" % (self.rust, d)


class Def:
    def __init__(self, fam, idx, kind, rank):
        self.fam, self.id, self.kind, self.rank = fam, idx, kind, rank
        self.nparams = 0
        self.ident = None           # Rust type identifier
        self.name = None            # name override (avro_schema(name = ..) + serde(rename)) or None
        self.ns = None              # namespace override: None | "" | "a.b"
        self.module = ""            # "" | "sub"
        self.fields = []            # struct: [(fname, raw, slot, skip)]
        self.inner = None           # newtype: slot
        self.symbols = []           # unit enum: [(ident, skipped)]
        self.variants = []          # union enum: [(ident, serde_name, slot|None, escapable)]
        self.const_generic = False  # the parameters are `const N: usize`; an argument ("bytearr", n) stands for [u8; n]
        self.core = False           # member of the fixed core set
        self.nt_class = None        # newtype: "scalar" | "fixed" | "bytes" | "named" | "seq" | "logical" | "param"

    @property
    def modpath(self):
        return MODPATH + ("." + self.module if self.module else "")

    @property
    def name_ident(self):
        return self.name or self.ident

    def ns_prefix(self):
        """the namespace part of names generated for this definition"""
        if self.ns is None:
            return self.modpath + "."
        return self.ns + "." if self.ns else ""

    def fullname(self):
        """fullname of the record / enum built for a non-generic struct or unit enum"""
        return self.ns_prefix() + self.name_ident


class Family:
    def __init__(self, seed, n_defs=None):
        self.seed = seed
        self.rng = random.Random(seed * 7919 + 20)
        rng = self.rng
        n = n_defs or rng.randint(22, 34)
        ranks = list(range(n))
        rng.shuffle(ranks)
        kinds = []
        for i in range(n):
            r = rng.random()
            kinds.append("struct" if r < 0.40 else "newtype" if r < 0.55 else "unit_enum" if r < 0.66
                         else "union_enum" if r < 0.84 else "gstruct" if r < 0.95 else "gnewtype")
        # make sure the lowest ranks can be built from primitives only and that every kind occurs
        for k in ("struct", "newtype", "unit_enum", "union_enum", "gstruct", "gnewtype", "struct", "union_enum"):
            if k not in kinds or kinds.count(k) < (2 if k in ("struct", "union_enum") else 1):
                kinds[rng.randrange(n)] = k
        self.defs = [Def(self, i, kinds[i], ranks[i]) for i in range(n)]
        used = set()
        for d in self.defs:
            pre = {"struct": "S", "newtype": "N", "unit_enum": "E", "union_enum": "U", "gstruct": "G", "gnewtype": "W"}[d.kind]
            d.ident = "%s%d" % (pre, d.id)
            if d.kind in ("gstruct", "gnewtype"):
                d.nparams = 1 if d.kind == "gnewtype" else rng.choice([1, 1, 2])
            if rng.random() < 0.25:
                d.module = "sub"
            if rng.random() < 0.22:
                d.ns = rng.choice(["", "my.ns", "other", "a.b.c"])
            if d.kind in ("struct", "unit_enum") and rng.random() < 0.18:
                d.name = "Renamed%d" % d.id
            if d.kind == "newtype":
                d.nt_class = rng.choice(["scalar", "scalar", "fixed", "fixed", "bytes", "named", "seq", "logical", "logical"])
        # newtypes wrapping a named type need a lower-rank non-union target; fall back to scalar
        for d in sorted(self.defs, key=lambda d: d.rank):
            self.build_body(d)
        self.add_root()
        self.add_core()
        self.roots = self.make_roots()

    # ------------------------------------------------------------------ classification
    def peel(self, t):
        while t[0] == "ptr":
            t = t[2]
        return t

    def unionlike(self, t):
        """does the schema of t start with a union (or null) node? (Option, union enums, through pointers and newtypes)"""
        t = self.peel(t)
        if t[0] == "option":
            return True
        if t[0] == "prim" and t[1] == "unit":
            return True
        if t[0] == "param":
            return True     # unknown: treated as possibly union-like
        if t[0] == "named":
            d = self.defs[t[1]]
            if d.kind == "union_enum":
                return True
            if d.kind == "gnewtype":
                return self.unionlike(t[2][0])
            if d.kind == "newtype" and d.inner is not None:
                return self.unionlike(d.inner.stype)
        return False

    def has_null_symbol(self, t):
        t = self.peel(t)
        if t[0] == "named":
            d = self.defs[t[1]]
            if d.kind == "unit_enum":
                return any(s == "Null" for s, _ in d.symbols)
            if d.kind == "newtype" and d.inner is not None:
                return self.has_null_symbol(d.inner.stype)
        return False

    def candidates(self, ctx, escapable, pred=lambda d: True):
        own = ctx["def"]
        out = []
        for d in self.defs:
            if not pred(d) or d.ident == "Root" or d.core:
                continue
            if d.rank < own.rank:
                out.append(d)
            elif escapable and not ctx["generic"] and d.kind == "struct":
                # a higher (or the own) rank: only behind an escapable constructor, and only records (a cycle
                # without a named type cannot be written as an Avro schema); never generic definitions
                # (instantiating one from below could close a TypeLookup cycle)
                out.append(d)
        if escapable and self.rng.random() < 0.5:
            back = [d for d in out if d.rank >= own.rank]
            if back:
                return back
        return out

    # ------------------------------------------------------------------ random types
    def rand_prim(self, allow_unit=False):
        rng = self.rng
        p = rng.choice(["i32", "i64", "f32", "f64", "bool", "i32", "i64", "u16", "u32", "i8", "i16", "u64", "usize"] + (["unit"] if allow_unit else []))
        return ("prim", p)

    def rand_type(self, ctx, depth=0, escapable=False, allow_union=True, allow_unit=False):
        """a plain type (no serde_bytes positions); allow_union=False: the schema must not start with a union / null node"""
        rng = self.rng
        r = rng.random()
        if depth >= 3:
            r = r * 0.45
        if r < 0.30:
            return self.rand_prim(allow_unit and allow_union)
        if r < 0.40:
            return ("string",)
        if r < 0.45:
            if ctx["nparams"] and allow_union:
                return ("param", rng.randrange(ctx["nparams"]))
            return self.rand_prim()
        if r < 0.62:
            t = self.rand_named(ctx, depth, escapable, allow_union)
            if t is not None:
                return t
            return self.rand_prim()
        if r < 0.74:
            if not allow_union:
                return self.rand_prim()
            # Option: the inner type must not itself start with a union; recursion needs the Box
            if rng.random() < 0.45 and not ctx["generic"]:
                back = self.rand_named(ctx, depth + 1, True, allow_union=False)
                if back is not None:
                    return ("option", ("ptr", "Box", back))
            inner = self.rand_type(ctx, depth + 1, False, allow_union=False)
            assert not self.unionlike(inner), inner
            return ("option", inner)
        if r < 0.86:
            return ("vec", self.rand_type(ctx, depth + 1, True, allow_unit=True))
        if r < 0.94:
            return ("map", rng.choice(["HashMap", "BTreeMap"]), self.rand_type(ctx, depth + 1, True, allow_unit=True))
        inner = self.rand_type(ctx, depth + 1, escapable, allow_union)
        return ("ptr", rng.choice(["Box", "Rc", "Arc", "Box", "RefCell"]), inner)

    def rand_named(self, ctx, depth, escapable, allow_union=True, boxed_ok=False):
        rng = self.rng
        cands = self.candidates(ctx, escapable, lambda d: allow_union or d.kind != "union_enum")
        if not cands:
            return None
        d = rng.choice(cands)
        args = ()
        if d.nparams:
            args = tuple(self.rand_type(ctx, depth + 1, False, allow_union=(allow_union and d.kind != "gnewtype")) for _ in range(d.nparams))
        t = ("named", d.id, args)
        if not allow_union and self.unionlike(t):
            return None
        return t

    # ------------------------------------------------------------------ slots
    def rust_ty(self, t):
        k = t[0]
        if k == "prim":
            return PRIM_RUST.get(t[1], t[1])
        if k == "string":
            return "String"
        if k == "bytes":
            return "Vec<u8>"
        if k == "bytearr":
            return "[u8; %d]" % t[1]
        if k == "option":
            return "Option<%s>" % self.rust_ty(t[1])
        if k == "vec":
            return "Vec<%s>" % self.rust_ty(t[1])
        if k == "map":
            return "%s<String, %s>" % (t[1], self.rust_ty(t[2]))
        if k == "ptr":
            return "%s<%s>" % (t[1], self.rust_ty(t[2]))
        if k == "param":
            return "T%d" % t[1]
        if k == "named":
            d = self.defs[t[1]]
            if d.const_generic:
                return d.ident + "<%s>" % ", ".join(str(a[1]) for a in t[2])
            return d.ident + ("<%s>" % ", ".join(self.rust_ty(a) for a in t[2]) if t[2] else "")
        raise ValueError(t)

    def plain_slot(self, t):
        return Slot(t, self.rust_ty(t))

    def bytes_slot(self, optional=False):
        if optional:
            return Slot(("option", ("bytes",)), "Option<Vec<u8>>", '#[serde(with = "serde_bytes")]', gen="gen_opt_bytes(g, @d)", kind="bytes")
        return Slot(("bytes",), "Vec<u8>", '#[serde(with = "serde_bytes")]', gen="gen_bytes(g, @d)", kind="bytes")

    def arr_slot(self, n, optional=False):
        if optional:
            return Slot(("option", ("bytearr", n)), "Option<[u8; %d]>" % n, '#[serde(with = "serde_bytes")]', gen="gen_opt_arr::<%d>(g, @d)" % n, kind="arr")
        return Slot(("bytearr", n), "[u8; %d]" % n, '#[serde(with = "serde_bytes")]', gen="gen_arr::<%d>(g, @d)" % n, kind="arr")

    def decimal_params(self, nbytes):
        """(scale, precision) valid for the representation (apache-avro checks precision against the fixed size)"""
        rng = self.rng
        maxp = 28 if nbytes == 0 else max(1, int((8 * nbytes - 1) * 0.30102999566))
        maxp = min(maxp, 28)
        p = rng.randint(1, maxp)
        s = rng.choice([0, 0, 1, 2, p, rng.randint(0, p)])
        return min(s, p), p

    def logical_slot(self, which=None):
        """a slot carrying a logical-type attribute"""
        rng = self.rng
        which = which or rng.choice(["uuid", "date", "time-millis", "time-micros", "timestamp-millis", "timestamp-micros",
                                     "decimal-bytes", "decimal-bytes", "decimal-fixed", "decimal-fixed", "duration", "custom"])
        if which in LOGICALS:
            spell, base, _ = LOGICALS[which]
            rust = self.rust_ty(base)
            if which in ("date", "time-millis") and rng.random() < 0.3:
                rust = rng.choice(["u16", "i16", "i8"])     # the macro substitutes the base type
            if which in ("time-micros", "timestamp-millis", "timestamp-micros") and rng.random() < 0.3:
                rust = rng.choice(["u32", "u64"])
            return Slot(base, rust, avro=['logical_type = "%s"' % rng.choice(spell)], logical=which, kind="logical")
        if which == "decimal-bytes":
            s, p = self.decimal_params(0)
            if rng.random() < 0.5:
                # inferred from the name of the type
                return Slot(("bytes",), "Decimal", avro=["scale = %d" % s, "precision = %d" % p],
                            gen="gen_decimal(g, %d, 0, %d)" % (s, p), logical="(decimal %d %d)" % (s, p), kind="decimal")
            return Slot(("bytes",), "rust_decimal::Decimal",
                        avro=['logical_type = "%s"' % rng.choice(["decimal", "Decimal"]), "scale = %d" % s, "precision = %d" % p, 'has_same_type_as = "Vec<u8>"'],
                        gen="gen_decimal(g, %d, 0, %d)" % (s, p), logical="(decimal %d %d)" % (s, p), kind="decimal")
        if which == "decimal-fixed":
            n = rng.choice([1, 2, 4, 8, 12, 16, 5])
            s, p = self.decimal_params(n)
            return Slot(("bytearr", n), "Decimal",
                        avro=['logical_type = "%s"' % rng.choice(["decimal", "Decimal"]), "scale = %d" % s, "precision = %d" % p, 'has_same_type_as = "[u8; %d]"' % n],
                        gen="gen_decimal(g, %d, %d, %d)" % (s, n, p), logical="(decimal %d %d)" % (s, p), kind="decimal")
        if which == "duration":
            if rng.random() < 0.5:
                return Slot(("bytearr", 12), "[u8; 12]", '#[serde(with = "serde_bytes")]', avro=['logical_type = "%s"' % rng.choice(["duration", "Duration"])],
                            gen="gen_arr::<12>(g, @d)", logical="duration", kind="duration")
            return Slot(("bytearr", 12), "(u32, u32, u32)", avro=['logical_type = "duration"', 'has_same_type_as = "[u8; 12]"'],
                        logical="duration", kind="duration")
        # unknown logical type on a primitive: the node keeps its type
        base = rng.choice([("prim", "i32"), ("prim", "i64"), ("string",), ("prim", "f64"), ("prim", "bool")])
        nm = rng.choice(["custom-logical-type", "my_type", "x"])
        return Slot(base, self.rust_ty(base), avro=['logical_type = "%s"' % nm], logical="(unknown %s)" % hx(nm), kind="custom")

    def rand_slot(self, ctx, allow_attr=True):
        """a struct field"""
        rng = self.rng
        r = rng.random()
        if r < 0.07:
            return self.bytes_slot(optional=rng.random() < 0.3)
        if r < 0.13:
            return self.arr_slot(rng.choice([1, 2, 4, 6, 16, 3]), optional=rng.random() < 0.3)
        if r < 0.25 and allow_attr:
            return self.logical_slot()
        return self.plain_slot(self.rand_type(ctx, 0, False, allow_unit=True))

    # ------------------------------------------------------------------ bodies
    def field_names(self, n):
        rng = self.rng
        pool = IDENT_POOL[:]
        rng.shuffle(pool)
        out = []
        for i in range(n):
            if rng.random() < 0.06 and RAW_IDENTS:
                nm = rng.choice(RAW_IDENTS)
                if (nm, True) not in out:
                    out.append((nm, True))
                    continue
            out.append((pool[i % len(pool)] + ("" if i < len(pool) else str(i)), False))
        return out

    def build_body(self, d):
        rng = self.rng
        ctx = {"def": d, "generic": d.nparams > 0, "nparams": d.nparams}
        if d.kind in ("struct", "gstruct"):
            n = rng.choice([0, 1, 1, 2, 2, 3, 3, 4, 5, 7])
            if d.kind == "gstruct":
                n = max(n, d.nparams + (1 if d.ns is not None else 0))
            names = self.field_names(n)
            for i, (fn, raw) in enumerate(names):
                if d.kind == "gstruct" and i < d.nparams:
                    # every parameter is used
                    t = ("param", i)
                    c = rng.random()
                    if c < 0.25:
                        t = ("vec", t)
                    elif c < 0.4:
                        t = ("map", "HashMap", t)
                    elif c < 0.5:
                        t = ("ptr", "Box", t)
                    slot = self.plain_slot(t)
                elif d.kind == "gstruct" and d.ns is not None and i == d.nparams and rng.random() < 0.7:
                    # a generic record with a namespace override and an owned named sub-node
                    slot = self.logical_slot(rng.choice(["decimal-fixed", "duration"]))
                else:
                    slot = self.rand_slot(ctx, allow_attr=True)
                skip = False
                if rng.random() < 0.06 and slot.kind == "plain" and d.kind == "struct":
                    # skipped together with serde(skip): needs Default
                    slot = self.plain_slot(rng.choice([("prim", "i32"), ("string",), ("option", ("prim", "i64")), ("vec", ("string",))]))
                    skip = True
                if d.kind == "struct" and not skip and slot.kind == "plain" and rng.random() < 0.12:
                    # direct recursion
                    me = ("named", d.id, ())
                    slot = self.plain_slot(rng.choice([("option", ("ptr", "Box", me)), ("vec", me), ("map", "BTreeMap", me),
                                                       ("option", ("ptr", "Box", ("vec", me))), ("vec", ("option", ("ptr", "Rc", me)))]))
                d.fields.append((fn, raw, slot, skip))
        elif d.kind == "gnewtype":
            d.inner = self.plain_slot(("param", 0))
        elif d.kind == "newtype":
            c = d.nt_class
            if c == "fixed":
                n = rng.choice([1, 3, 4, 8, 16])
                d.inner = self.arr_slot(n)
                rng.random()    # (serde_bytes has no Deserialize for Box<[u8; N]>: the array is not boxed)
            elif c == "bytes":
                d.inner = self.bytes_slot()
            elif c == "logical":
                d.inner = self.logical_slot()
            elif c == "named":
                cands = [x for x in self.defs if x.rank < d.rank and x.kind in ("struct", "unit_enum", "newtype") and (x.kind != "newtype" or x.inner is not None)]
                if cands:
                    x = rng.choice(cands)
                    t = ("named", x.id, ())
                    if rng.random() < 0.3:
                        t = ("ptr", rng.choice(["Box", "Arc"]), t)
                    d.inner = self.plain_slot(t)
                else:
                    d.nt_class = "scalar"
            elif c == "seq":
                d.inner = self.plain_slot(rng.choice([("vec", self.rand_type(ctx, 2, True)), ("map", "BTreeMap", self.rand_type(ctx, 2, True))]))
            if d.inner is None:
                d.inner = self.plain_slot(rng.choice([("prim", "i32"), ("prim", "i64"), ("string",), ("prim", "f64"), ("prim", "u32"), ("prim", "bool"), ("prim", "f32")]))
        elif d.kind == "unit_enum":
            n = rng.choice([1, 2, 3, 3, 4, 6])
            syms = SYMBOLS[:]
            rng.shuffle(syms)
            d.symbols = [(s, False) for s in syms[:n]]
            if rng.random() < 0.35:
                # a symbol named like the null branch of a union (Option<E>: Some(E::Null) must stay in the enum)
                d.symbols.insert(rng.randrange(len(d.symbols) + 1), ("Null", False))
            if n >= 3 and rng.random() < 0.2:
                i = rng.randrange(n)
                d.symbols[i] = (d.symbols[i][0], True)
        elif d.kind == "union_enum":
            self.build_union(d, ctx)

    def branch_name_of(self, t):
        """(base avro type used for the 'one branch per type' rule, name the deserializer reports) of a plain type; None: not usable as a variant payload"""
        t = self.peel(t)
        k = t[0]
        if k == "prim":
            if t[1] == "unit":
                return None
            a = PRIM_AVRO[t[1]]
            return a, AVRO_BRANCH[a]
        if k == "string":
            return "string", "String"
        if k == "vec":
            return "array", "Array"
        if k == "map":
            return "map", "Map"
        if k == "named":
            d = self.defs[t[1]]
            if d.nparams:
                return None
            if d.kind in ("struct", "unit_enum"):
                return "named:" + d.fullname(), d.fullname()
            if d.kind == "newtype":
                return self.slot_branch(d.inner, ("newtype", d))
        return None

    def slot_branch(self, slot, where):
        """where: ("newtype", def) | ("variant", def, ident)"""
        owner = where[1]
        own_name = owner.ns_prefix() + (owner.name_ident if where[0] == "newtype" else owner.ident + "." + where[2])
        st = self.peel(slot.stype)
        if slot.logical is not None:
            lg = slot.logical
            if lg in LOGICALS:
                base = LOGICALS[lg][1]
                a = "string" if base == ("string",) else PRIM_AVRO[base[1]]
                return a, LOGICALS[lg][2]
            if lg.startswith("(decimal"):
                if st[0] == "bytes":
                    return "bytes", "Decimal"
                return "named:" + own_name, own_name
            if lg == "duration":
                return "duration", "Duration"
            # unknown logical type: the node keeps the base type
            return self.branch_name_of(slot.stype)
        if st[0] == "bytes":
            return "bytes", "Bytes"
        if st[0] == "bytearr":
            return "named:" + own_name, own_name
        return self.branch_name_of(slot.stype)

    def build_union(self, d, ctx):
        rng = self.rng
        n = rng.choice([2, 2, 3, 3, 4, 5, 6])
        used_base, used_ident = set(), set()
        variants = []
        if rng.random() < 0.6:
            variants.append(("Null", "Null", None, False))
            used_base.add("null")
            used_ident.add("Null")
        tries = 0
        while len(variants) < n and tries < 60:
            tries += 1
            r = rng.random()
            esc = False
            if r < 0.35:
                slot = self.plain_slot(rng.choice([self.rand_prim(), ("string",)]))
            elif r < 0.42:
                slot = self.bytes_slot()
            elif r < 0.50:
                slot = self.arr_slot(rng.choice([2, 4, 16]))
            elif r < 0.62:
                slot = self.logical_slot()
            elif r < 0.74:
                slot = self.plain_slot(rng.choice([("vec", self.rand_type(ctx, 2, True, allow_unit=False)),
                                                   ("map", rng.choice(["HashMap", "BTreeMap"]), self.rand_type(ctx, 2, True))]))
                esc = True
            else:
                # a named type: lower rank directly, any rank behind a Box once a base variant exists
                have_base = any(not v[3] for v in variants)
                pred = lambda x: x.kind in ("struct", "unit_enum", "newtype") and not x.nparams and (x.kind != "newtype" or x.inner is not None)
                cands = [x for x in self.defs if pred(x) and (x.rank < d.rank or (have_base and x.kind == "struct"))]
                if not cands:
                    continue
                x = rng.choice(cands)
                t = ("named", x.id, ())
                if x.rank >= d.rank:
                    t = ("ptr", "Box", t)
                    esc = True
                elif rng.random() < 0.25:
                    t = ("ptr", rng.choice(["Box", "Rc"]), t)
                slot = self.plain_slot(t)
            # the identifier is needed for the names of owned sub-nodes (fixed), so it is chosen first
            ident = "V%d" % len(variants)
            if self.unionlike(slot.stype):
                continue
            br = self.slot_branch(slot, ("variant", d, ident))
            if br is None:
                continue
            base, name = br
            if "." not in name:
                # the branch name is a Rust identifier (Int, Date, a namespace-less record..): it is the variant identifier
                ident = name
            elif not name.endswith("." + d.ident + "." + ident) and rng.random() < 0.5:
                # a named type: its short name as identifier, the fullname as serde name
                ident = name.split(".")[-1]
            if ident in used_ident or base in used_base:
                continue
            # (U::Null and U::E(E::Null) are both presented by serde as the unit variant "Null": told apart by the
            #  name of the enum being serialized since fix 6b43b58 -- exercised, not excluded)
            used_base.add(base)
            used_ident.add(ident)
            variants.append((ident, name, slot, esc))
        if not any(not v[3] for v in variants):
            for base, ident, t in (("int", "Int", ("prim", "i32")), ("boolean", "Boolean", ("prim", "bool")), ("double", "Double", ("prim", "f64")),
                                   ("long", "Long", ("prim", "i64")), ("float", "Float", ("prim", "f32")), ("string", "String", ("string",))):
                if base not in used_base and ident not in used_ident:
                    variants.insert(0, (ident, ident, self.plain_slot(t), False))
                    used_base.add(base)
                    used_ident.add(ident)
                    break
        if len([v for v in variants if v[2] is not None]) == 0:
            variants.append(("Long", "Long", self.plain_slot(("prim", "i64")), False))      # only Null so far: long is free
        rng.shuffle(variants)
        d.variants = variants

    def add_root(self):
        """a last record that references (nearly) everything: sharing, every generic definition
        instantiated with several different arguments in one schema"""
        rng = self.rng
        d = Def(self, len(self.defs), "struct", len(self.defs) + 1000)
        d.ident = "Root"
        self.defs.append(d)
        ctx = {"def": d, "generic": False, "nparams": 0}
        i = 0
        argpool = [("prim", "i32"), ("string",), ("prim", "u16"), ("prim", "f64"), ("vec", ("prim", "i64")), ("option", ("prim", "bool"))]
        nong = [x for x in self.defs[:-1] if not x.nparams]
        for x in self.defs[:-1]:
            if x.nparams:
                seen = []
                for _ in range(rng.choice([2, 3])):
                    args = []
                    for _p in range(x.nparams):
                        c = rng.random()
                        if c < 0.5 or not nong:
                            a = rng.choice(argpool)
                        else:
                            y = rng.choice(nong)
                            a = ("named", y.id, ())
                        args.append(a)
                    args = tuple(args)
                    if args in seen:
                        continue
                    seen.append(args)
                    t = ("named", x.id, args)
                    c = rng.random()
                    if c < 0.2:
                        t = ("vec", t)
                    elif c < 0.3 and not self.unionlike(t):
                        t = ("option", t)
                    d.fields.append(("g%d" % i, False, self.plain_slot(t), False))
                    i += 1
            elif rng.random() < 0.7:
                t = ("named", x.id, ())
                c = rng.random()
                if c < 0.2:
                    t = ("vec", t)
                elif c < 0.35 and not self.unionlike(t):
                    t = ("option", t)
                elif c < 0.45:
                    t = ("map", "HashMap", t)
                elif c < 0.55:
                    t = ("ptr", "Arc", t)
                d.fields.append(("r%d" % i, False, self.plain_slot(t), False))
                i += 1

    def add_core(self):
        """The fixed CORE set, present in EVERY family whatever the seed: the shapes whose handling by the derive
        is easy to break without any random family noticing. Built with the same Def / Slot machinery, so the
        model side (defs term, node-vector comparison, instantiation oracle) covers them like every other definition.
          CoreNode      recursive root through Option<Box<_>>
          CoreColor     unit enum with a symbol Null; CoreOptE: Option / Vec<Option> of it
          CoreU         union enum with the unit variant Null over a union that contains CoreColor (symbol Null)
          CoreTimes     every date / time / timestamp / uuid attribute on the full-range Rust type (i32 / i64)
          CoreG<T>      pub generic record WITH a namespace override and owned sub-nodes (duration on [u8; 12],
                        decimal on [u8; 8]), instantiated twice in CoreRoot
          CoreH<T>      pub generic record in a sub-module, no namespace override, owned sub-node, instantiated twice
          CoreBlock<const CN0: usize>  generic over const parameters only, instantiated with 4 and 16 (in the model the
                        const parameter is a type parameter standing for [u8; N])
          CoreList / CoreForest+CoreTree / CoreFs+CoreDir   a recursive record reached from outside through the same Option<Box<_>> / Vec<_> /
                        BTreeMap<_> wrapper it recurses through (one shared union / array / map node, re-entered after a named record started)
          CoreNum / CoreWhen   union enums where a branch designated by a type name (Long, Date, String) sits next to a record / enum whose
                        unqualified name is that word in another namespace (wide.Long, calendar.Date, tags.String)
          CoreRoot      all of them in one schema"""
        def new(kind, ident, nparams=0, module="", ns=None):
            d = Def(self, len(self.defs), kind, 2000 + len(self.defs))
            d.ident, d.nparams, d.module, d.ns, d.core = ident, nparams, module, ns, True
            self.defs.append(d)
            return d
        def named(d, *args):
            return ("named", d.id, tuple(args))
        def lg(which, rust):
            spell, base, _ = LOGICALS[which]
            return Slot(base, rust, avro=['logical_type = "%s"' % spell[0]], logical=which, kind="logical")
        def dur():
            return Slot(("bytearr", 12), "[u8; 12]", '#[serde(with = "serde_bytes")]', avro=['logical_type = "duration"'],
                        gen="gen_arr::<12>(g, @d)", logical="duration", kind="duration")
        def dec_fixed(n, s, p):
            return Slot(("bytearr", n), "Decimal", avro=['logical_type = "decimal"', "scale = %d" % s, "precision = %d" % p, 'has_same_type_as = "[u8; %d]"' % n],
                        gen="gen_decimal(g, %d, %d, %d)" % (s, n, p), logical="(decimal %d %d)" % (s, p), kind="decimal")
        P = lambda p: ("prim", p)
        node = new("struct", "CoreNode")
        node.fields = [("v", False, self.plain_slot(P("i32")), False),
                       ("next", False, self.plain_slot(("option", ("ptr", "Box", named(node)))), False)]
        color = new("unit_enum", "CoreColor")
        color.symbols = [("A", False), ("Null", False), ("B", False)]
        opte = new("struct", "CoreOptE")
        opte.fields = [("e", False, self.plain_slot(("option", named(color))), False),
                       ("es", False, self.plain_slot(("vec", ("option", named(color)))), False),
                       ("plain", False, self.plain_slot(named(color)), False)]
        u = new("union_enum", "CoreU")
        u.variants = [("Null", "Null", None, False),
                      ("Int", "Int", self.plain_slot(P("i32")), False),
                      ("Color", color.fullname(), self.plain_slot(named(color)), False),
                      ("String", "String", self.plain_slot(("string",)), False)]
        times = new("struct", "CoreTimes")
        times.fields = [("date", False, lg("date", "i32"), False),
                        ("time_millis", False, lg("time-millis", "i32"), False),
                        ("time_micros", False, lg("time-micros", "i64"), False),
                        ("ts_millis", False, lg("timestamp-millis", "i64"), False),
                        ("ts_micros", False, lg("timestamp-micros", "i64"), False),
                        ("id", False, lg("uuid", "String"), False),
                        ("plain_long", False, self.plain_slot(P("i64")), False)]
        g = new("gstruct", "CoreG", nparams=1, ns="core.ns")
        g.fields = [("t", False, self.plain_slot(("param", 0)), False),
                    ("d", False, dur(), False),
                    ("m", False, dec_fixed(8, 2, 15), False),
                    ("micros", False, lg("time-micros", "i64"), False)]
        h = new("gstruct", "CoreH", nparams=1, module="sub")
        h.fields = [("items", False, self.plain_slot(("vec", ("param", 0))), False),
                    ("d", False, dur(), False),
                    ("m", False, dec_fixed(4, 0, 9), False)]
        blk = new("gstruct", "CoreBlock", nparams=1)
        blk.const_generic = True
        blk.fields = [("data", False, Slot(("param", 0), "[u8; CN0]", '#[serde(with = "serde_bytes")]', gen="gen_arr::<CN0>(g, @d)", kind="arr"), False),
                      ("n", False, self.plain_slot(P("i32")), False)]
        # a recursive type reached from OUTSIDE through the very wrapper it recurses through: the derive shares one node per lookup
        # type, so the union / array / map node is entered again (after a named record has been started) while it is being written
        lst = new("struct", "CoreList")
        lst.fields = [("name", False, self.plain_slot(("string",)), False),
                      ("head", False, self.plain_slot(("option", ("ptr", "Box", named(node)))), False)]
        tree = new("struct", "CoreTree")
        tree.fields = [("id", False, self.plain_slot(P("i32")), False),
                       ("children", False, self.plain_slot(("vec", named(tree))), False)]
        forest = new("struct", "CoreForest")
        forest.fields = [("trees", False, self.plain_slot(("vec", named(tree))), False)]
        cdir = new("struct", "CoreDir", module="sub")
        cdir.fields = [("size", False, self.plain_slot(P("i64")), False),
                       ("entries", False, self.plain_slot(("map", "BTreeMap", named(cdir))), False)]
        cfs = new("struct", "CoreFs")
        cfs.fields = [("mounts", False, self.plain_slot(("map", "BTreeMap", named(cdir))), False),
                      ("first", False, self.plain_slot(("option", ("ptr", "Box", named(node)))), False),
                      ("spare", False, self.plain_slot(("option", named(node))), False)]
        # union enums in which a branch designated by a TYPE NAME (Long, Date, String: what the deserializer reports for an unnamed
        # branch) sits next to a named type whose UNQUALIFIED name is that same word in another namespace
        wide = new("struct", "CoreWideLong", ns="wide")
        wide.name = "Long"
        wide.fields = [("hi", False, self.plain_slot(P("i64")), False), ("lo", False, self.plain_slot(P("i64")), False)]
        cal = new("struct", "CoreCalDate", ns="calendar")
        cal.name = "Date"
        cal.fields = [("year", False, self.plain_slot(P("i32")), False), ("day", False, self.plain_slot(P("i32")), False)]
        tag = new("unit_enum", "CoreTagString", ns="tags")
        tag.name = "String"
        tag.symbols = [("Short", False), ("Wide", False)]
        num = new("union_enum", "CoreNum")
        num.variants = [("Wide", wide.fullname(), self.plain_slot(named(wide)), False),
                        ("Long", "Long", self.plain_slot(P("i64")), False)]
        when = new("union_enum", "CoreWhen")
        when.variants = [("Null", "Null", None, False),
                         ("Date", "Date", lg("date", "i32"), False),
                         ("Calendar", cal.fullname(), self.plain_slot(named(cal)), False),
                         ("String", "String", self.plain_slot(("string",)), False),
                         ("Tag", tag.fullname(), self.plain_slot(named(tag)), False),
                         ("Long", "Long", self.plain_slot(P("i64")), False),
                         ("WideLong", wide.fullname(), self.plain_slot(named(wide)), False)]
        root = new("struct", "CoreRoot")
        fs = [("list", named(lst)), ("forest", named(forest)), ("fs", named(cfs)), ("num", named(num)), ("whens", ("vec", named(when))),
              ("node", named(node)), ("opt_e", named(opte)), ("u", named(u)), ("us", ("vec", named(u))),
              ("um", ("map", "BTreeMap", named(u))), ("times", named(times)), ("otimes", ("option", named(times))),
              ("g1", named(g, P("i32"))), ("g2", named(g, ("string",))), ("g3", named(g, named(color))),
              ("h1", named(h, P("i64"))), ("h2", named(h, named(node))),
              ("b4", named(blk, ("bytearr", 4))), ("b16", named(blk, ("bytearr", 16))), ("b4s", ("vec", named(blk, ("bytearr", 4))))]
        root.fields = [(fn, False, self.plain_slot(t), False) for fn, t in fs]

    def make_roots(self):
        rng = self.rng
        roots = []
        for d in self.defs:
            if d.nparams:
                continue
            roots.append((d.ident, ("named", d.id, ())))
        # generic instantiations as roots of their own, and composite roots
        for root in [d for d in self.defs if d.ident in ("Root", "CoreRoot")]:
            for (fn, raw, slot, skip) in root.fields:
                t = self.peel(slot.stype)
                if t[0] == "named" and self.defs[t[1]].nparams and slot.kind == "plain":
                    roots.append(("%s=%s" % (fn, self.rust_ty(t)), t))
        nong = [x for x in self.defs if not x.nparams]
        for i in range(6):
            x = rng.choice(nong)
            t = ("named", x.id, ())
            c = i % 6
            if c == 0:
                t = ("vec", t)
            elif c == 1 and not self.unionlike(t):
                t = ("option", t)
            elif c == 2:
                t = ("map", "HashMap", t)
            elif c == 3:
                t = ("ptr", "Box", ("vec", ("ptr", "Rc", t)))
            elif c == 4:
                t = ("map", "BTreeMap", ("vec", t))
            else:
                t = ("vec", ("map", "HashMap", t))
            roots.append(("c%d=%s" % (i, self.rust_ty(t)), t))
        roots.append(("p0=Vec<Option<u32>>", ("vec", ("option", ("prim", "u32")))))
        roots.append(("p1=i64", ("prim", "i64")))
        return roots

    # ------------------------------------------------------------------ lookup keys (generic instantiation oracle)
    def subst(self, t, args):
        k = t[0]
        if k == "param":
            return args[t[1]]
        if k in ("option", "vec"):
            return (k, self.subst(t[1], args))
        if k in ("map", "ptr"):
            return (k, t[1], self.subst(t[2], args))
        if k == "named":
            return (k, t[1], tuple(self.subst(a, args) for a in t[2]))
        return t

    def eff_type(self, slot):
        if slot.logical in LOGICALS:
            return LOGICALS[slot.logical][1]
        return slot.stype

    def lk(self, t):
        """the TypeLookup of a type, as an s-expression text (must agree with Derive.lookup)"""
        k = t[0]
        if k == "prim":
            return PRIM_AVRO[t[1]]
        if k in ("string", "bytes"):
            return k
        if k == "bytearr":
            return "(arr %d)" % t[1]
        if k == "option":
            return "(option %s)" % self.lk(t[1])
        if k == "vec":
            return "(vec %s)" % self.lk(t[1])
        if k == "map":
            return "(map %s)" % self.lk(t[2])
        if k == "ptr":
            return self.lk(t[2])
        if k == "named":
            d = self.defs[t[1]]
            if d.kind in ("struct", "gstruct"):
                if not d.nparams:
                    return "(named %d)" % d.id
                return "(named %d%s)" % (d.id, "".join(" " + self.lk(self.subst(self.peel(self.eff_type(s)), t[2])) for (_, _, s, skip) in d.fields if not skip))
            if d.kind in ("newtype", "gnewtype"):
                s = d.inner
                if s.logical is None and self.peel(s.stype)[0] != "bytearr":
                    return self.lk(self.subst(self.peel(s.stype), t[2]))
                return "(named %d)" % d.id
            return "(named %d)" % d.id
        raise ValueError(t)

    def reachable(self, d0):
        """ids of the definitions mentioned (transitively) by the body of d0"""
        seen = set()
        def walk(t):
            k = t[0]
            if k in ("option", "vec"):
                walk(t[1])
            elif k in ("map", "ptr"):
                walk(t[2])
            elif k == "named":
                for a in t[2]:
                    walk(a)
                if t[1] not in seen:
                    seen.add(t[1])
                    body(self.defs[t[1]])
        def body(d):
            for (_, _, s, _) in d.fields:
                walk(s.stype)
            if d.inner is not None:
                walk(d.inner.stype)
            for v in d.variants:
                if v[2] is not None:
                    walk(v[2].stype)
        body(d0)
        return seen

    def instantiations(self):
        """all concrete instantiations of generic structs reachable from the roots: [(rust type text, key text)]"""
        seen, out, done = set(), [], set()
        def walk(t):
            k = t[0]
            if k in ("option", "vec"):
                walk(t[1])
            elif k in ("map", "ptr"):
                walk(t[2])
            elif k == "named":
                if (t[1], t[2]) in done:
                    return
                done.add((t[1], t[2]))
                d = self.defs[t[1]]
                for a in t[2]:
                    walk(a)
                if d.kind == "gstruct":
                    key = self.lk(t)
                    if key not in seen:
                        seen.add(key)
                        out.append((self.rust_ty(t), key))
                if d.kind in ("struct", "gstruct"):
                    for (_, _, s, skip) in d.fields:
                        if not skip:
                            walk(self.subst(s.stype, t[2]))
                elif d.kind in ("newtype", "gnewtype"):
                    walk(self.subst(d.inner.stype, t[2]))
                elif d.kind == "union_enum":
                    for v in d.variants:
                        if v[2] is not None:
                            walk(v[2].stype)
        for _, t in self.roots:
            walk(t)
        return out

    # ------------------------------------------------------------------ s-expressions for the model
    def type_sx(self, t):
        k = t[0]
        if k == "prim":
            return t[1]
        if k in ("string", "bytes"):
            return k
        if k == "bytearr":
            return "(bytearr %d)" % t[1]
        if k in ("option", "vec"):
            return "(%s %s)" % (k, self.type_sx(t[1]))
        if k == "map":
            return "(map %s)" % self.type_sx(t[2])
        if k == "ptr":
            return "(ptr %s)" % self.type_sx(t[2])
        if k == "param":
            return "(param %d)" % t[1]
        if k == "named":
            return "(named %d%s)" % (t[1], "".join(" " + self.type_sx(a) for a in t[2]))
        raise ValueError(t)

    def slot_sx(self, s):
        return "%s %s" % (self.type_sx(s.stype), "none" if s.logical is None else "(logical %s)" % s.logical)

    def def_sx(self, d):
        ns = "none" if d.ns is None else "(ns %s)" % hx(d.ns)
        head = "%s %s %s %s %d" % (hx(d.modpath), ns, hx(d.name_ident), hx(d.ident), d.nparams)
        if d.kind in ("struct", "gstruct"):
            return "(struct %s%s)" % (head, "".join(" (field %s %s %s)" % (hx(fn), self.slot_sx(s), "skip" if skip else "keep") for (fn, raw, s, skip) in d.fields))
        if d.kind in ("newtype", "gnewtype"):
            return "(newtype %s %s)" % (head, self.slot_sx(d.inner))
        if d.kind == "unit_enum":
            return "(unit_enum %s%s)" % (head, "".join(" (sym %s %s)" % (hx(s), "skip" if sk else "keep") for s, sk in d.symbols))
        if d.kind == "union_enum":
            return "(union_enum %s%s)" % (head, "".join(" (unit)" if v[2] is None else " (variant %s %s)" % (hx(v[0]), self.slot_sx(v[2])) for v in d.variants))
        raise ValueError(d.kind)

    def defs_sx(self):
        return "(defs %s)" % " ".join(self.def_sx(d) for d in self.defs)

    # ------------------------------------------------------------------ Rust
    def generics(self, d, bound=None):
        if not d.nparams:
            return "", ""
        if d.const_generic:
            ns = ["CN%d" % i for i in range(d.nparams)]     # (N0, N1.. are identifiers of random newtypes)
            return ("<%s>" % ", ".join("const %s: usize" % n for n in ns), "<%s>" % ", ".join(ns))
        ps = ["T%d" % i for i in range(d.nparams)]
        return ("<%s>" % ", ".join(p + (": " + bound if bound else "") for p in ps), "<%s>" % ", ".join(ps))

    def rust_def(self, d):
        rng = random.Random(self.seed * 31 + d.id)
        out = []
        derives = "Serialize, Deserialize, BuildSchema, Debug, Clone"
        if d.kind == "unit_enum":
            derives += ", PartialEq"
        out.append("#[derive(%s)]" % derives)
        av = []
        if d.ns is not None:
            av.append('namespace = "%s"' % d.ns)
        if d.name:
            av.append("name = %s" % d.name)
        if av:
            out.append("#[avro_schema(%s)]" % ", ".join(av))
        if d.name:
            out.append('#[serde(rename = "%s")]' % d.name)
        gdecl, guse = self.generics(d)
        if d.kind in ("struct", "gstruct"):
            out.append("pub struct %s%s {" % (d.ident, gdecl))
            for (fn, raw, s, skip) in d.fields:
                a = s.attrs()
                if skip:
                    a = "#[avro_schema(skip)] #[serde(skip)]"
                out.append("\t%spub %s%s: %s," % (a + " " if a else "", "r#" if raw else "", fn, s.rust))
            out.append("}")
            gb, _ = self.generics(d, "Gen")
            out.append("impl%s Gen for %s%s {" % (gb, d.ident, guse))
            out.append("\tfn gen(g: &mut G, d: u32) -> Self {")
            out.append("\t\tlet _ = (&g, d);")
            out.append("\t\t%s {" % d.ident)
            for (fn, raw, s, skip) in d.fields:
                out.append("\t\t\t%s%s: %s," % ("r#" if raw else "", fn, "Default::default()" if skip else s.gen_expr()))
            out.append("\t\t}\n\t}\n}")
            gb, _ = self.generics(d, "BitEq")
            out.append("impl%s BitEq for %s%s {" % (gb, d.ident, guse))
            conds = ["self.%s%s.beq(&o.%s%s)" % ("r#" if raw else "", fn, "r#" if raw else "", fn) for (fn, raw, s, skip) in d.fields if not skip]
            out.append("\tfn beq(&self, o: &Self) -> bool {\n\t\tlet _ = o;\n\t\t%s\n\t}\n}" % (" && ".join(conds) if conds else "true"))
        elif d.kind in ("newtype", "gnewtype"):
            a = d.inner.attrs()
            out.append("pub struct %s%s(%spub %s);" % (d.ident, gdecl, a + " " if a else "", d.inner.rust))
            gb, _ = self.generics(d, "Gen")
            out.append("impl%s Gen for %s%s {\n\tfn gen(g: &mut G, d: u32) -> Self {\n\t\t%s(%s)\n\t}\n}" % (gb, d.ident, guse, d.ident, d.inner.gen_expr()))
            gb, _ = self.generics(d, "BitEq")
            out.append("impl%s BitEq for %s%s {\n\tfn beq(&self, o: &Self) -> bool {\n\t\tself.0.beq(&o.0)\n\t}\n}" % (gb, d.ident, guse))
        elif d.kind == "unit_enum":
            out.append("pub enum %s {" % d.ident)
            for s, sk in d.symbols:
                out.append("\t%s%s," % ("#[avro_schema(skip)] #[serde(skip)] " if sk else "", s))
            out.append("}")
            live = [s for s, sk in d.symbols if not sk]
            out.append("impl Gen for %s {\n\tfn gen(g: &mut G, _d: u32) -> Self {\n\t\tmatch g.below(%d) {" % (d.ident, len(live)))
            for i, s in enumerate(live):
                out.append("\t\t\t%s => %s::%s," % (str(i) if i + 1 < len(live) else "_", d.ident, s))
            out.append("\t\t}\n\t}\n}")
            out.append("impl BitEq for %s {\n\tfn beq(&self, o: &Self) -> bool {\n\t\tself == o\n\t}\n}" % d.ident)
        elif d.kind == "union_enum":
            out.append("pub enum %s {" % d.ident)
            for (ident, sname, s, esc) in d.variants:
                ren = '#[serde(rename = "%s")] ' % sname if sname != ident else ""
                if s is None:
                    out.append("\t%s%s," % (ren, ident))
                else:
                    a = s.attrs()
                    out.append("\t%s%s(%s%s)," % (ren, ident, a + " " if a else "", s.rust))
            out.append("}")
            order = [v for v in d.variants if not v[3]] + [v for v in d.variants if v[3]]
            nbase = len([v for v in d.variants if not v[3]])
            out.append("impl Gen for %s {\n\tfn gen(g: &mut G, d: u32) -> Self {" % d.ident)
            out.append("\t\tlet k = if d == 0 { g.below(%d) } else { g.below(%d) };" % (nbase, len(order)))
            out.append("\t\tmatch k {")
            for i, (ident, sname, s, esc) in enumerate(order):
                pat = str(i) if i + 1 < len(order) else "_"
                if s is None:
                    out.append("\t\t\t%s => %s::%s," % (pat, d.ident, ident))
                else:
                    out.append("\t\t\t%s => %s::%s(%s)," % (pat, d.ident, ident, s.gen_expr("d.saturating_sub(1)" if esc else "d")))
            out.append("\t\t}\n\t}\n}")
            out.append("impl BitEq for %s {\n\tfn beq(&self, o: &Self) -> bool {\n\t\tmatch (self, o) {" % d.ident)
            for (ident, sname, s, esc) in d.variants:
                if s is None:
                    out.append("\t\t\t(%s::%s, %s::%s) => true," % (d.ident, ident, d.ident, ident))
                else:
                    out.append("\t\t\t(%s::%s(a), %s::%s(b)) => a.beq(b)," % (d.ident, ident, d.ident, ident))
            if len(d.variants) > 1:
                out.append("\t\t\t_ => false,")
            out.append("\t\t}\n\t}\n}")
        return "\n".join(out)

    def ref_twin(self, d):
        """a borrowing twin of a plain struct: &'a T / &'a str / &'a [T] fields, same Avro name; None if not applicable"""
        if d.kind != "struct" or d.nparams or not d.fields or d.ident in ("Root", "CoreRoot"):
            return None
        if d.id in self.reachable(d):
            return None     # a recursive type: the twin would define the record a second time
        fields, build = [], []
        for (fn, raw, s, skip) in d.fields:
            if skip or s.kind not in ("plain", "bytes", "arr", "logical", "custom"):
                return None
            f = ("r#" if raw else "") + fn
            t = s.stype
            a = s.attrs()
            if s.kind == "bytes" and t == ("bytes",):
                fields.append("\t%s pub %s: &'a [u8]," % (a, f)); build.append("%s: &o.%s[..]" % (f, f))
            elif s.kind in ("bytes", "arr"):
                fields.append("\t%s pub %s: &'a %s," % (a, f, s.rust)); build.append("%s: &o.%s" % (f, f))
            elif s.kind == "plain" and t == ("string",):
                fields.append("\tpub %s: &'a str," % f); build.append("%s: o.%s.as_str()" % (f, f))
            elif s.kind == "plain" and t[0] == "vec":
                fields.append("\tpub %s: &'a [%s]," % (f, self.rust_ty(t[1]))); build.append("%s: &o.%s[..]" % (f, f))
            else:
                fields.append("\t%s pub %s: &'a %s," % (a, f, s.rust)); build.append("%s: &o.%s" % (f, f))
        out = ["#[derive(Serialize, BuildSchema)]"]
        av = ["name = %s" % d.name_ident]
        if d.ns is not None:
            av.append('namespace = "%s"' % d.ns)
        out.append("#[avro_schema(%s)]" % ", ".join(av))
        out.append('#[serde(rename = "%s")]' % d.name_ident)
        out.append("pub struct %sRef<'a> {\n%s\n}" % (d.ident, "\n".join(fields)))
        out.append("pub fn %s_ref_twin(g: &mut G) -> Result<(), String> {\n\tfor d in 0..3 {\n\t\tlet o = <%s as Gen>::gen(g, d);\n\t\tlet r = %sRef { %s };\n\t\tcheck_ref_twin(\"%sRef\", &o, &r)?;\n\t}\n\tOk(())\n}"
                   % (d.ident, d.ident, d.ident, ", ".join(build), d.ident))
        return "\n".join(out)

    def rust(self):
        out = ["// GENERATED by lib/typegen.py (family seed %d) -- do not edit" % self.seed,
               "#![allow(non_snake_case, non_camel_case_types, dead_code, unused_imports, unused_variables, private_interfaces, clippy::all)]",
               "use crate::rtypes::*;",
               "use rust_decimal::Decimal;",
               "use serde_avro_derive::BuildSchema;",
               "use serde_derive::{Deserialize, Serialize};",
               "use std::collections::{BTreeMap, HashMap};",
               "use std::{cell::RefCell, rc::Rc, sync::Arc};",
               "pub use sub::*;",
               "",
               "pub const FAMILY_SEED: u64 = %d;" % self.seed, ""]
        twins = []
        for mod in ("", "sub"):
            if mod:
                out.append("pub mod sub {\nuse super::*;\n")
            for d in self.defs:
                if d.module != mod:
                    continue
                out.append(self.rust_def(d))
                tw = self.ref_twin(d)
                if tw is not None and len(twins) < 8:
                    out.append(tw)
                    twins.append(d)
                out.append("")
            if mod:
                out.append("}\n")
        out.append("pub fn run_family(seed: u64, n: usize, fails: &mut Vec<Fail>) -> usize {")
        out.append("\tlet mut g = G::new(seed);\n\tlet mut count = 0;")
        for label, t in self.roots:
            out.append("\tcount += check_type::<%s>(%s, &mut g, n, fails);" % (self.rust_ty(t), rust_str(label)))
        for d in twins:
            out.append("\tmatch %s_ref_twin(&mut g) {\n\t\tOk(()) => count += 3,\n\t\tErr(m) => fails.push((\"%sRef\".to_owned(), \"ref-twin\", m)),\n\t}" % (d.ident, d.ident))
        out.append("\tcount\n}\n")
        out.append("pub fn schemas() -> Vec<(String, serde_avro_fast::schema::SchemaMut)> {\n\tvec![")
        for label, t in self.roots:
            out.append("\t\t(%s.to_owned(), <%s as BuildSchema>::schema_mut())," % (rust_str(label), self.rust_ty(t)))
        out.append("\t]\n}\n")
        out.append("pub fn inst_oracle() -> Vec<(&'static str, String)> {\n\tvec![")
        for rust, key in self.instantiations():
            out.append("\t\t(%s, suffix_of::<%s>())," % (rust_str(key), rust))
        out.append("\t]\n}")
        return "\n".join(out) + "\n"


def rust_str(s):
    return '"' + s.replace("\\", "\\\\").replace('"', '\\"') + '"'


def write_if_changed(path, text):
    """the file is only rewritten when its content changes (cargo rebuild cost)"""
    try:
        if open(path).read() == text:
            return False
    except OSError:
        pass
    with open(path, "w") as f:
        f.write(text)
    return True


if __name__ == "__main__":
    import sys
    fam = Family(int(sys.argv[1]) if len(sys.argv) > 1 else 1)
    here = os.path.dirname(os.path.dirname(os.path.abspath(__file__)))
    print(write_if_changed(os.path.join(here, "harness", "src", "gen_types.rs"), fam.rust()))
    print(len(fam.defs), "definitions,", len(fam.roots), "roots,", len(fam.instantiations()), "instantiations")
