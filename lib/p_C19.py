"""C19 -- schema construction is total: any text or node graph gives Ok/Err, never a crash."""
import json as pyjson, random
import common as C
import gen as G
import docgen as D

MODEL_TARGETS = ["model/Parse.vo", "model/SchemaJson.vo", "model/CanonicalForm.vo", "model/Freeze.vo"]
COQ_TARGETS = ["props/C19.vo"]
THEOREMS = [("C19", ["C19_parse_total", "C19_fp_total", "C19_json_total", "C19_freeze_total", "C19_freeze_keys", "C19_use_safe", "C19_cyclecheck_linear", "C19_json_text_total", "C19_parse_text_total"])]
PROOF_FILES = ["proofs/SchemaTextProofs.v", "proofs/SchemaTotalProofs.v", "proofs/JsonReadProofs.v", "proofs/JsonReadSchema.v", "proofs/JsonReadTotal.v", "props/C19.v", "proofs/SerSafetyProofs.v", "proofs/DeSafetyProofs.v"]
TRUSTED_BASE = [
    "Coq 8.16.1 kernel; no axioms (Print Assumptions: closed)",
    "hand-written models Parse.v (raw.rs + parsing/mod.rs + check_for_cycles.rs), CanonicalForm.v, SchemaJson.v (serialize.rs), Freeze.v/Schema.v (self_referential.rs) tied by the correspondence run",
    "serde_json (lexing, recursion limit 128) is outside the model: the model starts at the JSON AST; Python's json module is used to obtain the AST for the model side",
    "fuel is the model's stand-in for stack depth and running time: the theorems give an explicit bound (quadratic in the number of nodes) sufficient for ANY node vector; real stack usage per frame is not modelled -- each call on the crate runs in a child process whose death or timeout is a result",
    "extraction (ExtrOcamlBasic) + ocaml/driver.ml; Rust harness",
]
ASSUMPTIONS = [
    "'whenever freezing succeeds the schema can be used safely' is proved (C19_use_safe): on every graph freeze accepts neither the deserializer (any input, target, limits) nor the serializer (any value from a protocol-respecting Serialize impl) can panic, and the dynamic / ignoring consumer terminates within the explicit bound; the run additionally exercises every frozen graph with hostile bytes and arbitrary presentations on the crate",
]

def text_to_ast(text):
    """Python's json with order, duplicates and number tokens preserved; None when Python and serde_json may disagree on validity"""
    def pairs(p):
        return ("obj", list(p))
    def bad(_):
        raise ValueError("constant")
    try:
        v = pyjson.loads(text, object_pairs_hook=pairs, parse_int=lambda t: ("num", t), parse_float=lambda t: ("num", t), parse_constant=bad)
    except (ValueError, RecursionError):
        return None
    def conv(x, depth=0):
        if depth > 120:
            raise ValueError("deep")
        if x is None:
            return ("null",)
        if x is True or x is False:
            return ("bool", x)
        if isinstance(x, tuple) and x and x[0] == "num":
            return x
        if isinstance(x, tuple) and x and x[0] == "obj":
            return ("obj", [(k, conv(v, depth + 1)) for k, v in x[1]])
        if isinstance(x, str):
            x.encode("utf-8")           # lone surrogates: serde_json rejects them
            return ("str", x)
        if isinstance(x, list):
            return ("arr", [conv(v, depth + 1) for v in x])
        raise ValueError("type")
    try:
        return conv(v)
    except (ValueError, UnicodeEncodeError):
        return None

def random_json(rng, depth=0):
    r = rng.random()
    if depth > 4 or r < 0.35:
        return rng.choice([("null",), ("bool", True), ("num", rng.choice(["0", "1", "12", "-1", "1.5", "1e3", "18446744073709551616", "4294967296"])),
                           ("str", rng.choice(["int", "null", "record", "array", "x", "a.b", "", "string", "fixed", "enum", "map", "N0"]))])
    if r < 0.6:
        return ("arr", [random_json(rng, depth + 1) for _ in range(rng.randint(0, 3))])
    keys = ["type", "name", "namespace", "fields", "symbols", "items", "values", "size", "logicalType", "precision", "scale", "doc", "type", "name"]
    return ("obj", [(rng.choice(keys), random_json(rng, depth + 1)) for _ in range(rng.randint(0, 5))])

def diamond(n):
    """R0{a: R1{a: R2{...}, b: "R2"}, b: "R1"}: the shape whose cycle check used to double per level"""
    def rec(i):
        if i == n:
            return '{"type":"record","name":"R%d","fields":[]}' % i
        return '{"type":"record","name":"R%d","fields":[{"name":"a","type":%s},{"name":"b","type":"R%d"}]}' % (i, rec(i + 1), i + 1)
    return rec(0)

def run(ctx):
    rng = random.Random(ctx["seed"] * 1000003 + 19)
    quick = ctx["tier"] == "quick"
    ngraphs = 1200 if quick else 60000
    ntexts = 700 if quick else 30000
    violations, diffs, samples, distinct = [], [], [], set()
    from collections import Counter
    dist = Counter()
    # ---- node vectors
    graphs = [G.GraphGen(rng, dangling=rng.choice([0, 0.1, 0.3]), dup_names=rng.choice([0, 0.3]), weird_names=rng.choice([0, 0.3]),
                         n=rng.choice([0, 1, 1, 2, 3, 4, 6, 9])).build() for _ in range(ngraphs)]
    # keys at the boundary held by nodes the root does not reach: the traversals from the root (fingerprint, JSON) never see them,
    # only the node-by-node conversion of freeze does
    def keys_of(x):
        return [x.items] if x.t == "array" else [x.values] if x.t == "map" else list(x.variants) if x.t == "union" else \
               [fk for _, fk in x.fields] if x.t == "record" else []
    for _ in range(ngraphs // 6):
        base = G.SchemaGen(rng, max_nodes=rng.choice([1, 3, 6]), max_depth=3).build() if rng.random() < 0.6 else \
               G.GraphGen(rng, n=rng.choice([1, 2, 4])).build()
        extra = rng.randint(1, 3)
        total = len(base) + extra
        g = list(base)
        for i in range(extra):
            key = lambda: rng.choice([total, total, total - 1, total + 1, len(g), 0])
            h = rng.choice(["array", "map", "union", "union2", "record"])
            if h == "array":
                g.append(G.Node("array", items=key()))
            elif h == "map":
                g.append(G.Node("map", values=key()))
            elif h == "union":
                g.append(G.Node("union", variants=[key()]))
            elif h == "union2":
                g.append(G.Node("union", variants=[0, key()]))
            else:
                g.append(G.Node("record", name="x.Unreached%d" % i, fields=[("a", 0), ("b", key())]))
        graphs.append(g)
    glines = ["freeze " + G.schema_sx(g) for g in graphs] + ["fp " + G.schema_sx(g) for g in graphs] + \
             ["tojson " + G.schema_sx(g) for g in graphs]        # tojson: the JSON writer alone (freeze reaches it only after the fingerprint pass)
    gof = {l: g for l, g in zip(glines, graphs)}
    gi = C.run_parallel(C.AVRODRIVE, glines, timeout=240)
    gm = C.run_parallel(C.AVROMODEL, glines, timeout=240)
    use_lines = []
    for line, ri, rm in zip(glines, gi, gm):
        distinct.add(line)
        k = ri.split(" ")[0].strip("()")
        dist["graph/" + k] += 1
        if k not in ("ok", "err"):
            violations.append({"impl_case": line, "what": "freeze/fingerprint of a node vector did not return Ok or Err: %s" % ri[:120]})
            continue
        if not C.same_outcome(ri, rm):
            diffs.append({"impl_case": line, "model_case": line, "impl": ri[:400], "model": rm[:400]})
        if k == "ok" and line.startswith("freeze "):
            g = gof[line]
            if any(key >= len(g) for x in g for key in keys_of(x)):
                # C19_freeze_keys: freeze succeeds only if every key of every node (reachable from the root or not) is in range --
                # the hypothesis under which using the frozen schema is safe; Ok here means a node reference past the node storage
                violations.append({"impl_case": line, "what": "freeze returned Ok for a node vector holding a key that is out of range "
                                   "(the frozen schema holds a reference outside its node storage)", "model": rm[:100]})
                continue
            sch = line[len("freeze "):]
            # whenever freezing succeeds the schema can be used safely: hostile bytes and arbitrary presentations
            for _ in range(2):
                b = bytes(rng.choice([0, 1, 2, 3, 0x80, 0xFF, 0x7F, rng.randrange(256)]) for _ in range(rng.randint(0, 24)))
                use_lines.append("de %s %s %s %s (cfg %d %d 4096)" % (sch, rng.choice(["any", "ignored"]), C.hx(b),
                                                                      rng.choice(["slice", "(chunks 3)"]), rng.choice([4, 1000]), rng.choice([0, 3, 64])))
            use_lines.append("ser %s %s" % (sch, rng.choice(["unit", "(i32 0)", "(str x61)", "(seq none)", "(map none)", "(struct %s 0)" % C.hx("N0"),
                                                             "(some (seq 1 unit))", "(bytes x00)", "(bool 1)", "(f64 0 0)"])))
    ui = C.run_parallel(C.AVRODRIVE, use_lines, timeout=240)
    um = C.run_parallel(C.AVROMODEL, use_lines, timeout=240)
    for line, ri, rm in zip(use_lines, ui, um):
        k = ri.split(" ")[0].strip("()")
        dist["use/" + k] += 1
        if k not in ("ok", "err"):
            violations.append({"impl_case": line, "what": "using a frozen built schema did not return Ok or Err: %s" % ri[:120]})
        elif not C.same_outcome(ri, rm):
            diffs.append({"impl_case": line, "model_case": line, "impl": ri[:400], "model": rm[:400]})
    # ---- texts
    texts = []
    for _ in range(ntexts):
        r = rng.random()
        if r < 0.35:
            texts.append(D.to_text(random_json(rng), rng))
        elif r < 0.75:
            # near-miss: a valid document damaged at the text level
            nodes = G.SchemaGen(rng, max_nodes=rng.choice([2, 6, 12]), max_depth=3,
                                namespaces=rng.choice([("", "a"), ("", "a"), ("org.\u00e9t\u00e9", "\u540d.\u524d", "a"), ("\u00e9", "x.\u00e9\u00e9.y\u00e9")])).build()
            try:
                t = D.to_text(D.DocGen(rng, nodes).gen(0, None), rng)
            except D.Unspellable:
                continue
            for _ in range(rng.choice([0, 0, 1, 2])):
                i = rng.randrange(len(t) + 1)
                c = rng.random()
                if c < 0.4 and t:
                    t = t[:i] + t[i + 1:]
                elif c < 0.7:
                    t = t[:i] + rng.choice(['"', "{", "}", "[", "]", ",", ":", "\\", "0", "-", "e", " ", "\u0000", "é", "null"]) + t[i:]
                else:
                    t = t[:i]
            texts.append(t)
        elif r < 0.85:
            d = rng.choice([1, 50, 126, 127, 128, 129, 200, 5000])
            inner = rng.choice(['"int"', '{"type":"int"}', ""])
            shape = rng.choice(["arr", "items", "fields"])
            if shape == "arr":
                texts.append("[" * d + inner + "]" * d)
            elif shape == "items":
                texts.append('{"type":"array","items":' * d + (inner or '"int"') + "}" * d)
            else:
                texts.append("".join('{"type":"record","name":"R%d","fields":[{"name":"f","type":' % i for i in range(d)) + (inner or '"int"') + "}]}" * d)
        else:
            texts.append(diamond(rng.choice([3, 10, 24, 40, 60])))
    # records containing themselves: unconditionally (must be an error -- not a hang or a stack overflow -- wherever the cycle sits:
    # through the outermost record, strictly below it, below an envelope, one record or several) or only through unions / arrays / maps
    import p_C07
    for _ in range(ntexts // 3):
        r = rng.random()
        if r < 0.4:
            doc, _unc = D.cycle_doc(rng)
        elif r < 0.7:
            # the same with the definitions in any arrangement (nested, siblings defined before or after their uses)
            nodes, _unc = D.cycle_graph(rng)
            doc = D.DocGen(rng, nodes, forward=rng.choice([0.0, 0.5, 0.9]), sibling_defs=rng.random() < 0.4).gen(0, None)
        else:
            nodes = G.SchemaGen(rng, max_nodes=rng.choice([2, 6]), max_depth=3, namespaces=("", "a")).build()
            inv = None
            while inv is None or "cycle" not in inv[0]:
                inv = p_C07.invalidate(rng, D.DocGen(rng, nodes).gen(0, None))
            doc = inv[1]
        texts.append(D.to_text(doc, rng))
    tlines = ["parse " + C.hx(t) for t in texts]
    ti = C.run_parallel(C.AVRODRIVE, tlines, timeout=240)
    mlines, midx = [], []
    for i, t in enumerate(texts):
        ast = text_to_ast(t) if len(t) < 20000 else None
        if ast is not None:
            mlines.append("parse " + D.to_sx(ast))
            midx.append(i)
    tm = C.run_parallel(C.AVROMODEL, mlines, timeout=240)
    for line, ri, t in zip(tlines, ti, texts):
        distinct.add(line)
        k = ri.split(" ")[0].strip("()")
        dist["text/" + k] += 1
        if k not in ("ok", "err", "freeze-err"):
            violations.append({"impl_case": line[:3000], "what": "parsing a text did not return Ok or Err: %s" % ri[:120], "text": t[:200]})
        if len(samples) < 6 and k == "err":
            samples.append({"text": t[:160], "outcome": k})
    for i, rm in zip(midx, tm):
        ri = ti[i]
        ki, km = ri.split(" ")[0].strip("()"), rm.split(" ")[0].strip("()")
        if km == "unmodelled" or ki not in ("ok", "err", "freeze-err"):
            continue
        if (ki == "ok") != (km == "ok"):
            diffs.append({"impl_case": tlines[i][:3000], "model_case": mlines[midx.index(i)][:3000], "impl": ri[:300], "model": rm[:300]})
        elif ki == "ok":
            pi, pm = C.parse_sx(ri)[0], C.parse_sx(rm)[0]
            if C.show_sx(pi[1]) != C.show_sx(pm[1]) or pi[2] != pm[2] or pi[3] != pm[3]:
                diffs.append({"impl_case": tlines[i][:3000], "model_case": mlines[midx.index(i)][:3000], "impl": ri[:300], "model": rm[:300]})
    return {"evaluations": len(glines) + len(use_lines) + len(tlines), "distinct_nontrivial": len(distinct),
            "rule": "node vectors over the public node types with arbitrary keys (dangling, self-referencing, shared; keys at the boundary len-1 / len / len+1 "
                    "held by nodes the root does not reach: freeze Ok => every key in range, C19_freeze_keys), empty vectors, duplicate "
                    "and degenerate names, logical annotations anywhere: freeze, fingerprint and JSON rendering (serde_json::to_string(&SchemaMut), writer limited to 4 MiB) must return Ok/Err (each run in a process whose "
                    "death or timeout is a result); every frozen schema is then used on hostile bytes (small limits) and arbitrary presentations; "
                    "texts: random JSON of schema-like shape, valid documents damaged at the text level, nesting 1..5000 (127/128/129 around "
                    "serde_json's limit), the nested-shared-record family up to depth 60 (cycle check cost), records containing themselves (unconditionally = error, or only through "
                    "unions / arrays / maps = accepted; cycle through the outermost record or strictly below it, several records, envelopes, namespaces, definitions nested or side by side with backward / forward references); model vs crate wherever the text has an AST",
            "samples": samples, "violations": violations, "model_diffs": diffs, "distribution": dict(dist)}
