"""C19 -- schema construction is total: any text or node graph gives Ok/Err, never a crash."""
import re as _re
import json as pyjson, random
import common as C
import gen as G
import docgen as D

MODEL_TARGETS = ["model/Parse.vo", "model/JsonRead.vo", "proofs/JsonReadSchema.vo", "model/SchemaJson.vo", "model/CanonicalForm.vo", "model/Freeze.vo"]
COQ_TARGETS = ["props/C19.vo"]
THEOREMS = [("C19", ["C19_parse_total", "C19_fp_total", "C19_json_total", "C19_freeze_total", "C19_freeze_keys", "C19_use_safe", "C19_cyclecheck_linear", "C19_json_text_total", "C19_parse_text_total"])]
PROOF_FILES = ["proofs/SchemaTextProofs.v", "proofs/SchemaTotalProofs.v", "proofs/JsonReadProofs.v", "proofs/JsonReadSchema.v", "proofs/JsonReadTotal.v", "props/C19.v", "proofs/SerSafetyProofs.v", "proofs/DeSafetyProofs.v"]
TRUSTED_BASE = [
    "Coq 8.16.1 kernel; no axioms (Print Assumptions: closed)",
    "hand-written models Parse.v (raw.rs + parsing/mod.rs + check_for_cycles.rs), CanonicalForm.v, SchemaJson.v (serialize.rs), Freeze.v/Schema.v (self_referential.rs) tied by the correspondence run",
    "hand-written model/JsonRead.v of serde_json's reader (de.rs / read.rs: grammar, escapes, surrogate pairs, control characters, UTF-8 check of string contents, recursion limit 128, "
    "trailing characters), total by proof (C19_json_text_total, C19_parse_text_total) and tied to serde_json by the run: every text goes to crate and model AS TEXT, through the reader alone "
    "(harness `jsonread` = serde_transcode from serde_json's Deserializer to its compact Serializer + end, as SchemaMut::from_str copies the document; model `jsonread` = json_of_text: accept / reject and "
    "the document read) and through SchemaMut::from_str vs JsonReadSchema.parse_schema_text (outcome, node vector, canonical form, fingerprint, reported JSON); Python's json module is a third "
    "reader whose disagreement with the model is a model difference -- it no longer produces the model's input",
    "two modelling gaps, classified `unmodelled` and counted in the distribution, nothing else is: (1) serde_json rejects a number token whose value overflows f64 (1e999, 400-digit integers), the model "
    "keeps the token (only when the text holds such a token outside strings: jsontext.out_of_range); (2) the crate accepts the `type` attribute written as a one-entry object with a null value "
    "({\"type\":{\"int\":null}}: serde's externally tagged spelling of the derived enum raw::Type), Parse.v only the string (jsontext.type_as_tagged_enum); bytes that are not UTF-8 are not a &str -- "
    "no call of from_str exists for them (harness: not-str) -- the model must reject them, and serde_json's from_slice is compared with the model's reader on them; "
    "texts too long for the extracted reader's stack (a 300 KB string literal) are skipped and counted; docgen.serde_num (Python) re-prints number tokens for the comparison of reported JSON",
    "fuel is the model's stand-in for stack depth and running time: the theorems give an explicit bound (quadratic in the number of nodes) sufficient for ANY node vector; real stack usage per frame is not modelled -- each call on the crate runs in a child process whose death or timeout is a result",
    "extraction (ExtrOcamlBasic) + ocaml/driver.ml; Rust harness",
]
ASSUMPTIONS = [
    "edge values on frozen schemas (leaf_edges / use_schemas / edge_pres): the expected outcome class Ok / Err of every `ser` / `de` line is the extracted model's (model_diffs when it differs); "
    "the property's own statement -- never a panic, crash or timeout -- needs no oracle. Presentations are those a protocol-respecting Serialize impl can make (C19_use_safe's hypothesis): "
    "serialize_value without a preceding serialize_key is excluded (the crate panics there by design: 'serialize_key should have been called before serialize_value'); "
    "the f32 narrowing of an f64 presentation is computed Python-side (struct.pack('<f'), overflow to the infinities) as the model's oracle input",
    "'whenever freezing succeeds the schema can be used safely' is proved (C19_use_safe): on every graph freeze accepts neither the deserializer (any input, target, limits) nor the serializer (any value from a protocol-respecting Serialize impl) can panic, and the dynamic / ignoring consumer terminates within the explicit bound; the run additionally exercises every frozen graph with hostile bytes and arbitrary presentations on the crate",
]

def text_to_ast(text):
    """Python's json with order, duplicates and number tokens preserved (jsontext.py_read); None when Python rejects the text or its
    nesting is past what Python is asked about. A THIRD reading: the model reads the text itself (JsonRead.json_of_text)"""
    import jsontext
    verdict, x = jsontext.py_read(text)
    return x if verdict == "ok" else None

def random_json(rng, depth=0):
    r = rng.random()
    if depth > 4 or r < 0.35:
        return rng.choice([("null",), ("bool", True), ("num", rng.choice(["0", "1", "12", "-1", "1.5", "1e3", "18446744073709551616", "4294967296"])),
                           ("str", rng.choice(["int", "null", "record", "array", "x", "a.b", "", "string", "fixed", "enum", "map", "N0"]))])
    if r < 0.6:
        return ("arr", [random_json(rng, depth + 1) for _ in range(rng.randint(0, 3))])
    keys = ["type", "name", "namespace", "fields", "symbols", "items", "values", "size", "logicalType", "precision", "scale", "doc", "type", "name"]
    return ("obj", [(rng.choice(keys), random_json(rng, depth + 1)) for _ in range(rng.randint(0, 5))])

def diamond(n):
    """R0{a: R1{a: R2{...}, b: "R2"}, b: "R1"}: the shape whose cycle check used to double per level"""
    def rec(i):
        if i == n:
            return '{"type":"record","name":"R%d","fields":[]}' % i
        return '{"type":"record","name":"R%d","fields":[{"name":"a","type":%s},{"name":"b","type":"R%d"}]}' % (i, rec(i + 1), i + 1)
    return rec(0)

# ---------------------------------------------------------------------------------------------
# "whenever freezing succeeds the resulting schema can be used to serialize and deserialize safely": edge values
# ---------------------------------------------------------------------------------------------
import struct as _struct
def _f64(x):
    """(f64 BITS NARROWED): NARROWED = (x as f32).to_bits(), the oracle input of the model for a float position (round to nearest,
    overflow to the infinities; the NaN used here is the canonical quiet one)"""
    try:
        nr = _struct.unpack("<I", _struct.pack("<f", x))[0]
    except OverflowError:
        nr = 0x7F800000 if x > 0 else 0xFF800000
    return "(f64 %d %d)" % (_struct.unpack("<Q", _struct.pack("<d", x))[0], nr)

def leaf_edges():
    """presentations a Serialize impl may hand to ANY leaf position: every serde scalar at its extremes, decimal numbers as strings
    (non-zero, fractional, negative, at and past rust_decimal's range, not numbers at all), floats (fractions, huge, NaN, infinities,
    -0), byte strings of the lengths that matter to fixed / duration / decimal (0, 1, 11, 12, 13, 16, 17, 33), empty and long strings,
    sequences, tuples, maps, structs, variants with indices / names that do not exist"""
    hx = C.hx
    e = ["unit", "none", "(bool 1)", "(bool 0)", "(i8 -128)", "(i8 1)", "(u8 255)", "(i16 -32768)", "(u16 65535)", "(i32 0)", "(i32 1)", "(i32 -1)",
         "(i32 2147483647)", "(i32 -2147483648)", "(u32 4294967295)", "(i64 1)", "(i64 -1)", "(i64 9223372036854775807)", "(i64 -9223372036854775808)",
         "(u64 0)", "(u64 1)", "(u64 18446744073709551615)", "(i128 1)", "(i128 -170141183460469231731687303715884105728)",
         "(i128 170141183460469231731687303715884105727)", "(u128 340282366920938463463374607431768211455)", "(u128 1)",
         "(f32 0)", "(f32 1069547520)", "(f32 2143289344)", "(f32 2139095040)",
         _f64(0.0), _f64(-0.0), _f64(1.0), _f64(1.5), _f64(-1.5), _f64(0.1), _f64(1e300), _f64(-1e300), _f64(5e-324), _f64(1e28), _f64(7.9e28), _f64(8e28),
         _f64(float("inf")), _f64(float("-inf")), _f64(float("nan")), _f64(123456789.125), _f64(255.0), _f64(-128.0), _f64(128.0),
         "(char 48)", "(char 49)", "(char 233)", "(char 128512)"]
    for t in ["", "0", "1", "-1", "0.5", "-0.5", "0.0", "-0", "00", "1.50", "127", "128", "-128", "-129", "255", "256", "32768", "1e3", "1E-3", " 1", "1 ", "+1", ".5", "5.",
              "0.0000000000000000000000000001", "79228162514264337593543950335", "-79228162514264337593543950335", "79228162514264337593543950336",
              "7.9228162514264337593543950335", "123456789012345678901234567890123456789", "0.00000000000000000000000000000000001", "NaN", "inf", "abc", "S0", "A", "N0", "Null",
              "00000000-0000-0000-0000-000000000000", "é", "x" * 5000, "1" * 40, "0." + "3" * 40]:
        e.append("(str %s)" % hx(t))
    for n in [0, 1, 2, 3, 4, 8, 11, 12, 13, 15, 16, 17, 33]:
        e.append("(bytes %s)" % hx(b"\x00" * n))
        if n:
            e.append("(bytes %s)" % hx(b"\xff" * n))
            e.append("(bytes %s)" % hx(bytes([0x7f]) + b"\xff" * (n - 1)))
            e.append("(bytes %s)" % hx(bytes([0x80]) + b"\x00" * (n - 1)))
    e += ["(bytes %s)" % hx(b"\xff\xfe"), "(seq none)", "(seq 0)", "(seq 1)", "(seq 1 (u8 1))", "(seq none (u8 1) (u16 300))", "(seq 12" + " (u8 1)" * 12 + ")",
          "(seq none unit unit)", "(tuple)", "(tuple (u32 1) (u32 2) (u32 3))", "(tuple (u32 1) (u32 2))", "(tuple (u64 1) (u64 2) (u64 4294967296))",
          "(tuple (i32 -1) (i32 2) (i32 3))", "(tuple_struct %s (u32 1) (u32 2) (u32 3))" % hx("D"), "(map none)", "(map 1)", "(map 0 (entry (str %s) (i32 1)))" % hx("k"),
          "(map none (key (str %s)))" % hx("k"), "(map none (entry (i32 1) (i32 1)))",       # (a value without its key is a protocol violation of the Serialize impl: excluded, C19_use_safe assumes the serde protocol)
          "(struct %s 0)" % hx("N0"), "(struct %s 3 (%s (u32 1)) (%s (u32 2)) (%s (u32 3)))" % (hx("Duration"), hx("months"), hx("days"), hx("milliseconds")),
          "(struct %s 3 (%s (u64 4294967296)) (%s (u32 2)) (%s (u32 3)))" % (hx("Duration"), hx("months"), hx("days"), hx("milliseconds")),
          "(struct %s 2 (%s (u32 1)) (%s (u32 1)))" % (hx("Duration"), hx("months"), hx("months")),
          "(struct %s 1 (%s unit))" % (hx("X"), hx("f0")),
          "(unit_struct %s)" % hx("S0"), "(unit_variant %s 0 %s)" % (hx("E"), hx("S0")), "(unit_variant %s 4294967295 %s)" % (hx("E"), hx("NOPE")),
          "(unit_variant %s 0 %s)" % (hx("E"), hx("")), "(newtype_struct %s (str %s))" % (hx("W"), hx("1")), "(newtype_variant %s 9 %s (i32 1))" % (hx("U"), hx("Long")),
          "(newtype_variant %s 0 %s (str %s))" % (hx("U"), hx("Decimal"), hx("1")), "(some (str %s))" % hx("1"), "(some none)", "(some (some (i32 1)))",
          "(tuple_variant %s 0 %s (i32 1))" % (hx("U"), hx("Array")), "(struct_variant %s 0 %s 0)" % (hx("U"), hx("N0")), "fail"]
    return e

def use_schemas(rng):
    """schemas freeze accepts whose leaves are the degenerate / boundary ones: every leaf kind (gen.leaf_kind_schemas) plus decimal on
    fixed of size 0, 1, 17, 32, decimal with scale above the precision and above 28, duration on fixed(12) -- and `duration` written on a
    fixed of another size or on bytes (not a duration then) --, enum without symbols, fixed of size 0, logical types on base types they
    do not apply to; alone and below a record field / an optional / an array / a map -> [(label, nodes)]"""
    N = G.Node
    leaves = list(G.leaf_kind_schemas())
    for sz in (0, 1, 17, 32):
        for sc, pr in ((0, 1), (2, 5), (30, 3)):
            leaves.append(("decimal-fixed-%d-scale-%d" % (sz, sc), [N("fixed", name="DF", size=sz, lt=("decimal", sc, pr))]))
    leaves.append(("decimal-bytes-scale-40", [N("bytes", lt=("decimal", 40, 3))]))
    leaves.append(("decimal-bytes-precision-0", [N("bytes", lt=("decimal", 0, 0))]))
    for sz in (0, 11, 13):
        leaves.append(("duration-on-fixed-%d" % sz, [N("fixed", name="Du", size=sz, lt="duration")]))
    leaves.append(("duration-on-bytes", [N("bytes", lt="duration")]))
    leaves.append(("enum-0", [N("enum", name="E0", symbols=[])]))
    leaves.append(("uuid-on-bytes", [N("bytes", lt="uuid")]))
    leaves.append(("decimal-on-string", [N("string", lt=("decimal", 2, 5))]))
    leaves.append(("date-on-long", [N("long", lt="date")]))
    leaves.append(("big-decimal-on-string", [N("string", lt="big-decimal")]))
    leaves.append(("decimal-on-int", [N("int", lt=("decimal", 0, 5))]))
    out = []
    for label, ns in leaves:
        leaf = ns[0]
        out.append((label, [leaf]))
        out.append((label + "/field", [N("record", name="ns.Holder", fields=[("f0", 1)]), leaf]))
        out.append((label + "/optional", [N("union", variants=[1, 2]), N("null"), leaf]))
        out.append((label + "/array", [N("array", items=1), leaf]))
        out.append((label + "/map", [N("map", values=1), leaf]))
    return out

def wrap_for(label, p):
    """the presentation that carries leaf presentation p to the leaf of a use_schemas schema"""
    if label.endswith("/field"):
        return "(struct %s 1 (%s %s))" % (C.hx("Holder"), C.hx("f0"), p)
    if label.endswith("/optional"):
        return p
    if label.endswith("/array"):
        return "(seq 1 %s)" % p
    if label.endswith("/map"):
        return "(map 1 (entry (str %s) %s))" % (C.hx("k"), p)
    return p

def edge_pres(rng, nodes, k, edges, depth=0):
    """a presentation aimed at node k of an ARBITRARY frozen node vector (cycles, unions in unions ...): the shape the node's kind
    expects (so that nested nodes are reached), with an edge presentation at any position with some probability and always at the leaves"""
    if k >= len(nodes) or depth > 5 or rng.random() < 0.15:
        return rng.choice(edges)
    n = nodes[k]
    kind = n.kind()
    hx = C.hx
    if kind == "record":
        fs = [(f, edge_pres(rng, nodes, fk, edges, depth + 1)) for f, fk in n.fields]
        r = rng.random()
        if r < 0.1 and fs:
            fs.append(fs[0])
        elif r < 0.2 and fs:
            fs.pop()
        elif r < 0.3:
            rng.shuffle(fs)
        if rng.random() < 0.2:
            return "(map %s%s)" % (rng.choice(["none", str(len(fs))]), "".join(" (entry (str %s) %s)" % (hx(f), v) for f, v in fs))
        return "(struct %s %d%s)" % (hx(n.name.split(".")[-1] or "R"), len(fs), "".join(" (%s %s)" % (hx(f), v) for f, v in fs))
    if kind == "array":
        vs = [edge_pres(rng, nodes, n.items, edges, depth + 1) for _ in range(rng.choice([0, 1, 1, 2]))]
        return "(seq %s%s)" % (rng.choice(["none", str(len(vs)), str(len(vs) + 1)]), "".join(" " + v for v in vs))
    if kind == "map":
        vs = [edge_pres(rng, nodes, n.values, edges, depth + 1) for _ in range(rng.choice([0, 1, 1, 2]))]
        return "(map %s%s)" % (rng.choice(["none", str(len(vs))]), "".join(" (entry (str %s) %s)" % (hx("k%d" % i), v) for i, v in enumerate(vs)))
    if kind == "union":
        if not n.variants:
            return rng.choice(edges)
        i = rng.randrange(len(n.variants))
        p = edge_pres(rng, nodes, n.variants[i], edges, depth + 1)
        r = rng.random()
        if r < 0.5:
            return p
        if r < 0.65:
            return "(some %s)" % p
        import present
        try:
            tn = present.type_name(nodes, n.variants[i]) if n.variants[i] < len(nodes) else "X"
        except Exception:
            tn = "X"
        return "(newtype_variant %s %d %s %s)" % (hx("U"), rng.choice([i, i, 0, len(n.variants)]), hx(tn), p)
    if kind == "enum" and n.symbols and rng.random() < 0.5:
        i = rng.randrange(len(n.symbols))
        return rng.choice(["(str %s)" % hx(n.symbols[i]), "(unit_variant %s %d %s)" % (hx("E"), i, hx(n.symbols[i])), "(u32 %d)" % i,
                           "(u32 %d)" % len(n.symbols), "(i64 -1)", "(u64 18446744073709551615)"])
    return rng.choice(edges)

def run(ctx):
    rng = random.Random(ctx["seed"] * 1000003 + 19)
    quick = ctx["tier"] == "quick"
    ngraphs = 1200 if quick else 60000
    ntexts = 700 if quick else 30000
    violations, diffs, samples, distinct = [], [], [], set()
    from collections import Counter
    dist = Counter()
    # ---- node vectors
    graphs = [G.GraphGen(rng, dangling=rng.choice([0, 0.1, 0.3]), dup_names=rng.choice([0, 0.3]), weird_names=rng.choice([0, 0.3]),
                         n=rng.choice([0, 1, 1, 2, 3, 4, 6, 9])).build() for _ in range(ngraphs)]
    # keys at the boundary held by nodes the root does not reach: the traversals from the root (fingerprint, JSON) never see them,
    # only the node-by-node conversion of freeze does
    def keys_of(x):
        return [x.items] if x.t == "array" else [x.values] if x.t == "map" else list(x.variants) if x.t == "union" else \
               [fk for _, fk in x.fields] if x.t == "record" else []
    for _ in range(ngraphs // 6):
        base = G.SchemaGen(rng, max_nodes=rng.choice([1, 3, 6]), max_depth=3).build() if rng.random() < 0.6 else \
               G.GraphGen(rng, n=rng.choice([1, 2, 4])).build()
        extra = rng.randint(1, 3)
        total = len(base) + extra
        g = list(base)
        for i in range(extra):
            key = lambda: rng.choice([total, total, total - 1, total + 1, len(g), 0])
            h = rng.choice(["array", "map", "union", "union2", "record"])
            if h == "array":
                g.append(G.Node("array", items=key()))
            elif h == "map":
                g.append(G.Node("map", values=key()))
            elif h == "union":
                g.append(G.Node("union", variants=[key()]))
            elif h == "union2":
                g.append(G.Node("union", variants=[0, key()]))
            else:
                g.append(G.Node("record", name="x.Unreached%d" % i, fields=[("a", 0), ("b", key())]))
        graphs.append(g)
    glines = ["freeze " + G.schema_sx(g) for g in graphs] + ["fp " + G.schema_sx(g) for g in graphs] + \
             ["tojson " + G.schema_sx(g) for g in graphs]        # tojson: the JSON writer alone (freeze reaches it only after the fingerprint pass)
    gof = {l: g for l, g in zip(glines, graphs)}
    gi = C.run_parallel(C.AVRODRIVE, glines, timeout=240)
    gm = C.run_parallel(C.AVROMODEL, glines, timeout=240)
    use_lines = []
    for line, ri, rm in zip(glines, gi, gm):
        distinct.add(line)
        k = ri.split(" ")[0].strip("()")
        dist["graph/" + k] += 1
        if k not in ("ok", "err"):
            violations.append({"impl_case": line, "what": "freeze/fingerprint of a node vector did not return Ok or Err: %s" % ri[:120]})
            continue
        if not C.same_outcome(ri, rm):
            diffs.append({"impl_case": line, "model_case": line, "impl": ri[:400], "model": rm[:400]})
        if k == "ok" and line.startswith("freeze "):
            g = gof[line]
            if any(key >= len(g) for x in g for key in keys_of(x)):
                # C19_freeze_keys: freeze succeeds only if every key of every node (reachable from the root or not) is in range --
                # the hypothesis under which using the frozen schema is safe; Ok here means a node reference past the node storage
                violations.append({"impl_case": line, "what": "freeze returned Ok for a node vector holding a key that is out of range "
                                   "(the frozen schema holds a reference outside its node storage)", "model": rm[:100]})
                continue
            sch = line[len("freeze "):]
            # whenever freezing succeeds the schema can be used safely: hostile bytes and arbitrary presentations
            # (not with a fixed of gigabytes: writing / reading that many bytes is what the schema asks for, and only takes time)
            import re as _re
            if any(int(m) > (1 << 20) for m in _re.findall(r"\(fixed x[0-9a-f]* ([0-9]+)\)", sch)):
                dist["use/skipped-huge-fixed"] += 1
                continue
            for _ in range(2):
                b = bytes(rng.choice([0, 1, 2, 3, 0x80, 0xFF, 0x7F, rng.randrange(256)]) for _ in range(rng.randint(0, 24)))
                use_lines.append("de %s %s %s %s (cfg %d %d 4096)" % (sch, rng.choice(["any", "ignored"]), C.hx(b),
                                                                      rng.choice(["slice", "(chunks 3)"]), rng.choice([4, 1000]), rng.choice([0, 3, 64])))
            use_lines.append("ser %s %s" % (sch, rng.choice(["unit", "(i32 0)", "(str x61)", "(seq none)", "(map none)", "(struct %s 0)" % C.hx("N0"),
                                                             "(some (seq 1 unit))", "(bytes x00)", "(bool 1)", "(f64 0 0)"])))
    # edge values through every frozen graph (C19_use_safe: Ok or Err, never a panic; the model's ser / de say which, where modelled)
    edges = leaf_edges()
    rng_main = rng
    rng = random.Random(ctx["seed"] * 1000003 + 1919)       # own stream: the draws of the families below (texts ...) stay what they were
    frozen = [gof[l] for l, ri in zip(glines, gi) if l.startswith("freeze ") and ri.startswith("(ok")
              and not any(key >= len(gof[l]) for x in gof[l] for key in keys_of(x))]
    for g in frozen:
        sch = G.schema_sx(g)
        if any(int(m) > (1 << 20) for m in _re.findall(r"\(fixed x[0-9a-f]* ([0-9]+)\)", sch)):
            dist["use/skipped-huge-fixed"] += 1     # a fixed of gigabytes: writing it is what the schema asks for, it only takes time
            continue
        for _ in range(3):
            use_lines.append("ser %s %s" % (sch, edge_pres(rng, g, 0, edges)))
    uschemas = use_schemas(rng)
    for label, g in uschemas:
        sch = G.schema_sx(g)
        pick = edges if (quick and "/" not in label) or not quick else rng.sample(edges, 25)
        for p in pick:
            use_lines.append("ser %s %s" % (sch, wrap_for(label, p)))
        for _ in range(4):
            b = bytes(rng.choice([0, 1, 2, 3, 0x18, 0x20, 0x22, 0x80, 0xFF, 0x7F, rng.randrange(256)]) for _ in range(rng.choice([0, 1, 2, 12, 13, 17, 24, 40])))
            use_lines.append("de %s %s %s %s (cfg %d %d 4096)" % (sch, rng.choice(["any", "ignored", "string", "bytes", "f64", "u64", "i128", "(seq any)", "(option any)"]),
                                                                  C.hx(b), rng.choice(["slice", "(chunks 3)"]), rng.choice([4, 1000]), rng.choice([0, 3, 64])))
    rng = rng_main
    ui = C.run_parallel(C.AVRODRIVE, use_lines, timeout=240)
    um = C.run_parallel(C.AVROMODEL, use_lines, timeout=240)
    for line, ri, rm in zip(use_lines, ui, um):
        k = ri.split(" ")[0].strip("()")
        dist["use/" + k] += 1
        if k == "budget":
            continue      # recording visitor of the harness gave up (> 2M recorded elements): skipped, counted in the distribution
        if k not in ("ok", "err"):
            violations.append({"impl_case": line, "what": "using a frozen built schema did not return Ok or Err: %s" % ri[:120]})
        elif not C.same_outcome(ri, rm):
            diffs.append({"impl_case": line, "model_case": line, "impl": ri[:400], "model": rm[:400]})
    # ---- texts
    texts = []
    for _ in range(ntexts):
        r = rng.random()
        if r < 0.35:
            texts.append(D.to_text(random_json(rng), rng))
        elif r < 0.75:
            # near-miss: a valid document damaged at the text level
            nodes = G.SchemaGen(rng, max_nodes=rng.choice([2, 6, 12]), max_depth=3,
                                namespaces=rng.choice([("", "a"), ("", "a"), ("org.\u00e9t\u00e9", "\u540d.\u524d", "a"), ("\u00e9", "x.\u00e9\u00e9.y\u00e9")])).build()
            try:
                t = D.to_text(D.DocGen(rng, nodes).gen(0, None), rng)
            except D.Unspellable:
                continue
            for _ in range(rng.choice([0, 0, 1, 2])):
                i = rng.randrange(len(t) + 1)
                c = rng.random()
                if c < 0.4 and t:
                    t = t[:i] + t[i + 1:]
                elif c < 0.7:
                    t = t[:i] + rng.choice(['"', "{", "}", "[", "]", ",", ":", "\\", "0", "-", "e", " ", "\u0000", "é", "null"]) + t[i:]
                else:
                    t = t[:i]
            texts.append(t)
        elif r < 0.85:
            d = rng.choice([1, 50, 126, 127, 128, 129, 200, 5000])
            inner = rng.choice(['"int"', '{"type":"int"}', ""])
            shape = rng.choice(["arr", "items", "fields"])
            if shape == "arr":
                texts.append("[" * d + inner + "]" * d)
            elif shape == "items":
                texts.append('{"type":"array","items":' * d + (inner or '"int"') + "}" * d)
            else:
                texts.append("".join('{"type":"record","name":"R%d","fields":[{"name":"f","type":' % i for i in range(d)) + (inner or '"int"') + "}]}" * d)
        else:
            texts.append(diamond(rng.choice([3, 10, 24, 40, 60])))
    # records containing themselves: unconditionally (must be an error -- not a hang or a stack overflow -- wherever the cycle sits:
    # through the outermost record, strictly below it, below an envelope, one record or several) or only through unions / arrays / maps
    import p_C07
    for _ in range(ntexts // 3):
        r = rng.random()
        if r < 0.4:
            doc, _unc = D.cycle_doc(rng)
        elif r < 0.7:
            # the same with the definitions in any arrangement (nested, siblings defined before or after their uses)
            nodes, _unc = D.cycle_graph(rng)
            doc = D.DocGen(rng, nodes, forward=rng.choice([0.0, 0.5, 0.9]), sibling_defs=rng.random() < 0.4).gen(0, None)
        else:
            nodes = G.SchemaGen(rng, max_nodes=rng.choice([2, 6]), max_depth=3, namespaces=("", "a")).build()
            inv = None
            while inv is None or "cycle" not in inv[0]:
                inv = p_C07.invalidate(rng, D.DocGen(rng, nodes).gen(0, None))
            doc = inv[1]
        texts.append(D.to_text(doc, rng))
    # ---- the reader's own family (jsontext.reader_cases): escapes, surrogates, control characters, ill-formed UTF-8, number shapes,
    # whitespace and non-whitespace, commas / garbage / truncation, nesting around the limit, duplicate and empty keys, NUL
    import jsontext as JT
    labelled = [("schema-texts", t.encode("utf-8")) for t in texts] + JT.reader_cases(rng, quick)
    labels = [l for l, _ in labelled]
    texts = [t for _, t in labelled]
    tlines = ["parse " + C.hx(t) for t in texts]
    mlines = ["parse (text %s)" % C.hx(t) for t in texts]          # the SAME text, read by the model's own reader
    jlines = ["jsonread " + C.hx(t) for t in texts]
    ti = C.run_parallel(C.AVRODRIVE, tlines, timeout=240)
    tm = C.run_parallel(C.AVROMODEL, mlines, timeout=240)
    ji = C.run_parallel(C.AVRODRIVE, jlines, timeout=240)            # serde_json alone (transcode to the compact printer + end)
    jm = C.run_parallel(C.AVROMODEL, jlines, timeout=240)            # JsonRead.json_of_text alone
    def kind(r):
        return r.split(" ")[0].strip("()")
    for i, (lab, t, line, mline, ri, rm, rji, rjm) in enumerate(zip(labels, texts, tlines, mlines, ti, tm, ji, jm)):
        distinct.add(line)
        fam = lab.split("/")[0]
        k, km, kj, kjm = kind(ri), kind(rm), kind(rji), kind(rjm)
        dist["text/" + k] += 1
        dist["reader/%s/%s" % (fam, k)] += 1
        shown = t[:200].decode("utf-8", "replace")
        if k not in ("ok", "err", "freeze-err", "not-str"):
            violations.append({"impl_case": line[:3000], "what": "parsing a text did not return Ok or Err: %s" % ri[:120], "text": shown})
            continue
        if kj not in ("ok", "err"):
            violations.append({"impl_case": jlines[i][:3000], "what": "reading a text as JSON (serde_json, as SchemaMut::from_str copies the document) did not return Ok or Err: %s" % rji[:120], "text": shown})
            continue
        if len(samples) < 6 and k == "err" and fam == "schema-texts":
            samples.append({"text": shown[:160], "outcome": k})
        if "stack-overflow" in (km, kjm):
            dist["reader/model-skipped (text too long for the extracted reader's stack)"] += 1
            continue
        oor = None
        # (a) the reader alone: accept / reject, and the document read (compact print, number tokens in serde_json's spelling)
        if kjm not in ("ok", "err"):
            diffs.append({"impl_case": jlines[i][:3000], "model_case": jlines[i][:3000], "impl": rji[:300], "model": rjm[:300], "what": "the model's reader did not answer Ok or Err"})
        elif (kj == "ok") != (kjm == "ok"):
            oor = JT.out_of_range(t)
            if kj == "err" and oor:
                dist["reader/unmodelled (a number token out of f64 range: serde_json rejects, the model keeps the token)"] += 1
            else:
                diffs.append({"impl_case": jlines[i][:3000], "model_case": jlines[i][:3000], "impl": rji[:300], "model": rjm[:300],
                              "what": "JSON reader: serde_json and JsonRead.json_of_text disagree on accepting this text"})
        elif kj == "ok":
            got = C.parse_sx(rji)[0][1]
            want = JT.norm_hex(C.parse_sx(rjm)[0][2])
            if got != want:
                diffs.append({"impl_case": jlines[i][:3000], "model_case": jlines[i][:3000], "impl": rji[:300], "model": rjm[:300],
                              "what": "JSON reader: the document serde_json read (compact print) is not the document JsonRead.json_of_text read"})
        # (b) the whole of SchemaMut::from_str: the crate on the text vs parse_schema_text on the same text
        if km not in ("ok", "err"):
            diffs.append({"impl_case": line[:3000], "model_case": mline[:3000], "impl": ri[:300], "model": rm[:300], "what": "the model did not answer Ok or Err"})
        elif k == "not-str":
            # not UTF-8: no &str holds these bytes; the model must not accept them either
            if km == "ok":
                diffs.append({"impl_case": line[:3000], "model_case": mline[:3000], "impl": ri[:300], "model": rm[:300], "what": "the model accepts a text that is not UTF-8"})
        elif (k == "ok") != (km == "ok"):
            if oor is None:
                oor = JT.out_of_range(t)
            if km == "ok" and oor:
                dist["text/unmodelled (a number token out of f64 range)"] += 1
            elif k == "ok" and kjm == "ok" and JT.type_as_tagged_enum(C.parse_sx(rjm)[0][1]):
                # {"type":{"int":null}}: serde's externally tagged spelling of the derived enum raw::Type, accepted by the crate
                # (a one-entry object whose value is null); Parse.v only has the string spelling
                dist["text/unmodelled (type attribute written as a one-entry object {\"int\":null})"] += 1
            else:
                diffs.append({"impl_case": line[:3000], "model_case": mline[:3000], "impl": ri[:300], "model": rm[:300]})
        elif k == "ok":
            pi, pm = C.parse_sx(ri)[0], C.parse_sx(rm)[0]
            if C.show_sx(pi[1]) != C.show_sx(pm[1]) or pi[2] != pm[2] or pi[3] != pm[3] or pi[4] != JT.norm_hex(pm[4]):
                diffs.append({"impl_case": line[:3000], "model_case": mline[:3000], "impl": ri[:300], "model": rm[:300]})
    # (c) Python's json module as a third reader of every text (accept / reject and the AST), against the model's reader
    pdiffs, pstats = JT.py_cross_check(texts, jm, "C19 texts")
    diffs.extend(pdiffs)
    for k2, v2 in pstats.items():
        dist["reader/cross-check/" + k2] += v2
    return {"evaluations": len(glines) + len(use_lines) + 2 * len(tlines), "distinct_nontrivial": len(distinct),
            "rule": "node vectors over the public node types with arbitrary keys (dangling, self-referencing, shared; keys at the boundary len-1 / len / len+1 "
                    "held by nodes the root does not reach: freeze Ok => every key in range, C19_freeze_keys), empty vectors, duplicate "
                    "and degenerate names, logical annotations anywhere: freeze, fingerprint and JSON rendering (serde_json::to_string(&SchemaMut), writer limited to 4 MiB) must return Ok/Err (each run in a process whose "
                    "death or timeout is a result); every frozen schema is then used on hostile bytes (small limits) and arbitrary presentations, "
                    "and with presentations shaped after the graph whose leaves are edge values (leaf_edges: every serde scalar at its extremes, non-zero / fractional / out-of-range decimals as strings and f64, "
                    "byte strings of the boundary lengths, out-of-range enum indices, wrong shapes); every leaf kind incl. the degenerate ones (use_schemas: decimal on fixed of size 0 / 1 / 17 / 32, scale above precision, duration on fixed 12 and on other sizes, enum without symbols), "
                    "alone and below a field / optional / array / map, gets EVERY edge presentation and hostile bytes under several targets: Ok or Err, never a panic; outcome = the model's ser / de; "
                    "texts: random JSON of schema-like shape, valid documents damaged at the text level, nesting 1..5000 (127/128/129 around "
                    "serde_json's limit), the nested-shared-record family up to depth 60 (cycle check cost), records containing themselves (unconditionally = error, or only through "
                    "unions / arrays / maps = accepted; cycle through the outermost record or strictly below it, several records, envelopes, namespaces, definitions nested or side by side with backward / forward references); "
                    "the JSON reader's own family (jsontext.reader_cases), each value as the whole document and as a doc / default / custom attribute value (strings also as type, name, namespace, symbol, "
                    "field name, logical type, key, union branch; numbers also as size / precision / scale): every escape kind, \\u escapes in both hex cases, surrogate pairs, lone / reversed / "
                    "interrupted surrogates, malformed escapes, type names spelled with escapes, every raw control character, ill-formed UTF-8 (overlong, truncated, surrogates encoded directly, "
                    "above U+10FFFF, stray continuation bytes; in strings, keys and between tokens) and boundary code points, number shapes (leading zeros, +1, .5, 1., 1e, -, 1e999, huge exponents, "
                    "400-digit tokens, f64 boundaries), JSON whitespace and look-alikes (\\f \\v NBSP BOM NUL U+2028 ...) at every token boundary, trailing commas / garbage / comments / wrong "
                    "quotes, duplicate keys (also equal only after unescaping), empty keys, wrong kinds and null for every attribute, nesting 119..132 and 1000..30000 of arrays / objects / mixed / "
                    "wide and of array / map / union / record schemas, every prefix and every one-byte deletion of four documents, byte-level damage of generated documents, token soups; "
                    "every text to crate and model AS TEXT: reader alone (serde_json transcode vs JsonRead.json_of_text: accept/reject + document) and SchemaMut::from_str vs parse_schema_text "
                    "(outcome, node vector, canonical form, fingerprint, JSON); Python's json as third reader",
            "samples": samples, "violations": violations, "model_diffs": diffs, "distribution": dict(dist)}
