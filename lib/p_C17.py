"""C17 -- container reader on damaged files: genuine prefix only, corruption detected."""
import random
import common as C
import gen as G
import cont
import decodeloop
import containercodec

MODEL_TARGETS = ["model/Container.vo", "model/DecodeLoop.vo", "model/ContainerCodec.vo", "model/ContainerReplay.vo"]
COQ_TARGETS = ["props/C17.vo", "proofs/ConstsTie.vo"]
THEOREMS = [("C17", ["C17_truncation_general", "C17_truncation_prefix", "C17_sync", "C17_data_left_in_block", "C17_count_too_small",
                     "C17_size_beyond_input", "C17_short_block", "C17_once", "C17_eof_sticky",
                     "C17_compressed_count_lowered", "C17_compressed_trailing_garbage", "C17_compressed_cut_stream", "C17_compressed_output_genuine", "C17_compressed_values_genuine",
                     "C17_snappy_count_lowered", "C17_snappy_bad_crc", "C17_snappy_short_block", "C17_decoder_model_damage",
                     "C17_de_prefix_determinism", "C17_compressed_values_genuine_de", "C17_header_truncation", "C17_header_truncation_chunked",
                     "C17_chunked_truncation_prefix", "C17_corruption_no_panic", "C17_reader_give_up_only", "C17_reader_give_up_any",
                     "C17_compressed_file_truncated", "C17_compressed_file_count_changed", "C17_compressed_file_payload_replaced", "C17_snappy_file_truncated",
                     "C17_compressed_reader_total", "C17_empty_datum_rejected", "C17_snappy_file_count_changed", "C17_snappy_file_payload_replaced"])]
PROOF_FILES = ["proofs/ContainerReadProofs.v", "proofs/ContainerProofs.v", "proofs/ContainerHeaderProofs.v", "proofs/ContainerChunkProofs.v", "proofs/DePrefixProofs.v",
               "proofs/ContainerDamageProofs.v", "proofs/DecodeLoopProofs.v", "proofs/DecodeLoopDe.v", "proofs/DecodeLoopDePrefix.v", "proofs/ContainerCodecProofs.v", "proofs/ContainerCodecDamage.v", "proofs/ContainerCodecDamageSnappy.v", "props/C17.v"]
TRUSTED_BASE = [
    "Coq 8.16.1 kernel; no axioms (Print Assumptions: closed)",
    "hand-written model/Container.v of reader/mod.rs + de/read/take.rs (NotInBlock / InBlock / Broken, per-block limit, sync check, error once then end of stream), null codec; tied by the correspondence run (item sequences of successive deserialize_next calls on damaged files, slice and chunked readers)",
    "hand-written model/ContainerCodec.v (ccr_file: the reader of WHOLE files with compressed blocks -- cr_open, then per block count / size varints, negative checks, block_open / block_run of DecodeLoop.v or snappy_run, end-of-block check, sync marker, the chunk plan threaded through the blocks), tied to the crate by running the extracted function on every compressed file the run reads through `crt` (lib/containercodec.py, OCaml command `ccr`): same bytes, same kind of source (slice / the same chunk plan), the value decoder cc_vdec for the schema text of the header (the text itself, read by the model: JsonRead.json_of_text -> Parse.parse_schema), the codec named in the header, and a REPLAY streaming decoder (model/ContainerReplay.v) that answers from the reads hook H4 recorded for each block (bytes produced or Err, compressed bytes consumed = difference of the Take limits; a block finds its reads by the bytes its Take holds and the chunk-plan state at its first byte); compared: schema text, user metadata, the values before the first error (borrows erased), the way the run ends (end of stream; class of the first error: negative count/size, block cannot be opened, decoder Err / decompressed data left / Take not exhausted in the end check, sync mismatch, other = value error | unreadable count/size | short marker), under both extreme read policies (every refill a fill_buf; every refill of >= capacity outstanding bytes a bypassing read). TRUSTED in this tie: hook H4 records lengths only -- the BYTES of each read are the block's data decoded by the compression library on its own (harness `decode`, cross-checked against Python's zlib / bz2 / lzma on complete streams) sliced by the produced counts; snap::raw and CRC32 enter as tables (harness `decode snappy`, zlib.crc32); the runner's own walk of the file layout (block offsets for the replay keys). NOT tied by it: the request sizes on the model's real path (policy parameter; the end check's request is tied by `decend`), message texts, the per-call pretend_eof logic after the first error, runs too long for the list-based model (skipped and counted in coverage.notes), null-codec files (Container.cr_run). One tolerance (coverage.notes ... read_ahead): a decoder Err that reaches the crate's deserializer inside a value whose bytes were all out (read_slice calls fill_buf first, also for 0 bytes) fails that value in the crate; the model delivers it and meets the same Err afterwards",
    "hand-written model/DecodeLoop.v of reader/decompression.rs (BufReader over an abstract streaming decoder over Take, the end-of-block check, the snappy block with its CRC), tied to the crate by hook H4 (hooks/H4.diff): every end-of-block check the crate makes on the damaged files is replayed through the extracted model (same decoder request, same decision); the decoders are ABSTRACT (DecodeLoop.stream_decoder_contract, validated on the reads the crate made; not proved of the libraries); values: De.de on the decompressed bytes (abstraction stated in DecodeLoop.v)",
]
ASSUMPTIONS = [
    "a caller that keeps calling after errors (KEEP_CALLING more calls than values + 4): judged against Container.cr_run on the null codec -- the crate must reach end of stream when the model does (else: endless stream of errors) and must report only end of stream behind a first error on which the model latches (Broken / I/O; C17_once); NOT tied: the reader position behind an error INSIDE a value (how much of a string with invalid UTF-8 or an over-long length was consumed differs between model and crate on some inputs), so the items behind such an error are not compared one by one; compressed files: no whole-sequence model, and no model-free bound either (a block whose damaged count is large legitimately yields one error per announced object)",
    "proved (ContainerCodecDamage.v, model/ContainerCodec.v): WHOLE FILES with compressed blocks written by the writer model (any block codec, any session), read through the slice reader or a BufRead following any chunk plan, for every decoder meeting the contract (on cut streams: stream_codec_cut_ok), capacity >= 1, read policy: cut at ANY offset => inside the header an error, behind it the written metadata and a prefix of the written values then a non-give-up end, everything + end of stream only at/behind the end (C17_compressed_file_truncated; snappy: C17_snappy_file_truncated); the count of one block lowered / raised => the values before, the first c of the block, then an error (C17_compressed_file_count_changed; raised needs a root whose datums are not empty: C17_empty_datum_rejected, refuted for null / empty records); the payload of one block replaced by any bytes agreeing with the stream under the contract => only written values, in order (C17_compressed_file_payload_replaced); the model reader never gives up (C17_compressed_reader_total). Hypotheses shown necessary by computed counterexamples (ToyDamage.*)",
    "proved (DecodeLoopProofs.v) for every decoder meeting stream_decoder_contract, every BufReader capacity >= 1, chunking, read policy: count lowered => the first values then Err 'decompressed data left' (C17_compressed_count_lowered); bytes behind the stream inside the declared size => Err (C17_compressed_trailing_garbage; needs clause (iv), which multi-frame zstandard does not meet when the extra bytes are themselves a frame: observed and reported, the crate then reports the extra data or -- for a frame of no data -- accepts); declared size too small => Err provided the 16 bytes then found in place of the sync marker are not the marker (C17_compressed_cut_stream); in all cases the decoder's output is a prefix of the written data (C17_compressed_output_genuine: byte level; C17_compressed_values_genuine: every VALUE yielded was written, in order, for any value decoder that is prefix-deterministic -- vdec_prefix_det, which is NOT proved of De.de here: for the crate's deserializer the value-level claim is decided on the crate); snappy: count lowered, wrong CRC, size < 4 (C17_snappy_*)",
    "proved (slice reader, null codec): truncation at ANY offset of ANY byte string yields the same items as the longer input until it stops (C17_truncation_general), for written files a prefix of the written values then only error/end (C17_truncation_prefix); sync mismatch, data left in block, size beyond input, count too small are errors; an unrecoverable error is reported once, then end of stream (C17_once)",
    "'count larger than the contents' is an error only when the missing datums cannot be decoded from nothing: with a schema whose values are empty (null) any count is accepted by construction of the format (count_too_large_null_schema_accepted)",
    "proved (ContainerDamageProofs.v, DePrefixProofs.v): a written file cut at ANY offset inside its header is refused with an error by the slice and the chunked reader (C17_header_truncation/_chunked); cut anywhere behind the header and read through the chunked reader (any plan, allocation cap >= file length): written metadata, a prefix of the written values, then at most one error and end of stream (C17_chunked_truncation_prefix); ARBITRARY bytes never make cr_open or any reader call panic (C17_corruption_no_panic); the datum decoder never depends on bytes behind what it consumed (C17_de_prefix_determinism), which gives value-level genuineness on damaged compressed blocks for the real value decoder (C17_compressed_values_genuine_de)",
    "tested, not proved: that ccr_file is what the crate does on DAMAGED whole compressed files -- count lowered / raised, size -1 / -2 / +1, foreign bytes inside the size, the stream twice, snappy CRC / payload / short sizes / corrupted size varint (x capacities x sources), and the histories' compressed files cut inside the sync markers, block data, count / size varints and header or with the first count changed: same values before the first error and same class of error as the extracted model with the replayed decoder (coverage.notes whole_file_reader_model_vs_crate); the proofs about damaged compressed input are per BLOCK (DecodeLoopProofs.v), the whole-file reader model is only TESTED on damaged files",
    "decided on the crate: the compression libraries themselves (contract validated per run), single-byte corruptions of count / size / sync / CRC / payload for value-level outcomes, I/O errors",
]

def items_key(items, upto_first_err=True):
    out = []
    for it in items:
        out.append(it if it[0] != "err" else ("err",))
        if it[0] == "err" and upto_first_err:
            break
    return out

def varint_histories(rng, tier):
    """null-codec files in which every kind of varint the reader decodes is (also) a MULTI-byte one: object count and byte
    size of a block (>= 64 values / bytes), long and int values at the 7-bit boundaries, string / bytes / map-key lengths
    >= 64, array and map block counts >= 64 and negative counts with byte sizes, enum and union indices.
    -> [(history, ops, expected, 'null', block size)]; they are cut at EVERY offset and read through EVERY source below"""
    N = G.Node
    hx = C.hx
    longs = [64, -65, 8191, 8192, -8193, 2**31 - 1, -2**31, 2**34, 2**41, 2**48, 2**55, 2**62, -2**63, 2**63 - 1, 1000000007, 63, -64, 0]
    longs += [G.rand_int(rng, -2**63, 2**63 - 1) for _ in range(70 - len(longs))]
    rng.shuffle(longs)
    text = lambda n: hx("".join(rng.choice("abcdefghij -_") for _ in range(n)))
    raw = lambda n: hx(bytes(rng.randrange(256) for _ in range(n)))
    ll = lambda k: " ".join("(long %d)" % rng.choice(longs) for _ in range(k))
    specs = [
        ("long", [N("long")], ["(long %d)" % z for z in longs], 65536, False),
        ("int-small-blocks", [N("int")], ["(int %d)" % z for z in (64, -65, 8192, 2**31 - 1, -2**31, 1000000007 % 2**31, 300)], 0, False),
        ("record-string-long", [N("record", name="Rec", fields=[("name", 1), ("amount", 2)]), N("string"), N("long")],
         ["(record (string %s) (long %d))" % (text(n), z) for n, z in ((5, 1000000007), (0, 64), (63, -65), (64, 8192), (130, 2**62), (200, -2**63))], 65536, False),
        ("string", [N("string")], ["(string %s)" % text(n) for n in (64, 100, 128)], 65536, False),
        ("array-long", [N("array", items=1), N("long")],
         ["(array (blk 1 %s))" % ll(70), "(array (blk 0 %s) (blk 1 %s) (blk 0 %s))" % (ll(3), ll(20), ll(66)), "(array)", "(array (blk 1 %s) (blk 1 %s))" % (ll(1), ll(2))], 65536, True),
        ("map-bytes", [N("map", values=1), N("bytes")],
         ["(map (blk 1 (%s (bytes %s)) (%s (bytes %s))))" % (text(70), raw(64), text(3), raw(130)), "(map (blk 0 (%s (bytes %s))))" % (text(64), raw(0))], 65536, True),
        ("enum-70", [N("enum", name="Big", symbols=["S%d" % i for i in range(70)])], ["(enum %d)" % i for i in (0, 63, 64, 69, 65)], 65536, False),
        ("record-union-long", [N("record", name="Ru", fields=[("u", 1), ("n", 3)]), N("union", variants=[2, 3]), N("null"), N("long")],
         ["(record (union 1 (long %d)) (long %d))" % (a, b) for a, b in ((64, -65), (2**40, 8192))] + ["(record (union 0 null) (long 1000000007))"], 8, False),
    ]
    out = []
    for label, nodes, values, bsz, push in specs:
        h = cont.History.__new__(cont.History)
        h.rng, h.nodes, h.values, h.schema = rng, nodes, values, G.schema_sx(nodes)
        h.prepare()
        if push:        # pre-serialized: the block layout chosen above (negative counts + byte sizes) is what is in the file
            ops = [("push", "(push %s 1)" % sp["enc"], [i]) for i, sp in enumerate(h.spec)]
        else:
            ops = [("ser", "(ser %s)" % sp["present"], [i]) for i, sp in enumerate(h.spec)]
        ops.append(("into_inner", "into_inner"))
        out.append((h, ops, list(range(len(values))), "null", bsz, label))
    return out

KEEP_CALLING = 8

SOURCES = ["slice", "(chunks 1)", "(chunks 2)", "(chunks 3)", "(chunks 64)"]

def run(ctx):
    rng = random.Random(ctx["seed"] * 1000003 + 17)
    nfiles = 36 if ctx["tier"] == "quick" else 1200
    hs = []
    for i in range(nfiles):
        h = cont.History(rng, n_values=rng.choice([1, 2, 4, 6]))
        h.prepare()
        ops, expected = cont.make_ops(rng, h, allow_fail=False, allow_push=False, end="into_inner")
        hs.append((h, ops, expected, cont.CODECS[i % len(cont.CODECS)], rng.choice([0, 8, 65536]), None))
    hs.extend(varint_histories(rng, ctx["tier"]))
    wl = [cont.cw_line(h, c, b, "vec", [], ops) for (h, ops, ex, c, b, _) in hs]
    wr = C.run_parallel(C.AVRODRIVE, wl)
    jsons = [C.unhex(C.parse_sx(r)[0][2]) for r in C.run_parallel(C.AVRODRIVE, ["freeze " + h.schema for h, *_ in hs])]
    cases, meta = [], []
    violations0 = []
    file_json = {}
    for fi, ((h, ops, expected, c, b, directed), res) in enumerate(zip(hs, wr)):
        p = cont.parse_cw(res)
        if p is None or p.get("build_err"):
            if directed:
                violations0.append({"impl_case": wl[fi][:3000], "what": "writing the %s file failed" % directed, "impl": res[:300]})
            continue
        f = p["sink"]
        file_json[fi] = jsons[fi]
        exp = [h.spec[i]["dany"] for i in expected]
        # the caller KEEPS CALLING after errors: room for every value, the errors of a damaged block and 8 more calls (the harness stops
        # at the second end of stream)
        ncalls = len(exp) + 4 + KEEP_CALLING
        hdr = p["built"]
        if directed:
            if any(r != "ok" for r, _ in p["ops"]):
                violations0.append({"impl_case": wl[fi][:3000], "what": "writing the %s file failed" % directed, "impl": res[:300]})
                continue
            # cut at EVERY offset behind the header (inside the header: every 3rd), read through EVERY source: the cut falls
            # inside every multi-byte varint, and with chunked sources so do the refill boundaries
            for k in list(range(0, hdr, 3)) + list(range(hdr, len(f))):
                for mode in SOURCES + ["(chunks %d %d %d)" % (rng.randint(1, 9), rng.randint(1, 9), rng.randint(1, 9))]:
                    cases.append("cr %s %s any %d" % (C.hx(f[:k]), mode, ncalls))
                    meta.append((fi, "trunc", k, exp, mode))
            # one byte changed at EVERY offset behind the header (block count / size varints made negative, over-long or cut short; string
            # bytes made invalid UTF-8, lengths made longer than the block, indices out of range; sync marker), read on by a caller that skips
            # bad records, through the slice reader and chunked ones
            for k in range(hdr, len(f)):
                for mode in ("slice", rng.choice(["(chunks 1)", "(chunks 3)", "(chunks 64)"])):
                    g = bytearray(f)
                    g[k] = rng.choice([g[k] ^ 1, g[k] ^ 0x80, 0xFF, 0xC0, (g[k] + 2) & 0xFF, g[k] ^ 0x81])
                    if bytes(g) == f:
                        continue
                    cases.append("cr %s %s any %d" % (C.hx(bytes(g)), mode, ncalls))
                    meta.append((fi, "sync" if k >= len(f) - 16 else "corrupt", k, exp, mode))
            continue
        # truncation at every offset (sampled when long)
        offs = range(len(f)) if len(f) < 400 else sorted(set(list(range(hdr - 20, min(len(f), hdr + 120))) + rng.sample(range(len(f)), 100)))
        for k in offs:
            mode = rng.choice(["slice", "(chunks %d)" % rng.choice([1, 2, 5, 64])])
            cases.append("cr %s %s any %d" % (C.hx(f[:k]), mode, ncalls))
            meta.append((fi, "trunc", k, exp, mode))
        # single-byte corruption at every offset after the magic (sampled when long)
        offs = range(4, len(f)) if len(f) < 300 else sorted(set(list(range(hdr - 16, min(len(f), hdr + 60))) + rng.sample(range(4, len(f)), 80) + list(range(len(f) - 20, len(f)))))
        for k in offs:
            g = bytearray(f)
            g[k] = rng.choice([g[k] ^ 1, g[k] ^ 0x80, 0, 0xFF, (g[k] + 2) & 0xFF, (g[k] - 2) & 0xFF])
            if bytes(g) == f:
                continue
            mode = rng.choice(["slice", "(chunks %d)" % rng.choice([1, 3, 4096])])
            kind = "corrupt"
            if k >= len(f) - 16:
                kind = "sync"            # the last block's trailing marker
            elif hdr - 16 <= k < hdr:
                kind = "header-sync"
            cases.append("cr %s %s any %d" % (C.hx(bytes(g)), mode, ncalls))
            meta.append((fi, kind, k, exp, mode))
        # object count of the first block lowered / raised (single-byte varint counts only)
        if len(f) > hdr and f[hdr] < 0x80 and f[hdr] >= 2 and f[hdr] % 2 == 0:
            for delta, kind in ((-2, "count-lowered"), (2, "count-raised")):
                g = bytearray(f)
                g[hdr] = f[hdr] + delta
                if g[hdr] == 0:
                    continue
                cases.append("cr %s slice any %d" % (C.hx(bytes(g)), ncalls))
                meta.append((fi, kind, hdr, exp, "slice"))
        # I/O error injected at a read call
        for _ in range(6):
            at = rng.randint(0, 60)
            cases.append("cr %s (chunks %d) any %d %d" % (C.hx(f), rng.choice([3, 16, 200]), ncalls, at))
            meta.append((fi, "ioerr", at, exp, "chunks"))
    res = C.run_parallel(C.AVRODRIVE, cases)
    violations, diffs, samples, distinct = violations0, [], [], set()
    mlines, midx = [], []
    orig_json = {}
    from collections import Counter
    dist = Counter()
    for i, (line, r, (fi, kind, k, exp, mode)) in enumerate(zip(cases, res, meta)):
        h, ops, expected, c, b, directed = hs[fi]
        pr = cont.parse_cr(r)
        distinct.add(line)
        if r.strip() == "(budget)":
            dist["skipped/recording-budget"] += 1     # the harness' recording visitor gave up (> 2M recorded elements): not a crash of the crate
            continue
        if "crash" in pr or "(panic" in r:
            violations.append({"impl_case": line[:3000], "what": "reader panicked or crashed (%s at %d)" % (kind, k), "impl": r[:300]})
            continue
        if c == "null" and kind != "ioerr":
            mlines.append(line + " " + h.schema)
            midx.append(i)
            orig_json[i] = file_json[fi]
        if pr.get("open_err"):
            dist[(kind, "open-err")] += 1
            if kind in ("trunc", "corrupt", "header-sync", "sync", "count-lowered", "count-raised") and kind not in ("trunc", "corrupt", "header-sync"):
                violations.append({"impl_case": line[:3000], "what": "valid header rejected (%s)" % kind})
            continue
        items = pr["items"]
        vals = [it[1] for it in items if it[0] == "ok"]
        errs = [j for j, it in enumerate(items) if it[0] == "err"]
        dist[(kind, "err" if errs else "clean")] += 1
        if kind in ("trunc", "ioerr", "sync", "count-lowered", "count-raised") and not (kind == "count-raised" and any(h.spec[i]["canon"] == "x" for i in expected)):
            # only genuine values, in order
            if vals != exp[:len(vals)]:
                violations.append({"impl_case": line[:3000], "what": "%s at %d: a value that was not written (or out of order) was yielded" % (kind, k),
                                   "impl": r[:400]})
        zero_byte = any(h.spec[i]["canon"] == "x" for i in expected)
        if kind in ("sync", "count-lowered", "count-raised") and not errs and not (zero_byte and kind.startswith("count")):
            violations.append({"impl_case": line[:3000], "what": "%s at byte %d was not detected" % (kind, k), "impl": r[:300]})
        if kind == "header-sync" and not errs and len(exp) > 0:
            violations.append({"impl_case": line[:3000], "what": "header/trailing sync marker mismatch at byte %d was not detected" % k})
        if kind == "trunc" and not errs and len(vals) < len(exp) and items and items[-1][0] == "eof":
            # silent short read is only legitimate on a block boundary: all blocks present so far are complete
            pass
        if items and items[-1][0] != "eof" and len(items) < len(exp) + 4:
            violations.append({"impl_case": line[:3000], "what": "no end of stream after %d calls" % len(items)})
        # (a caller that keeps calling must reach end of stream: judged against the reader model below -- null codec; a block whose count
        # was damaged into a large one legitimately gives one error per announced object, so no model-free bound is applied to compressed files)
        # after an I/O error: reported once, then end of stream
        for j in errs:
            if items[j][1] == "io" and any(it[0] != "eof" for it in items[j + 1:]):
                violations.append({"impl_case": line[:3000], "what": "items after an I/O error", "impl": r[:400]})
                break
        if len(samples) < 6 and kind != "trunc":
            samples.append({"damage": kind, "offset": k, "codec": c, "mode": mode, "result": [it[0] for it in items]})
    mm = C.run_parallel(C.AVROMODEL, mlines)
    mpos = {i: j for j, i in enumerate(midx)}
    for i, rm in zip(midx, mm):
        a = cont.parse_cr(res[i])
        m = cont.parse_cr(rm)
        if "(unmodelled)" in rm:
            continue
        if a.get("open_err") == "schema" or (not a.get("open_err") and m.get("json") is not None and a.get("json") != m.get("json")):
            continue
        if not a.get("open_err") and a.get("json") != orig_json[i]:
            continue        # the damage changed the schema text: the model was given the original schema
        ka = ("open-err",) if a.get("open_err") else items_key(a.get("items", []))
        km = ("open-err",) if m.get("open_err") else items_key(m.get("items", []))
        if ka != km:
            diffs.append({"impl_case": cases[i][:3000], "model_case": mlines[mpos[i]][:3000], "impl": res[i][:500], "model": rm[:500]})
            continue
        if a.get("open_err") or m.get("open_err"):
            continue
        # the WHOLE sequence of a caller that keeps calling after errors (Container.cr_run: an I/O or framing error -- state Broken -- is
        # reported once, then end of stream; an error inside a value uses up one object of the block and the reader goes on)
        ia, im = a.get("items", []), m.get("items", [])
        fi, kind, k, exp, mode = meta[i]
        sa, sm = items_key(ia, False), items_key(im, False)
        m_eof = bool(im) and im[-1][0] == "eof"
        a_eof = bool(ia) and ia[-1][0] == "eof"
        je = next((j for j, it in enumerate(ia) if it[0] == "err"), None)
        if m_eof and not a_eof:
            nerr = sum(1 for it in ia if it[0] == "err")
            violations.append({"impl_case": cases[i][:3000], "what": "%s at %d (%s): no end of stream after %d calls (%d errors, the last %d items are errors): a caller that keeps calling "
                               "after an error never gets out; the reader model reaches end of stream after %d calls" % (
                                   kind, k, mode, len(ia), nerr, next((x for x, it in enumerate(reversed(ia)) if it[0] != "err"), len(ia)), len(im)),
                               "impl": res[i][:500], "model": rm[:300]})
        elif je is not None and all(it[0] == "eof" for it in im[je + 1:]) and len(im) > je + 1 and (
                any(it[0] == "ok" for it in ia[je + 1:]) or sum(1 for it in ia[je + 1:] if it[0] == "err") >= 2):
            violations.append({"impl_case": cases[i][:3000], "what": "%s at %d (%s): the error of call %d is unrecoverable (I/O or framing: the reader model is in its Broken state and reports "
                               "end of stream from then on) but the reader went on: %s" % (kind, k, mode, je, " ".join(it[0] for it in ia[je + 1:][:12])),
                               "impl": res[i][:500], "model": rm[:300]})
        elif sa != sm and je is not None and all(it[0] == "eof" for it in im[je + 1:]):
            # (behind an error INSIDE a value the model's reader position is not tied to the crate's -- how much of a string with invalid
            # UTF-8 / an over-long length has been consumed --: those tails are judged by the end-of-stream rule above only)
            diffs.append({"impl_case": cases[i][:3000], "model_case": mlines[mpos[i]][:3000], "impl": res[i][:500], "model": rm[:500],
                          "what": "item sequences of a caller that keeps calling after errors differ behind the first error"})
    dd = decodeloop.run_damaged(random.Random(ctx["seed"] * 7919 + 117), ctx["tier"])
    violations.extend(dd["violations"])
    diffs.extend(dd["diffs"])
    # WHOLE compressed files of the histories (real schemas), cut inside the sync markers, the block data, the count / size varints and
    # the header, and with the first block's count lowered / raised: model of the compressed-file reader vs crate
    wrng = random.Random(ctx["seed"] * 7919 + 1717)
    wjobs = []
    for fi, ((h, ops, expected, c, b, directed), res0) in enumerate(zip(hs, wr)):
        p = cont.parse_cw(res0)
        if c == "null" or p is None or p.get("build_err") or len(p["sink"]) > 4000:
            continue
        f, hdr = p["sink"], p["built"]
        wjobs.extend(containercodec.truncation_jobs(wrng, f, len(expected) + 4, "%s file %d" % (c, fi), k=6 if ctx["tier"] == "quick" else 14))
        if len(f) > hdr and 2 <= f[hdr] < 0x80 and f[hdr] % 2 == 0:
            for delta, kind in ((-2, "count-lowered"), (2, "count-raised")):
                g = bytearray(f)
                g[hdr] = f[hdr] + delta
                cap = 0 if c == "snappy" else wrng.choice([1, 7, 0])
                mode = wrng.choice(["slice", "(chunks 1)", "(chunks 5)"])
                wjobs.append({"file": bytes(g), "cap": cap, "mode": mode, "ncalls": len(expected) + 4, "where": "%s file %d %s capacity %d %s" % (c, fi, kind, cap, mode)})
    wf = containercodec.compare(wjobs)
    diffs.extend(wf["diffs"])
    dd["notes"]["whole_file_reader_model_vs_crate(cut files, counts changed)"] = wf["notes"]
    dd["evaluations"] += wf["evaluations"]
    samples = dd["samples"][:3] + samples
    for k, v in dd["distribution"].items():
        dist[("block-" + k.split("/")[0], k.split("/")[1])] += v
    return {"evaluations": len(cases) + len(wl) + dd["evaluations"], "distinct_nontrivial": len(distinct) + len(dd["distinct"]), "notes": dd["notes"],
            "rule": "null-codec files whose varints (block count / size, values, lengths, item counts incl. negative ones with byte sizes, "
                    "enum / union indices) are multi-byte, cut at EVERY offset x {slice, 1, 2, 3, 64 bytes per fill_buf, a random plan}: only genuine "
                    "values in order, then error / end of stream; same items as the reader model. "
                    "valid files (12 codec settings) x every truncation offset x single-byte corruption at every offset x object count "
                    "lowered/raised x I/O error at a read call; slice and chunked readers. Required: no panic/hang, only genuine values in order "
                    "for truncation / sync / count damage, sync and count damage reported as an error, end of stream after an I/O error; "
                    "reader model vs crate on the null codec: the WHOLE item sequence of a caller that keeps calling (8 calls more than values + 4; stops at the second end of stream): same items; "
                    "no end of stream where the model reaches it = endless stream of errors (violation), items behind an error the model latches on (Broken: I/O / framing) = violation; "
                    "the multi-byte-varint files also with one byte changed at EVERY offset behind the header x {slice, chunked}; "
                    "compressed blocks (hook H4): codecs {deflate default/1, bzip2, xz, zstandard, snappy} x payloads x damage {count -1/+1, size -1/-2/+1, 1 or 5 foreign bytes behind the stream inside the size, stream twice, snappy CRC flip / little-endian / size 3 / payload bit} x BufReader capacity {1,7,8192} x source {slice, 1, 7 bytes per fill_buf}: "
                    "an error is reported, only genuine values before it, every end-of-block check replayed through the extracted model, decoder contract checked on the reads made",
            "samples": samples, "violations": violations, "model_diffs": diffs,
            "distribution": {"%s/%s" % k: v for k, v in sorted(dist.items())}}
