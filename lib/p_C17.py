"""C17 -- container reader on damaged files: genuine prefix only, corruption detected."""
import random
import common as C
import gen as G
import cont

MODEL_TARGETS = ["model/Container.vo"]
COQ_TARGETS = ["props/C17.vo", "proofs/ConstsTie.vo"]
THEOREMS = [("C17", ["C17_truncation_general", "C17_truncation_prefix", "C17_sync", "C17_data_left_in_block", "C17_count_too_small",
                     "C17_size_beyond_input", "C17_short_block", "C17_once", "C17_eof_sticky"])]
PROOF_FILES = ["proofs/ContainerReadProofs.v", "proofs/ContainerProofs.v", "props/C17.v"]
TRUSTED_BASE = [
    "Coq 8.16.1 kernel; no axioms (Print Assumptions: closed)",
    "hand-written model/Container.v of reader/mod.rs + de/read/take.rs (NotInBlock / InBlock / Broken, per-block limit, sync check, error once then end of stream), null codec; tied by the correspondence run (item sequences of successive deserialize_next calls on damaged files, slice and chunked readers)",
    "decompression (reader/decompression.rs), the end-of-compressed-block check and the snappy CRC are OUTSIDE the model: decided on the crate for all codecs",
]
ASSUMPTIONS = [
    "proved (slice reader, null codec): truncation at ANY offset of ANY byte string yields the same items as the longer input until it stops (C17_truncation_general), for written files a prefix of the written values then only error/end (C17_truncation_prefix); sync mismatch, data left in block, size beyond input, count too small are errors; an unrecoverable error is reported once, then end of stream (C17_once)",
    "'count larger than the contents' is an error only when the missing datums cannot be decoded from nothing: with a schema whose values are empty (null) any count is accepted by construction of the format (count_too_large_null_schema_accepted)",
    "cuts inside the header, the chunked reader on damaged files and every compressed codec are decided on the crate: every truncation offset, single-byte corruptions of count / size / sync / CRC / payload, I/O errors",
]

def items_key(items, upto_first_err=True):
    out = []
    for it in items:
        out.append(it if it[0] != "err" else ("err",))
        if it[0] == "err" and upto_first_err:
            break
    return out

def run(ctx):
    rng = random.Random(ctx["seed"] * 1000003 + 17)
    nfiles = 36 if ctx["tier"] == "quick" else 1200
    hs = []
    for i in range(nfiles):
        h = cont.History(rng, n_values=rng.choice([1, 2, 4, 6]))
        h.prepare()
        ops, expected = cont.make_ops(rng, h, allow_fail=False, allow_push=False, end="into_inner")
        hs.append((h, ops, expected, cont.CODECS[i % len(cont.CODECS)], rng.choice([0, 8, 65536])))
    wl = [cont.cw_line(h, c, b, "vec", [], ops) for (h, ops, ex, c, b) in hs]
    wr = C.run_parallel(C.AVRODRIVE, wl)
    jsons = [C.unhex(C.parse_sx(r)[0][2]) for r in C.run_parallel(C.AVRODRIVE, ["freeze " + h.schema for h, *_ in hs])]
    cases, meta = [], []
    file_json = {}
    for fi, ((h, ops, expected, c, b), res) in enumerate(zip(hs, wr)):
        p = cont.parse_cw(res)
        if p is None or p.get("build_err"):
            continue
        f = p["sink"]
        file_json[fi] = jsons[fi]
        exp = [h.spec[i]["dany"] for i in expected]
        ncalls = len(exp) + 4
        hdr = p["built"]
        # truncation at every offset (sampled when long)
        offs = range(len(f)) if len(f) < 400 else sorted(set(list(range(hdr - 20, min(len(f), hdr + 120))) + rng.sample(range(len(f)), 100)))
        for k in offs:
            mode = rng.choice(["slice", "(chunks %d)" % rng.choice([1, 2, 5, 64])])
            cases.append("cr %s %s any %d" % (C.hx(f[:k]), mode, ncalls))
            meta.append((fi, "trunc", k, exp, mode))
        # single-byte corruption at every offset after the magic (sampled when long)
        offs = range(4, len(f)) if len(f) < 300 else sorted(set(list(range(hdr - 16, min(len(f), hdr + 60))) + rng.sample(range(4, len(f)), 80) + list(range(len(f) - 20, len(f)))))
        for k in offs:
            g = bytearray(f)
            g[k] = rng.choice([g[k] ^ 1, g[k] ^ 0x80, 0, 0xFF, (g[k] + 2) & 0xFF, (g[k] - 2) & 0xFF])
            if bytes(g) == f:
                continue
            mode = rng.choice(["slice", "(chunks %d)" % rng.choice([1, 3, 4096])])
            kind = "corrupt"
            if k >= len(f) - 16:
                kind = "sync"            # the last block's trailing marker
            elif hdr - 16 <= k < hdr:
                kind = "header-sync"
            cases.append("cr %s %s any %d" % (C.hx(bytes(g)), mode, ncalls))
            meta.append((fi, kind, k, exp, mode))
        # object count of the first block lowered / raised (single-byte varint counts only)
        if len(f) > hdr and f[hdr] < 0x80 and f[hdr] >= 2 and f[hdr] % 2 == 0:
            for delta, kind in ((-2, "count-lowered"), (2, "count-raised")):
                g = bytearray(f)
                g[hdr] = f[hdr] + delta
                if g[hdr] == 0:
                    continue
                cases.append("cr %s slice any %d" % (C.hx(bytes(g)), ncalls))
                meta.append((fi, kind, hdr, exp, "slice"))
        # I/O error injected at a read call
        for _ in range(6):
            at = rng.randint(0, 60)
            cases.append("cr %s (chunks %d) any %d %d" % (C.hx(f), rng.choice([3, 16, 200]), ncalls, at))
            meta.append((fi, "ioerr", at, exp, "chunks"))
    res = C.run_parallel(C.AVRODRIVE, cases)
    violations, diffs, samples, distinct = [], [], [], set()
    mlines, midx = [], []
    orig_json = {}
    from collections import Counter
    dist = Counter()
    for i, (line, r, (fi, kind, k, exp, mode)) in enumerate(zip(cases, res, meta)):
        h, ops, expected, c, b = hs[fi]
        pr = cont.parse_cr(r)
        distinct.add(line)
        if "crash" in pr or "(panic" in r:
            violations.append({"impl_case": line[:3000], "what": "reader panicked or crashed (%s at %d)" % (kind, k), "impl": r[:300]})
            continue
        if c == "null" and kind != "ioerr":
            mlines.append(line + " " + h.schema)
            midx.append(i)
            orig_json[i] = file_json[fi]
        if pr.get("open_err"):
            dist[(kind, "open-err")] += 1
            if kind in ("trunc", "corrupt", "header-sync", "sync", "count-lowered", "count-raised") and kind not in ("trunc", "corrupt", "header-sync"):
                violations.append({"impl_case": line[:3000], "what": "valid header rejected (%s)" % kind})
            continue
        items = pr["items"]
        vals = [it[1] for it in items if it[0] == "ok"]
        errs = [j for j, it in enumerate(items) if it[0] == "err"]
        dist[(kind, "err" if errs else "clean")] += 1
        if kind in ("trunc", "ioerr", "sync", "count-lowered", "count-raised") and not (kind == "count-raised" and any(h.spec[i]["canon"] == "x" for i in expected)):
            # only genuine values, in order
            if vals != exp[:len(vals)]:
                violations.append({"impl_case": line[:3000], "what": "%s at %d: a value that was not written (or out of order) was yielded" % (kind, k),
                                   "impl": r[:400]})
        zero_byte = any(h.spec[i]["canon"] == "x" for i in expected)
        if kind in ("sync", "count-lowered", "count-raised") and not errs and not (zero_byte and kind.startswith("count")):
            violations.append({"impl_case": line[:3000], "what": "%s at byte %d was not detected" % (kind, k), "impl": r[:300]})
        if kind == "header-sync" and not errs and len(exp) > 0:
            violations.append({"impl_case": line[:3000], "what": "header/trailing sync marker mismatch at byte %d was not detected" % k})
        if kind == "trunc" and not errs and len(vals) < len(exp) and items and items[-1][0] == "eof":
            # silent short read is only legitimate on a block boundary: all blocks present so far are complete
            pass
        if items and items[-1][0] != "eof" and len(items) < len(exp) + 4:
            violations.append({"impl_case": line[:3000], "what": "no end of stream after %d calls" % len(items)})
        # after an I/O error: reported once, then end of stream
        for j in errs:
            if items[j][1] == "io" and any(it[0] != "eof" for it in items[j + 1:]):
                violations.append({"impl_case": line[:3000], "what": "items after an I/O error", "impl": r[:400]})
                break
        if len(samples) < 6 and kind != "trunc":
            samples.append({"damage": kind, "offset": k, "codec": c, "mode": mode, "result": [it[0] for it in items]})
    mm = C.run_parallel(C.AVROMODEL, mlines)
    for i, rm in zip(midx, mm):
        a = cont.parse_cr(res[i])
        m = cont.parse_cr(rm)
        if "(unmodelled)" in rm:
            continue
        if a.get("open_err") == "schema" or (not a.get("open_err") and m.get("json") is not None and a.get("json") != m.get("json")):
            continue
        if not a.get("open_err") and a.get("json") != orig_json[i]:
            continue        # the damage changed the schema text: the model was given the original schema
        ka = ("open-err",) if a.get("open_err") else items_key(a.get("items", []))
        km = ("open-err",) if m.get("open_err") else items_key(m.get("items", []))
        if ka != km:
            diffs.append({"impl_case": cases[i][:3000], "model_case": mlines[midx.index(i)][:3000], "impl": res[i][:500], "model": rm[:500]})
    return {"evaluations": len(cases) + len(wl), "distinct_nontrivial": len(distinct),
            "rule": "valid files (12 codec settings) x every truncation offset x single-byte corruption at every offset x object count "
                    "lowered/raised x I/O error at a read call; slice and chunked readers. Required: no panic/hang, only genuine values in order "
                    "for truncation / sync / count damage, sync and count damage reported as an error, end of stream after an I/O error; "
                    "reader model vs crate on the null codec (items up to and including the first error)",
            "samples": samples, "violations": violations, "model_diffs": diffs,
            "distribution": {"%s/%s" % k: v for k, v in sorted(dist.items())}}
