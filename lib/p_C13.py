"""C13 -- record bytes independent of field order; omitted nullable fields encode as null."""
import itertools, random
import common as C
import gen as G
import codec
from present import Presenter

MODEL_TARGETS = ["model/Ser.vo", "spec/Denote.vo", "model/SerHistory.vo"]
COQ_TARGETS = ["props/C13.vo", "proofs/SerDispatchTie.vo"]
THEOREMS = [("C13", ["C13_perm", "C13_perm_variant", "C13_perm_map", "C13_schema_order", "C13_nopanic", "C13_perm_nested", "C13_perm_split", "C13_perm_union_named", "C13_perm_union_typed", "C13_duplicate_field",
                     "C13_sink_schedule_independent", "C13_sink_any_schedule", "C13_sink_fixed_slice", "C13_write_once_defect_refuted",
                     "C13_fixed_slice_whole_serializer", "C13_fixed_slice_ok_iff", "C13_fixed_slice_no_new_panic"]),
            ("SerDispatchTie", ["tie_ser_bool", "tie_ser_integer", "tie_ser_f32", "tie_ser_f64", "tie_ser_str", "tie_ser_bytes", "tie_ser_unit", "tie_ser_unit_struct", "tie_ser_unit_variant", "tie_ser_seq", "tie_ser_map", "tie_ser_forward_names", "tie_ser_simple_forwards", "ser_int_leaf_is_rows", "ser_str_leaf_is_rows", "ser_bytes_leaf_is_rows"])]
PROOF_FILES = ["proofs/RecordProofs.v", "props/C13.v", "proofs/RecordPermProofs.v", "proofs/SerDispatchTie.v", "proofs/SinkWriteProofs.v", "proofs/SerBudgetProofs.v"]
TRUSTED_BASE = [
    "model/SinkWrite.v transcribes std::io::Write::write_all (library/std/src/io/mod.rs: loop, Ok(0) => WriteZero, Interrupted => retry) and impl Write for &mut [u8] over the answer schedules of model/VectoredWrite.v; it is std's code, not the crate's, and is trusted as transcribed; the crate side is exercised through the harness sinks (sink short K) / (sink fixed N)",
    "dispatch tie: translators/gen_ser_dispatch.py (+ rustmatch.py) reads the arms of the serialize_* methods of DatumSerializer into gen/GenSerDispatch.v; proofs/SerDispatchTie.v ties them to the rows of model/Ser.v (leaf functions proved to be the interpretation of the rows on non-union nodes; 2 arms unclassified: the Decimal arm of serialize_integer and the Union arm of serialize_unit_variant)",
    "Coq 8.16.1 kernel; no axioms (Print Assumptions: closed)",
    "hand-written model/Ser.v of ser/serializer/{mod,struct_or_map,seq_or_tuple,blocks,decimal}.rs, tied by the correspondence run (bytes and outcomes, every permutation)",
    "SerializeStruct::skip_field events (`(skipfield xF)` in struct field lists): the model's struct presentations have no such event; ocaml/driver.ml drops it, i.e. models it as serde's provided no-op, which is what the crate's record serializer inherits (it does not override skip_field); the expected bytes of these cases are the specification's schema-order bytes (property-level oracle), so an override that changes the outcome is a violation, not only a model difference",
    "extraction (ExtrOcamlBasic) + ocaml/driver.ml; Rust harness (SVal realises any Serializer call tree; sinks: Vec, a writer taking at most K bytes per write call, a fixed-size slice)",
    "sinks: the model's writer is write_all on a byte budget (Ser.write, s_budget); that a writer accepting only a prefix per `write` call receives the same bytes through write_all is std's contract, not modelled further",
]
ASSUMPTIONS = [
    "theorems are about the model; the tie to the crate is differential testing over all permutations of up to 5 fields and random larger ones",
    "field names of a record are distinct (NoDup), as the Avro specification requires",
]

def record_case(rng):
    for _ in range(200):
        g = G.SchemaGen(rng, max_nodes=rng.choice([4, 8, 14]), max_depth=rng.choice([2, 3, 4]))
        g.gen = g.gen  # noqa
        nodes = g.build()
        if nodes[0].t == "record" and 2 <= len(nodes[0].fields) <= 6:
            v = G.ValueGen(rng, nodes, layouts=False).gen(0)
            if v is not None:
                return nodes, v
    # fallback: a hand-made record
    nodes = [G.Node("record", name="R", fields=[("a", 1), ("b", 2), ("c", 3)]), G.Node("int"), G.Node("union", variants=[4, 5]), G.Node("null"),
             G.Node("null"), G.Node("string")]
    return nodes, G.ValueGen(rng, nodes, layouts=False).gen(0)

def run(ctx):
    rng = random.Random(ctx["seed"] * 1000003 + 13)
    nrec = 90 if ctx["tier"] == "quick" else 3000
    pairs = [record_case(rng) for _ in range(nrec)]
    specs = codec.spec_batch(pairs)
    lines, meta = [], []
    for s in specs:
        nodes = s["nodes"]
        rec = nodes[0]
        e = C.parse_sx(s["evalue"])[0]
        pr = Presenter(rng, nodes, break_prob=0.0, by_type_prob=0.0, canonical_layout=True)
        fields = []
        for (fname, fk), fe in zip(rec.fields, e[1:]):
            fn = nodes[fk]
            nullable_null = (fn.kind() == "null") or (fn.kind() == "union" and nodes[fn.variants[int(fe[1])]].kind() == "null"
                                                     and pr.first_null_is(fn, int(fe[1])))
            fields.append((fname, pr.pres(fk, fe), nullable_null, fn.kind() in ("null", "union")))
        slow = " slow" if pr.needs_slow else ""
        idxs = list(range(len(fields)))
        perms = list(itertools.permutations(idxs)) if len(idxs) <= 4 else [tuple(rng.sample(idxs, len(idxs))) for _ in range(30)]
        nullable = [i for i in idxs if fields[i][2]]
        subsets = [()] + [tuple(c) for r in range(1, len(nullable) + 1) for c in itertools.combinations(nullable, r)][:7]
        def render(order, form):
            fs = [(fields[i][0], fields[i][1]) for i in order]
            if form == "struct":
                return "(struct %s %d%s)" % (C.hx(rng.choice([rec.name, "X"])), len(fs), "".join(" (%s %s)" % (C.hx(f), v) for f, v in fs))
            if form == "variant":
                return "(struct_variant %s 1 %s %d%s)" % (C.hx("E"), C.hx(rec.name), len(fs), "".join(" (%s %s)" % (C.hx(f), v) for f, v in fs))
            if form == "map":
                return "(map %s%s)" % (rng.choice(["none", str(len(fs))]), "".join(" (entry (str %s) %s)" % (C.hx(f), v) for f, v in fs))
            return "(map none%s)" % "".join(" (key (str %s)) (value %s)" % (C.hx(f), v) for f, v in fs)
        for perm in perms:
            for sub in (subsets if len(perms) <= 24 else subsets[:2]):
                order = [i for i in perm if i not in sub]
                form = rng.choice(["struct", "struct", "variant", "map", "keyvalue"])
                lines.append("ser %s %s%s" % (s["schema"], render(order, form), slow))
                meta.append((s, "ok", perm, sub, form))
        # injections
        for _ in range(6):
            perm = tuple(rng.sample(idxs, len(idxs)))
            order = list(perm)
            kind = rng.choice(["duplicate", "unknown", "missing"])
            form = rng.choice(["struct", "map", "keyvalue"])
            if kind == "duplicate":
                order.insert(rng.randrange(len(order) + 1), rng.choice(order))
                sv = render(order, form)
            elif kind == "unknown":
                sv = render(order, form)
                extra = " (%s unit)" % C.hx("nope") if form == "struct" else (" (entry (str %s) unit)" % C.hx("nope") if form == "map" else " (key (str %s)) (value unit)" % C.hx("nope"))
                pos = rng.choice(["end", "start"])
                if pos == "end":
                    sv = sv[:-1] + extra + ")"
                else:
                    head, _, rest = sv.partition(" (")
                    # insert right after the header tokens of the form
                    k = sv.index(" (") if " (" in sv else len(sv) - 1
                    sv = sv[:k] + extra + sv[k:]
            else:
                req = [i for i in idxs if not fields[i][3]]
                if not req:
                    continue
                drop = rng.choice(req)
                sv = render([i for i in order if i != drop], form)
            lines.append("ser %s %s%s" % (s["schema"], sv, slow))
            meta.append((s, kind, perm, (), form))
    # ---- directed family: records most of whose fields are omittable; every subset of omitted null-holding fields x orders
    import directed as D
    ndir = 50 if ctx["tier"] == "quick" else 2000
    dpairs = []
    for _ in range(ndir):
        nodes = D.nullable_record_case(rng)
        v = D.value_with_nulls(rng, nodes)
        if v is not None:
            dpairs.append((nodes, v))
    dspecs = codec.spec_batch(dpairs)
    cases = [D.RecCase(rng, s) for s in dspecs]
    for rc in cases:
        for line, perm, sub, form in rc.omission_lines(5, 12):
            lines.append(line); meta.append((rc.spec, "ok", perm, sub, form))
    # ---- derived structs with #[serde(skip_serializing_if)] fields: the impl calls SerializeStruct::skip_field at the field's DECLARED
    #      position; declared order = any permutation of the schema's, skipped = any subset of the null-holding fields
    skip_cases = cases + [D.RecCase(rng, s) for s in specs[:60 if ctx["tier"] == "quick" else 2000]]
    for rc in skip_cases:
        for line, perm, sub, form in rc.skip_lines(24 if len(rc.idxs) <= 4 else 12, 6, max_lines=60 if ctx["tier"] == "quick" else 200):
            lines.append(line); meta.append((rc.spec, "ok", perm, sub, form))
    # ---- other sinks: a writer whose `write` takes at most K bytes per call (short writes), a fixed-size slice exactly as
    #      large as the encoding (same bytes), a slice that is too small (Err, never Ok with a truncated record)
    sink_cases = cases + [D.RecCase(rng, s) for s in specs[:40 if ctx["tier"] == "quick" else 1500]]
    for rc in sink_cases:
        full = len(C.unhex(rc.spec["canon"]))
        sinks = ["(sink short %d)" % k for k in (1, 2, rng.choice([3, 5, 8]))] + ["(sink fixed %d)" % full]
        small = sorted(set(x for x in (full - 1, full - 2, full // 2, 0, rng.randrange(0, max(1, full))) if 0 <= x < full))
        for sink in sinks:
            for line, perm, sub, form in rc.omission_lines(3, 4, sink=sink):
                lines.append(line); meta.append((rc.spec, "ok", perm, sub, form + " " + sink))
        for x in small:
            for line, perm, sub, form in rc.omission_lines(2, 3, sink="(sink fixed %d)" % x):
                lines.append(line); meta.append((rc.spec, "too-small", perm, sub, form + " (sink fixed %d)" % x))
    impl, model = codec.both(lines)
    # ---- histories on ONE SerializerConfig: a presentation of the record that fails while fields sit in the reordering
    #      buffers (duplicate, unknown, missing required, failing value, failing sink), then every kind of presentation of
    #      the same record: the bytes must still be the schema-order bytes
    hlines, hmeta = [], []
    for rc in cases + [D.RecCase(rng, s) for s in specs[:30 if ctx["tier"] == "quick" else 1000]]:
        fails = rc.failing_first_steps()
        if not fails:
            continue
        probes = rc.omission_lines(4, 3)
        slow = 1 if rc.slow else 0
        for kind, fsv, budget in fails:
            for line, perm, sub, form in rng.sample(probes, min(len(probes), 4)):
                probe = line[len("ser %s " % rc.spec["schema"]):]
                if rc.slow:
                    probe = probe[:-len(" slow")]
                hlines.append("hist %s %d (job %s %s) (job %s none)" % (rc.spec["schema"], slow, fsv, budget, probe))
                hmeta.append((rc.spec, [kind], perm, sub))
                if rng.random() < 0.25:
                    k2, f2, b2 = rng.choice(fails)
                    hlines.append("hist %s %d (job %s %s) (job %s %s) (job %s none)" % (rc.spec["schema"], slow, fsv, budget, f2, b2, probe))
                    hmeta.append((rc.spec, [kind, k2], perm, sub))
    himpl, hmodel = codec.both(hlines)
    violations, diffs, samples, distinct = [], [], [], set()
    from collections import Counter
    dist = Counter()
    for line, ri, rm, (s, kinds, perm, sub) in zip(hlines, himpl, hmodel, hmeta):
        distinct.add(line)
        dist["history/" + kinds[0].split("-at-")[0]] += 1
        pi, pm = C.parse_sx(ri), C.parse_sx(rm)
        if not pi or pi[0][0] != "ok":
            violations.append({"impl_case": line, "what": "history crashed", "impl": ri[:300]})
            continue
        items = [C.canon_impl(C.show_sx(x)) for x in pi[0][1:]]
        if "(unmodelled)" not in rm:
            mitems = [C.show_sx(x) for x in pm[0][1:]] if pm and pm[0][0] == "ok" else None
            if mitems is None or len(mitems) != len(items) or any(not C.same_outcome(a, b) for a, b in zip(items, mitems)):
                diffs.append(codec.diff_entry(line, ri, rm))
        if any(x.startswith("(panic") for x in items):
            violations.append({"impl_case": line, "what": "panic while serializing a record in a history on one configuration", "impl": ri[:300]})
            continue
        for k, it in zip(kinds, items[:-1]):
            if it.startswith("(ok") and k.split("-")[0] in ("duplicate", "unknown", "missing"):
                violations.append({"impl_case": line, "what": "a record with a %s field was accepted" % k.split("-")[0], "impl": ri[:300]})
        if items[-1] != "(ok %s)" % s["canon"]:
            violations.append({"impl_case": line, "what": "after a failed serialization (%s) on the same configuration, field order %s with %d nullable "
                               "fields omitted does not give the schema-order bytes" % (", ".join(kinds), list(perm), len(sub)),
                               "impl": items[-1][:300], "expected": s["canon"][:300]})
    for line, ri, rm, (s, kind, perm, sub, form) in zip(lines, impl, model, meta):
        distinct.add(line)
        dist["%s/%s" % (kind, form.split(" (sink")[0] + ("/sink-" + form.split("(sink ")[1].split(" ")[0] if "(sink" in form else ""))] += 1
        if not C.same_outcome(ri, rm):
            diffs.append(codec.diff_entry(line, ri, rm))
        if ri.startswith("(panic") or ri.startswith("(crash"):
            violations.append({"impl_case": line, "what": "panic while serializing a record (%s)" % kind, "impl": ri[:200]})
        elif kind == "too-small":
            if ri.startswith("(ok"):
                violations.append({"impl_case": line, "what": "Ok although the output slice is smaller than the record's encoding (%d bytes)" % len(C.unhex(s["canon"])),
                                   "impl": ri[:300]})
        elif kind == "ok":
            if ri != "(ok %s)" % s["canon"]:
                violations.append({"impl_case": line, "what": "field order %s with %d nullable fields omitted does not give the schema-order bytes" % (list(perm), len(sub)),
                                   "impl": ri[:300], "expected": s["canon"][:300]})
        else:
            if ri.startswith("(ok"):
                violations.append({"impl_case": line, "what": "a record with a %s field was accepted" % kind, "impl": ri[:200]})
        if len(samples) < 5 and kind == "ok" and sub:
            samples.append({"fields": len(perm), "order": list(perm), "omitted_nullable": list(sub), "form": form})
    # ---- natively: derived structs declared out of schema order with skip_serializing_if fields (harness/src/rt_fixed.rs run_skip),
    #      hand-written schema; expected = the bytes of the struct declared in schema order that presents every field
    nline = "rtskip %d %d" % (ctx["seed"], 40 if ctx["tier"] == "quick" else 2000)
    nat = C.run_lines(C.AVRODRIVE, [nline])
    r = nat[0] if nat else "(crash)"
    if r.startswith("(ok"):
        dist["native-derived-structs/out-of-order+skip_serializing_if"] = int(C.parse_sx(r)[0][1])
    else:
        pr_ = C.parse_sx(r)
        msg = C.unhex(pr_[0][1]).decode("utf-8", "replace") if pr_ and pr_[0][0] == "fail" else r
        violations.append({"impl_case": nline, "what": "a derived struct declared out of schema order whose None fields are skipped (skip_serializing_if) does not give the schema-order bytes: " + msg[:700]})
    return {"evaluations": len(lines) + len(hlines) + 1, "distinct_nontrivial": len(distinct),
            "rule": "record schemas (2..6 fields: nulls, unions with null, nested records, arrays/maps of records, logical types) x ALL permutations "
                    "of the presented fields (sampled beyond 4 fields) x subsets of omitted nullable fields x {struct, struct variant, map entries, "
                    "map key/value}; expected: exactly the specification's schema-order bytes (extracted spec_encode); duplicate, unknown and "
                    "missing-required injections must fail; never a panic; model vs crate on every case; a directed family of records with "
                    "mostly omittable fields (every omission subset x orders); the same presentations through short-writing sinks and "
                    "exact-size slices (same bytes) and too-small slices (Err); struct / struct-variant presentations with SerializeStruct::skip_field events "
                    "(what derive emits for #[serde(skip_serializing_if)]): declared order = every permutation (sampled beyond 4 fields) x every subset of skipped "
                    "null-holding fields, the event at the field's declared position; natively (rtskip): 8 derived structs + a struct variant declaring the fields of a "
                    "hand-written 6-field schema in different orders with 3 skip_serializing_if fields x every subset of None fields, fresh and reused configuration, "
                    "expected = the bytes of the in-schema-order struct presenting every field; two- and three-step histories on one configuration: a "
                    "presentation failing while fields are buffered, then presentations that must still give the schema-order bytes",
            "samples": samples, "violations": violations, "model_diffs": diffs, "distribution": dict(dist)}
