"""C04 -- decoding untrusted bytes is total and resource-bounded under the configured limits."""
import random
import common as C
import gen as G
import codec, targets

MODEL_TARGETS = ["model/De.vo", "model/Reader.vo"]
COQ_TARGETS = ["props/C04.vo", "proofs/ConstsTie.vo", "proofs/DeDispatchTie.vo"]
THEOREMS = [("C04", ["C04_nopanic", "C04_datum_nopanic", "C04_fuel_mono", "C04_total", "C04_work_bound", "C04_total_target", "C04_work_bound_target", "C04_total_any_node", "C04_inbound",
                     "C04_depth_zero", "C04_depth", "C04_seq", "C04_seq_block", "C04_alloc_reader", "C04_alloc_slice",
                     "C04_container_cap_invariant", "C04_container_cap_enforced_in_every_block", "C04_de_keeps_cap", "C04_bytes_over_cap"]),
            ("DeDispatchTie", ["tie_de_any", "tie_de_ignored", "tie_de_forward", "de_any_is_generated", "de_ignored_is_generated", "de_is_generated"])]
PROOF_FILES = ["proofs/DeSafetyProofs.v", "proofs/DeTotalProofs.v", "proofs/ReaderProofs.v", "proofs/DeProofs.v", "props/C04.v", "proofs/DeDispatchTie.v", "proofs/DeClosure.v", "proofs/ContainerLimitsProofs.v"]
TRUSTED_BASE = [
    "dispatch tie: translators/gen_dispatch.py (+ rustmatch.py) reads the arms of every deserialize_* method of DatumDeserializer into gen/GenDeDispatch.v; proofs/DeDispatchTie.v proves that model/De.v's de is the interpretation of those regenerated tables (the meaning of each action symbol, act_sem, is hand-written there)",
    "Coq 8.16.1 kernel; no axioms (Print Assumptions: closed)",
    "hand-written model/De.v, Reader.v, Varint.v of de/** and integer-encoding 4.1.0, with a Panic outcome at every expect/unwrap/index/unreachable site of the modelled code; tied by the correspondence run on hostile, malformed and random inputs",
    "fuel is the model's stand-in for running time and stack depth (explicit bound proved); the real stack usage per frame, the allocator and Vec growth are outside the model: every call on the crate runs under catch_unwind in a process whose death or timeout is a result, and a counting global allocator measures allocations",
    "extraction (ExtrOcamlBasic) + ocaml/driver.ml; Rust harness",
]
ASSUMPTIONS = [
    "well-behaved target: a Deserialize impl expressible as a dtarget program (hint calls + visitor callbacks); recursive Rust types are unfolded to the depth generated",
    "termination is proved for EVERY target program with an explicit bound (C04_total_target: (depth+1) * (max(max_seq_size, widest record) + 10 + 2 * target height) + input length); the outcome Unmodelled marks three places where the model does not follow the crate (counted by the run)",
    "max_seq_size < 2^64-1 (at usize::MAX the saturating element counter can no longer detect overflow: has_more_saturates)",
    "an ignoring consumer skips a block written with a negative count by its advertised byte size without counting its elements against max_seq_size (constant work, nothing delivered); the limit is enforced for every element that is decoded or produced",
    "memory: proved = slice reads are borrows and reader reads above the cap are rejected before allocating; measured on the crate = zero allocations on the slice path with an ignoring consumer, largest single allocation <= cap on the reader path",
]

CFGS = [(4, 0), (4, 1), (4, 2), (7, 3), (1000, 64), (1, 64), (0, 64)]

def hostile(rng, nodes):
    """byte strings aimed at the limits of the given schema: huge / negative / minimal counts and lengths, zero-byte
    elements, deep nesting, plus raw random bytes"""
    r = rng.random()
    big = [2**62, 2**63 - 1, -2**63, -2**62, 2**31, 2**32, 10**9, 10**9 + 1, 5, -5, 1, -1, 0]
    if r < 0.35:
        return b"".join(G.varint(rng.choice(big)) for _ in range(rng.randint(1, 4))) + G.rand_bytes(rng, rng.randint(0, 6))
    if r < 0.55:
        # many small blocks / zero bytes: counts that add up, terminators missing
        return b"".join(G.varint(rng.choice([1, 2, 3, 6, -1, -3])) + (G.varint(rng.choice([0, 1, 2, 200])) if rng.random() < 0.3 else b"")
                        for _ in range(rng.randint(1, 12))) + bytes(rng.choice([0, 2, 0xFF]) for _ in range(rng.randint(0, 8)))
    if r < 0.75:
        # deep nesting: repeated (count 1) / (branch k)
        unit = rng.choice([G.varint(1), G.varint(2), G.varint(1) + G.varint(1), G.varint(-1) + G.varint(1000)])
        return unit * rng.choice([1, 2, 3, 5, 65, 66, 200]) + bytes(rng.randint(0, 4))
    return G.rand_bytes(rng, rng.randint(0, 40))

def run(ctx):
    rng = random.Random(ctx["seed"] * 1000003 + 4)
    quick = ctx["tier"] == "quick"
    n = 500 if quick else 30000
    violations, diffs, samples, distinct = [], [], [], set()
    from collections import Counter
    dist = Counter()
    lines, meta = [], []
    # ---- 1. hostile and mutated inputs on random schemas, all consumers, both input modes, small limits
    for _ in range(n):
        nodes, v = G.schema_and_value(rng)
        sch = G.schema_sx(nodes)
        for _ in range(3):
            b = hostile(rng, nodes)
            tg = rng.choice(["any", "ignored", targets.typed(nodes, 0, rng=rng, subst=0.2, drop_fields=0.3)])
            ms, dp = rng.choice(CFGS)
            mode = rng.choice(["slice", "(chunks 1)", "(chunks %d)" % rng.randint(2, 9)])
            lines.append("de %s %s %s %s (cfg %d %d %d)" % (sch, tg, C.hx(b), mode, ms, dp, rng.choice([8, 64, 4096])))
            meta.append(("hostile", None))
    # ---- 2. the limits, exactly: k elements against max_seq_size k-1 / k, in one block and split over blocks (incl. negative counts)
    N = G.Node
    for k in [1, 2, 3, 7, 50]:
        for items, enc_item in ((N("int"), lambda i: G.varint(i)), (N("null"), lambda i: b"")):
            for split in ("one", "two", "neg", "ones"):
                body = b""
                if split == "one":
                    body = G.varint(k) + b"".join(enc_item(i) for i in range(k))
                elif split == "two" and k > 1:
                    a = k // 2
                    body = G.varint(a) + b"".join(enc_item(i) for i in range(a)) + G.varint(k - a) + b"".join(enc_item(i) for i in range(k - a))
                elif split == "neg":
                    payload = b"".join(enc_item(i) for i in range(k))
                    body = G.varint(-k) + G.varint(len(payload)) + payload
                else:
                    body = b"".join(G.varint(1) + enc_item(i) for i in range(k))
                body += G.varint(0)
                sch = G.schema_sx([N("array", items=1), items])
                for limit, want in ((k, "ok"), (k - 1, "err"), (k + 5, "ok")):
                    for tg in ("any", "ignored", "(seq any)"):
                        for mode in ("slice", "(chunks 1)"):
                            lines.append("de %s %s %s %s (cfg %d 8 4096)" % (sch, tg, C.hx(body), mode, limit))
                            # an ignoring consumer jumps over a byte-size-prefixed block without producing (or counting) its
                            # elements: constant work per block, nothing is delivered -- Ok is acceptable there
                            meta.append(("seq-limit-%s" % split, None if (tg == "ignored" and split == "neg" and want == "err") else want))
    # nesting depth d against allowed_depth d-1 / d  (arrays of arrays of int)
    for d in [1, 2, 3, 10, 64]:
        nodes = [N("array", items=i + 1) for i in range(d)] + [N("int")]
        body = G.varint(1) * d + G.varint(7) + G.varint(0) * d
        for budget, want in ((d, "ok"), (d - 1, "err"), (d + 1, "ok")):
            for tg in ("any", "ignored"):
                lines.append("de %s %s %s slice (cfg 100 %d 4096)" % (G.schema_sx(nodes), tg, C.hx(body), budget))
                meta.append(("depth-limit", want))
    # recursive schema, input nesting deeper than any budget: must be an error, never a stack overflow
    rec = [N("record", name="L", fields=[("next", 1)]), N("union", variants=[2, 0]), N("null")]
    for depth in (10, 70, 1000, 100000):
        body = G.varint(1) * depth + G.varint(0)
        for budget in (0, 3, 64):
            lines.append("de %s %s %s slice (cfg 100 %d 4096)" % (G.schema_sx(rec), rng.choice(["any", "ignored"]), C.hx(body), budget))
            meta.append(("recursive-depth", "ok" if 2 * depth + 1 <= budget else None))
    # allocation cap (reader input): a string of n bytes delivered one byte per refill against max_alloc_size n-1 / n
    for nlen in [2, 9, 100, 5000]:
        body = G.varint(nlen) + b"a" * nlen
        for cap, want in ((nlen, "ok"), (nlen - 1, "err")):
            for tg in ("any", "string", "str"):
                lines.append("de %s %s %s (chunks 1) (cfg 100 8 %d)" % (G.schema_sx([N("string")]), tg, C.hx(body), cap))
                meta.append(("alloc-cap", want if tg != "str" else None))
    impl, model = codec.both(lines)
    for line, ri, rm, (kind, want) in zip(lines, impl, model, meta):
        distinct.add(line)
        k = ri.split(" ")[0].strip("()")
        dist[kind + "/" + k] += 1
        if k not in ("ok", "err"):
            violations.append({"impl_case": line, "what": "deserialization of untrusted bytes did not return Ok or Err: %s" % ri[:160]})
            continue
        if rm.split(" ")[0].strip("()") in ("panic", "outoffuel"):
            diffs.append(codec.diff_entry(line, ri, rm))
        elif not C.same_outcome(ri, rm):
            diffs.append(codec.diff_entry(line, ri, rm))
        if want is not None and k != want:
            violations.append({"impl_case": line, "what": "%s: expected %s" % (kind, want), "impl": ri[:200]})
        if len(samples) < 6 and kind != "hostile":
            samples.append({"kind": kind, "case": line[:160], "outcome": k})
    # ---- 3. measured allocations (counting global allocator, ignoring consumer)
    alines, ameta = [], []
    for _ in range(n // 2):
        nodes, v = G.schema_and_value(rng)
        alines.append(("spec", nodes, v))
    sp = codec.spec_batch([(nodes, v) for _, nodes, v in alines])
    alines = []
    for s in sp:
        enc = C.unhex(s["enc"])
        alines.append("dealloc %s %s slice (cfg 1000000 64)" % (s["schema"], s["enc"])); ameta.append(("slice-valid", None))
        cap = rng.choice([16, 64, 4096])
        alines.append("dealloc %s %s (chunks %d) (cfg 1000000 64 %d)" % (s["schema"], s["enc"], rng.choice([1, 3, 8]), cap)); ameta.append(("reader-valid", cap))
        hb = hostile(rng, s["nodes"])
        alines.append("dealloc %s %s slice (cfg 50 8)" % (s["schema"], C.hx(hb))); ameta.append(("slice-hostile", None))
        alines.append("dealloc %s %s (chunks 2) (cfg 50 8 %d)" % (s["schema"], C.hx(hb), cap)); ameta.append(("reader-hostile", cap))
    for line, r, (kind, cap) in zip(alines, C.run_parallel(C.AVRODRIVE, alines), ameta):
        distinct.add(line)
        p = C.parse_sx(r)
        if not p or p[0][0] not in ("ok", "err"):
            violations.append({"impl_case": line, "what": "ignoring consumer did not return Ok or Err: %s" % r[:160]})
            continue
        p = p[0]
        nal, mx = (int(p[2]), int(p[3])) if p[0] == "ok" else (int(p[1]), int(p[2]))
        dist[kind + "/" + p[0]] += 1
        if kind.startswith("slice") and p[0] == "ok" and nal != 0:
            violations.append({"impl_case": line, "what": "the slice path allocated (%d allocations, largest %d) on success" % (nal, mx)})
        # (on the error path the largest allocation may be the error message itself)
        if cap is not None and mx > (max(cap, 32) if p[0] == "ok" else max(cap, 1024)):
            violations.append({"impl_case": line, "what": "reader path: a single allocation of %d bytes exceeds max_alloc_size %d" % (mx, cap)})
    return {"evaluations": len(lines) + len(alines), "distinct_nontrivial": len(distinct),
            "rule": "random schemas x hostile byte strings (huge / negative / i64::MIN counts and lengths, chains of small blocks, zero-byte elements, "
                    "nesting 1..200, random bytes) x dynamic, ignoring and typed consumers x slice and chunked readers x small limits: the crate must "
                    "return Ok or Err (panic, abort, timeout are results) and agree with the model; the limits exactly: k elements vs max_seq_size "
                    "k-1/k in one block, two blocks, negative-count block, one-element blocks, zero-byte items; nesting d vs budget d-1/d; recursive "
                    "schema nested 10..100000 deep; reader fields of n bytes vs max_alloc_size n-1/n; counting allocator: zero allocations on the "
                    "slice path on success, largest single allocation within the cap on the reader path",
            "samples": samples, "violations": violations, "model_diffs": diffs, "distribution": dict(dist)}
