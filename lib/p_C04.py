"""C04 -- decoding untrusted bytes is total and resource-bounded under the configured limits."""
import random
import common as C
import gen as G
import codec, targets

MODEL_TARGETS = ["model/De.vo", "model/Reader.vo"]
COQ_TARGETS = ["props/C04.vo", "proofs/ConstsTie.vo", "proofs/DeDispatchTie.vo"]
THEOREMS = [("C04", ["C04_nopanic", "C04_datum_nopanic", "C04_fuel_mono", "C04_total", "C04_work_bound", "C04_total_target", "C04_work_bound_target", "C04_total_any_node", "C04_inbound",
                     "C04_depth_zero", "C04_depth", "C04_seq", "C04_seq_block", "C04_alloc_reader", "C04_alloc_slice",
                     "C04_container_cap_invariant", "C04_container_cap_enforced_in_every_block", "C04_de_keeps_cap", "C04_bytes_over_cap"]),
            ("DeDispatchTie", ["tie_de_any", "tie_de_ignored", "tie_de_forward", "de_any_is_generated", "de_ignored_is_generated", "de_is_generated"])]
PROOF_FILES = ["proofs/DeSafetyProofs.v", "proofs/DeTotalProofs.v", "proofs/ReaderProofs.v", "proofs/DeProofs.v", "props/C04.v", "proofs/DeDispatchTie.v", "proofs/DeClosure.v", "proofs/ContainerLimitsProofs.v"]
TRUSTED_BASE = [
    "harness/src/discard.rs: a DeserializeSeed over the same target language as the recording consumer that throws every value away and allocates nothing itself (field / variant names are matched against names interned when the case is parsed): whatever the counting allocator sees during `dealloc ... TARGET` is allocated by the deserializer",
    "lib/ocf.py (Python): null-codec container files written by hand (header, blocks of hand-encoded strings / bytes / fixed / small records, arrays, maps, unions); harness `cr ... (alloc N)` sets ReaderRead::max_alloc_size on the chunked source and measures the largest allocation during deserialize_seed_next; expected items: the property's statement (a field larger than the cap that is not fully buffered => Err, everything before it Ok) and the container reader model (Container.v, same lines)",
    "dispatch tie: translators/gen_dispatch.py (+ rustmatch.py) reads the arms of every deserialize_* method of DatumDeserializer into gen/GenDeDispatch.v; proofs/DeDispatchTie.v proves that model/De.v's de is the interpretation of those regenerated tables (the meaning of each action symbol, act_sem, is hand-written there)",
    "Coq 8.16.1 kernel; no axioms (Print Assumptions: closed)",
    "hand-written model/De.v, Reader.v, Varint.v of de/** and integer-encoding 4.1.0, with a Panic outcome at every expect/unwrap/index/unreachable site of the modelled code; tied by the correspondence run on hostile, malformed and random inputs",
    "fuel is the model's stand-in for running time and stack depth (explicit bound proved); the real stack usage per frame, the allocator and Vec growth are outside the model: every call on the crate runs under catch_unwind in a process whose death or timeout is a result, and a counting global allocator measures allocations",
    "extraction (ExtrOcamlBasic) + ocaml/driver.ml; Rust harness",
]
ASSUMPTIONS = [
    "well-behaved target: a Deserialize impl expressible as a dtarget program (hint calls + visitor callbacks); recursive Rust types are unfolded to the depth generated",
    "termination is proved for EVERY target program with an explicit bound (C04_total_target: (depth+1) * (max(max_seq_size, widest record) + 10 + 2 * target height) + input length); the outcome Unmodelled marks three places where the model does not follow the crate (counted by the run)",
    "max_seq_size < 2^64-1 (at usize::MAX the saturating element counter can no longer detect overflow: has_more_saturates)",
    "an ignoring consumer skips a block written with a negative count by its advertised byte size without counting its elements against max_seq_size (constant work, nothing delivered); the limit is enforced for every element that is decoded or produced",
    "memory: proved = slice reads are borrows and reader reads above the cap are rejected before allocating; measured on the crate = zero allocations on the slice path with an ignoring consumer, largest single allocation <= cap on the reader path",
]

CFGS = [(4, 0), (4, 1), (4, 2), (7, 3), (1000, 64), (1, 64), (0, 64)]

def hostile(rng, nodes):
    """byte strings aimed at the limits of the given schema: huge / negative / minimal counts and lengths, zero-byte
    elements, deep nesting, plus raw random bytes"""
    r = rng.random()
    big = [2**62, 2**63 - 1, -2**63, -2**62, 2**31, 2**32, 10**9, 10**9 + 1, 5, -5, 1, -1, 0]
    if r < 0.35:
        return b"".join(G.varint(rng.choice(big)) for _ in range(rng.randint(1, 4))) + G.rand_bytes(rng, rng.randint(0, 6))
    if r < 0.55:
        # many small blocks / zero bytes: counts that add up, terminators missing
        return b"".join(G.varint(rng.choice([1, 2, 3, 6, -1, -3])) + (G.varint(rng.choice([0, 1, 2, 200])) if rng.random() < 0.3 else b"")
                        for _ in range(rng.randint(1, 12))) + bytes(rng.choice([0, 2, 0xFF]) for _ in range(rng.randint(0, 8)))
    if r < 0.75:
        # deep nesting: repeated (count 1) / (branch k)
        unit = rng.choice([G.varint(1), G.varint(2), G.varint(1) + G.varint(1), G.varint(-1) + G.varint(1000)])
        return unit * rng.choice([1, 2, 3, 5, 65, 66, 200]) + bytes(rng.randint(0, 4))
    return G.rand_bytes(rng, rng.randint(0, 40))

def overlong(rng, k=None, last=None):
    """a varint of k >= 10 continuation bytes followed by a final byte (or by nothing): no 64-bit value is written that way"""
    k = k if k is not None else rng.choice([10, 10, 11, 12, 15, 19, 20, 21, 40])
    fill = rng.choice([0x80, 0xFF, 0x81, None])
    body = bytes((fill if fill is not None else (0x80 | rng.randrange(128))) for _ in range(k))
    last = last if last is not None else rng.choice([b"\x00", b"\x01", b"\x7f", b""])
    return body + last

def varint_sites():
    """(label, nodes, bytes read before the varint, bytes that would follow it): every kind of place where the decoder reads a
    varint -- int / long values, string / bytes / decimal lengths, array and map block counts and byte sizes, union and
    enum indices -- at the root, after other record fields, and after k items of an array (so that the varint starts at
    any offset relative to the reader's refill boundaries)"""
    N = G.Node
    out = []
    for lab, node in (("int", N("int")), ("long", N("long")), ("string-len", N("string")), ("bytes-len", N("bytes")),
                      ("decimal-len", N("bytes", lt=("decimal", 2, 10))), ("enum-index", N("enum", name="E", symbols=["A", "B", "C"])),
                      ("date", N("int", lt="date")), ("uuid-len", N("string", lt="uuid"))):
        out.append((lab, [node], b"", b"abc"))
        out.append((lab + "-field", [N("record", name="R", fields=[("h", 1), ("x", 2), ("t", 3)]), N("string"), node, N("long")],
                    G.varint(4) + b"head", b"\x02"))
        for k in (1, 5, 9, 13):
            out.append((lab + "-item%d" % k, [N("record", name="R", fields=[("pre", 1), ("x", 3)]), N("array", items=2), N("boolean"), node],
                        G.varint(k) + b"\x01" * k + G.varint(0), b""))
    out.append(("array-count", [N("array", items=1), N("int")], b"", b"\x02\x00"))
    out.append(("array-2nd-count", [N("array", items=1), N("int")], G.varint(2) + b"\x02\x04", b"\x02\x00"))
    out.append(("array-byte-size", [N("array", items=1), N("int")], G.varint(-2), b"\x02\x04\x00"))
    out.append(("map-count", [N("map", values=1), N("int")], b"", b"\x02k\x02\x00"))
    out.append(("map-key-len", [N("map", values=1), N("int")], G.varint(1), b"k\x02\x00"))
    out.append(("map-byte-size", [N("map", values=1), N("int")], G.varint(-1), b"\x02k\x02\x00"))
    out.append(("union-index", [N("union", variants=[1, 2]), N("null"), N("long")], b"", b"\x02"))
    out.append(("union-index-field", [N("record", name="R", fields=[("h", 1), ("u", 2)]), N("bytes"), N("union", variants=[3, 4]), N("null"), N("string")],
                G.varint(7) + b"7 bytes", b"\x02a"))
    return out

def run(ctx):
    rng = random.Random(ctx["seed"] * 1000003 + 4)
    quick = ctx["tier"] == "quick"
    n = 500 if quick else 30000
    violations, diffs, samples, distinct = [], [], [], set()
    from collections import Counter
    dist = Counter()
    lines, meta = [], []
    # ---- 1. hostile and mutated inputs on random schemas, all consumers, both input modes, small limits
    for _ in range(n):
        nodes, v = G.schema_and_value(rng)
        sch = G.schema_sx(nodes)
        for _ in range(3):
            b = hostile(rng, nodes)
            tg = rng.choice(["any", "ignored", targets.typed(nodes, 0, rng=rng, subst=0.2, drop_fields=0.3)])
            ms, dp = rng.choice(CFGS)
            mode = rng.choice(["slice", "(chunks 1)", "(chunks %d)" % rng.randint(2, 9)])
            lines.append("de %s %s %s %s (cfg %d %d %d)" % (sch, tg, C.hx(b), mode, ms, dp, rng.choice([8, 64, 4096])))
            meta.append(("hostile", None))
    # ---- 2. the limits, exactly: k elements against max_seq_size k-1 / k, in one block and split over blocks (incl. negative counts)
    N = G.Node
    for k in [1, 2, 3, 7, 50]:
        for items, enc_item in ((N("int"), lambda i: G.varint(i)), (N("null"), lambda i: b"")):
            for split in ("one", "two", "neg", "ones"):
                body = b""
                if split == "one":
                    body = G.varint(k) + b"".join(enc_item(i) for i in range(k))
                elif split == "two" and k > 1:
                    a = k // 2
                    body = G.varint(a) + b"".join(enc_item(i) for i in range(a)) + G.varint(k - a) + b"".join(enc_item(i) for i in range(k - a))
                elif split == "neg":
                    payload = b"".join(enc_item(i) for i in range(k))
                    body = G.varint(-k) + G.varint(len(payload)) + payload
                else:
                    body = b"".join(G.varint(1) + enc_item(i) for i in range(k))
                body += G.varint(0)
                sch = G.schema_sx([N("array", items=1), items])
                for limit, want in ((k, "ok"), (k - 1, "err"), (k + 5, "ok")):
                    for tg in ("any", "ignored", "(seq any)"):
                        for mode in ("slice", "(chunks 1)"):
                            lines.append("de %s %s %s %s (cfg %d 8 4096)" % (sch, tg, C.hx(body), mode, limit))
                            # an ignoring consumer jumps over a byte-size-prefixed block without producing (or counting) its
                            # elements: constant work per block, nothing is delivered -- Ok is acceptable there
                            meta.append(("seq-limit-%s" % split, None if (tg == "ignored" and split == "neg" and want == "err") else want))
    # nesting depth d against allowed_depth d-1 / d  (arrays of arrays of int)
    for d in [1, 2, 3, 10, 64]:
        nodes = [N("array", items=i + 1) for i in range(d)] + [N("int")]
        body = G.varint(1) * d + G.varint(7) + G.varint(0) * d
        for budget, want in ((d, "ok"), (d - 1, "err"), (d + 1, "ok")):
            for tg in ("any", "ignored"):
                lines.append("de %s %s %s slice (cfg 100 %d 4096)" % (G.schema_sx(nodes), tg, C.hx(body), budget))
                meta.append(("depth-limit", want))
    # recursive schema, input nesting deeper than any budget: must be an error, never a stack overflow
    rec = [N("record", name="L", fields=[("next", 1)]), N("union", variants=[2, 0]), N("null")]
    for depth in (10, 70, 1000, 100000):
        body = G.varint(1) * depth + G.varint(0)
        for budget in (0, 3, 64):
            lines.append("de %s %s %s slice (cfg 100 %d 4096)" % (G.schema_sx(rec), rng.choice(["any", "ignored"]), C.hx(body), budget))
            meta.append(("recursive-depth", "ok" if 2 * depth + 1 <= budget else None))
    # allocation cap (reader input): a string of n bytes delivered one byte per refill against max_alloc_size n-1 / n
    for nlen in [2, 9, 100, 5000]:
        body = G.varint(nlen) + b"a" * nlen
        for cap, want in ((nlen, "ok"), (nlen - 1, "err")):
            for tg in ("any", "string", "str"):
                lines.append("de %s %s %s (chunks 1) (cfg 100 8 %d)" % (G.schema_sx([N("string")]), tg, C.hx(body), cap))
                meta.append(("alloc-cap", want if tg != "str" else None))
    # ---- 2b. over-long varints (10 and more continuation bytes) at every kind of varint site, through readers of EVERY small
    #      refill size and through readers whose refill boundary falls 1..9 bytes after the start of the varint (the reader's
    #      byte-by-byte fallback): an error, never a panic; the slice agrees
    for lab, nodes, pre, post in varint_sites():
        sch = G.schema_sx(nodes)
        reps = 2 if quick else 12
        for k, last in [(10, b"\x00"), (10, b"\x01"), (10, b""), (11, b"\x00"), (9, b"\x02"), (9, b"")] + [(None, None)] * reps:
            ov = overlong(rng, k, last)
            data = pre + ov + post
            o = len(pre)
            plans = ["slice"] + ["(chunks %d)" % c for c in range(1, 13)]
            plans += ["(chunks %d 64)" % (o + j) for j in range(1, 10)] + ["(chunks %d %d 64)" % (max(o, 1), j) for j in range(1, 10)]
            if quick:
                plans = plans[:1] + rng.sample(plans[1:13], 4) + rng.sample(plans[13:], 6)
            for tg in (["any", "ignored"] if quick else ["any", "ignored", targets.typed(nodes, 0)]):
                for pl in plans:
                    lines.append("de %s %s %s %s" % (sch, tg, C.hx(data), pl))
                    # 9 continuation bytes + a final byte is a legal (if padded) way of writing a number: decided by the model
                    meta.append(("overlong-varint-" + lab.split("-item")[0], "err" if len(ov) > 10 or (len(ov) == 10 and ov[-1] & 0x80) else None))
    # ---- 2b'. unions of 0 / 1 / 2 / 3 branches (legal, the small ones rare) under Option<_> targets -- the hint with its own branch
    #      lookup -- and the other consumers, every discriminant around the branch count, at the root / in a record / in an array:
    #      an index outside the schema is an error, never a fault
    small = [[N("union", variants=[])], [N("union", variants=[1]), N("string")], [N("union", variants=[1]), N("null")],
             [N("union", variants=[1]), N("long")], [N("union", variants=[1, 2]), N("null"), N("string")],
             [N("union", variants=[1, 2]), N("string"), N("null")], [N("union", variants=[1, 2, 3]), N("null"), N("long"), N("string")]]
    import wrap
    for u in small:
        nb = len(u[0].variants)
        forms = [("%s", u, b"", b""),
                 ("(struct x575f5f (x68 i32) (x75 %s) (x74 str))", [N("record", name="W__", fields=[("h", 1), ("u", 3), ("t", 2)]), N("int"), N("string")] + wrap.shift(u, 3), G.varint(7), b"\x02t"),
                 ("(seq %s)", [N("array", items=1)] + wrap.shift(u, 1), G.varint(1), b"\x00")]
        for d in (0, 1, 2, 3, -1, 63, 64, 2**40):
            for tgf, wn, pre, post in forms:
                for inner_t in ["any", "ignored", "(option any)", "(option ignored)", "(option str)", "(option string)", "(option i64)", "(option unit)",
                                "(option (enum x55 (unit x4e756c6c) (newtype x537472696e67 str) (newtype x4c6f6e67 i64)))"]:
                    for mode in (["slice"] if quick else ["slice", "(chunks 1)"]):
                        lines.append("de %s %s %s %s" % (G.schema_sx(wn), tgf % inner_t, C.hx(pre + G.varint(d) + rng.choice([b"", b"\x06abc", b"\x00"]) + post), mode))
                        meta.append(("small-union-%d-branches" % nb, "err" if not (0 <= d < nb) else None))
    impl, model = codec.both(lines)
    for line, ri, rm, (kind, want) in zip(lines, impl, model, meta):
        distinct.add(line)
        k = ri.split(" ")[0].strip("()")
        dist[kind + "/" + k] += 1
        if k == "budget":
            continue      # the harness' recording visitor gave up (> 2M recorded elements, within the configured limits): skipped, counted above
        if k not in ("ok", "err"):
            violations.append({"impl_case": line, "what": "deserialization of untrusted bytes did not return Ok or Err: %s" % ri[:160]})
            continue
        if rm.split(" ")[0].strip("()") in ("panic", "outoffuel"):
            diffs.append(codec.diff_entry(line, ri, rm))
        elif not C.same_outcome(ri, rm):
            diffs.append(codec.diff_entry(line, ri, rm))
        if want is not None and k != want:
            violations.append({"impl_case": line, "what": "%s: expected %s" % (kind, want), "impl": ri[:200]})
        if len(samples) < 6 and kind != "hostile":
            samples.append({"kind": kind, "case": line[:160], "outcome": k})
    # ---- 2c. the allocation cap through the container reader: files of several blocks read from a chunked source with a
    #      non-default max_alloc_size; a length-delimited / fixed field larger than the cap in block 1, 2 or 3 (the reader that
    #      is restricted to one block and turned back into the original afterwards must keep the cap), not fully buffered
    import ocf, cont
    clines, cmeta = [], []
    for cap0 in ([16, 100] if quick else [12, 16, 100, 1000, 5000]):
        fx = max(cap0, 40)
        for lab, js, nodes, enc1, var_len in ocf.SCHEMAS + [ocf.fixed_schema(fx), ocf.fixed_schema(fx + 1), ocf.fixed_schema(2 * fx + 3)]:
            # (the cap also applies to the header: the schema text must fit)
            cap = max(cap0, len(js))
            small = lambda: enc1(3, b"abc")
            fsize = None if var_len else nodes[1].size
            for at_block in (0, 1, 2):
                for n, hostile_len in ([(cap, None), (cap + 1, None), (2 * cap + 5, None), (3, 2**28), (3, 2**40)] if var_len else [(fsize, None)]):
                    blocks = [[small() for _ in range(rng.randint(1, 3))] for _ in range(3)]
                    body = bytes(0x61 + rng.randrange(26) for _ in range(n))
                    big = enc1(hostile_len if hostile_len is not None else n, body)
                    pos = rng.randint(0, len(blocks[at_block]))
                    blocks[at_block].insert(pos, big)
                    if hostile_len is not None:
                        # the file ends inside the field whose claimed length is huge
                        blocks = blocks[:at_block + 1]
                        blocks[at_block] = blocks[at_block][:pos + 1]
                        sync = bytes(range(0xA0, 0xB0))
                        data = b"".join(blocks[at_block])
                        f = ocf.header(js, sync) + b"".join(ocf.block(b, sync) for b in blocks[:at_block]) + \
                            G.varint(len(blocks[at_block])) + G.varint(hostile_len + 64) + data
                    else:
                        f = ocf.file(js, blocks)
                    before = sum(len(b) for b in blocks[:at_block]) + pos
                    total = sum(len(b) for b in blocks)
                    over = (hostile_len if hostile_len is not None else (n if var_len else fsize)) > cap
                    for mode in ["(chunks 1)", "(chunks %d)" % rng.choice([2, 3, 7])] + ([] if quick else ["(chunks 5 1 64 1)"]):
                        clines.append(("cr %s %s any %d" % (C.hx(f), mode, total + 3), G.schema_sx(nodes), "(alloc %d)" % cap))
                        cmeta.append((lab, cap, at_block, before, total, over, hostile_len is not None))
    cimpl = C.run_parallel(C.AVRODRIVE, ["%s %s" % (a, c) for a, b, c in clines])
    cmodel = C.run_parallel(C.AVROMODEL, ["%s %s %s" % (a, b, c) for a, b, c in clines])
    def items_of(r):
        p = cont.parse_cr(r)
        its = [it for it in p.get("items", []) if it[0] in ("ok", "err", "eof")]
        al = [int(it[0].split()[1].rstrip(")")) for it in p.get("items", []) if it[0].startswith("(allocs")]
        return p, its, (al[0] if al else None)
    for (a, b, c), ri, rm, (lab, cap, at_block, before, total, over, hostile_file) in zip(clines, cimpl, cmodel, cmeta):
        line = "%s %s" % (a, c)
        distinct.add(line)
        pi, its, largest = items_of(ri)
        pm, mits, _ = items_of(rm)
        kinds = [it[0] for it in its]
        dist["container-cap/%s/block%d/%s" % ("over" if over else "within", at_block, "err" if "err" in kinds else "ok")] += 1
        if "crash" in pi or pi.get("open_err"):
            violations.append({"impl_case": line[:3000], "what": "container reader with max_alloc_size %d: did not open / crashed" % cap, "impl": ri[:300]})
            continue
        cut = lambda ks: ks[:ks.index("err") + 1] if "err" in ks else ks
        if "(unmodelled)" not in rm and cut(kinds) != cut([it[0] for it in mits]):
            diffs.append({"impl_case": line[:3000], "model_case": ("%s %s %s" % (a, b, c))[:3000], "impl": ri[:400], "model": rm[:400]})
        want = ["ok"] * before + ["err"] if over else ["ok"] * total + ["eof", "eof"]
        if cut(kinds)[:len(want)] != want:
            violations.append({"impl_case": line[:3000], "what": "container reader (chunked source, max_alloc_size %d): a %s field %s the cap in block %d: "
                               "expected items %s" % (cap, lab, "larger than" if over else "within", at_block + 1, " ".join(want[-3:])), "impl": ri[:400]})
        elif largest is not None and largest > max(4 * cap, 4096):
            violations.append({"impl_case": line[:3000], "what": "container reader (max_alloc_size %d): a single allocation of %d bytes" % (cap, largest)})
    # ---- 3. measured allocations (counting global allocator, ignoring consumer)
    alines, ameta = [], []
    for _ in range(n // 2):
        nodes, v = G.schema_and_value(rng)
        alines.append(("spec", nodes, v))
    # every leaf kind (enums of 1 and several symbols among them) alone, in an array, as a record field, under a nullable union
    for lab, lnodes in G.leaf_kind_schemas():
        if lab.startswith("unknown-logical"):
            continue
        import wrap
        for wn in (lnodes, [G.Node("array", items=1)] + wrap.shift(lnodes, 1),
                   [G.Node("record", name="W__", fields=[("a", 1), ("x", 3), ("b", 2)]), G.Node("long"), G.Node("string")] + wrap.shift(lnodes, 3),
                   [G.Node("map", values=1), G.Node("union", variants=[2, 3]), G.Node("null")] + wrap.shift(lnodes, 3)):
            if lab == "null" and wn[0].t == "map":
                continue
            v = G.ValueGen(rng, wn).gen(0)
            if v is not None:
                alines.append(("spec", wn, v))
    sp = codec.spec_batch([(nodes, v) for _, nodes, v in alines])
    alines = []
    for s in sp:
        enc = C.unhex(s["enc"])
        alines.append("dealloc %s %s slice (cfg 1000000 64)" % (s["schema"], s["enc"])); ameta.append(("slice-valid", None))
        cap = rng.choice([16, 64, 4096])
        alines.append("dealloc %s %s (chunks %d) (cfg 1000000 64 %d)" % (s["schema"], s["enc"], rng.choice([1, 3, 8]), cap)); ameta.append(("reader-valid", cap))
        # the same through consumers that READ the value without allocating themselves (harness discard.rs): the ordinary Rust type
        # of the schema (enums decoded BY NAME into unit variants, unions by branch name, borrowed strings / bytes), the
        # dynamic consumer, Option<enum> positions, and the typed target with every Avro enum taken as an `identifier` / `str`
        tgs = [s["ttarget"], "any"] + ([s["otarget"]] if s["otarget"] != s["ttarget"] else [])
        for tg in tgs:
            alines.append("dealloc %s %s slice (cfg 1000000 64) %s" % (s["schema"], s["enc"], tg)); ameta.append(("slice-valid-read", None))
        hb = hostile(rng, s["nodes"])
        alines.append("dealloc %s %s slice (cfg 50 8)" % (s["schema"], C.hx(hb))); ameta.append(("slice-hostile", None))
        alines.append("dealloc %s %s (chunks 2) (cfg 50 8 %d)" % (s["schema"], C.hx(hb), cap)); ameta.append(("reader-hostile", cap))
    for line, r, (kind, cap) in zip(alines, C.run_parallel(C.AVRODRIVE, alines), ameta):
        distinct.add(line)
        p = C.parse_sx(r)
        if not p or p[0][0] not in ("ok", "err"):
            violations.append({"impl_case": line, "what": "ignoring consumer did not return Ok or Err: %s" % r[:160]})
            continue
        p = p[0]
        nal, mx = (int(p[2]), int(p[3])) if p[0] == "ok" else (int(p[1]), int(p[2]))
        dist[kind + "/" + p[0]] += 1
        if kind.startswith("slice") and p[0] == "ok" and nal != 0:
            violations.append({"impl_case": line, "what": "the slice path allocated (%d allocations, largest %d) on success%s" % (
                nal, mx, " (value read by a consumer that does not allocate: harness discard.rs)" if kind == "slice-valid-read" else "")})
        # (on the error path the largest allocation may be the error message itself)
        if cap is not None and mx > (max(cap, 32) if p[0] == "ok" else max(cap, 1024)):
            violations.append({"impl_case": line, "what": "reader path: a single allocation of %d bytes exceeds max_alloc_size %d" % (mx, cap)})
    return {"evaluations": len(lines) + len(alines) + len(clines), "distinct_nontrivial": len(distinct),
            "rule": "random schemas x hostile byte strings (huge / negative / i64::MIN counts and lengths, chains of small blocks, zero-byte elements, "
                    "nesting 1..200, random bytes) x dynamic, ignoring and typed consumers x slice and chunked readers x small limits: the crate must "
                    "return Ok or Err (panic, abort, timeout are results) and agree with the model; the limits exactly: k elements vs max_seq_size "
                    "k-1/k in one block, two blocks, negative-count block, one-element blocks, zero-byte items; nesting d vs budget d-1/d; recursive "
                    "schema nested 10..100000 deep; reader fields of n bytes vs max_alloc_size n-1/n; over-long varints (10..40 continuation bytes) at every "
                    "kind of varint site (values, lengths, counts, byte sizes, indices; root / record field / after k array items) x refill sizes "
                    "1..12 and refill boundaries 1..9 bytes into the varint: Err, never a panic; container files of three blocks read from a "
                    "chunked source with max_alloc_size 16..5000: a string / bytes / fixed field (in records, arrays, maps, unions) within / above "
                    "the cap in block 1, 2 or 3, and truncated files claiming a 2^28 / 2^40-byte field: items ok up to the field, then Err, largest "
                    "single allocation bounded by the cap, same items as the container model; counting allocator: zero allocations on the "
                    "slice path on success -- under IgnoredAny AND under consumers that read the value without allocating themselves (harness "
                    "discard.rs: the schema's ordinary Rust type with enums decoded by name into unit variants, the dynamic consumer, Option<enum>; "
                    "random schemas and every leaf kind alone / in an array / record / map of nullable) --, largest single allocation within the cap on the reader path",
            "samples": samples, "violations": violations, "model_diffs": diffs, "distribution": dict(dist)}
