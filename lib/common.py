"""Shared machinery of ./check: regeneration, Coq build, assumptions audit,
extraction, harness build, batch running of model and implementation,
evidence writing."""
import fcntl, hashlib, json, os, random, re, subprocess, sys, time

VERIF = os.path.dirname(os.path.dirname(os.path.abspath(__file__)))
REPO = os.environ.get("VERIF_REPO", "/repo")
COQ = os.path.join(VERIF, "coq")
WORK = os.path.join(VERIF, "work")
HARNESS = os.path.join(VERIF, "harness")
AVRODRIVE = os.path.join(HARNESS, "target", "release", "avrodrive")
AVROMODEL = os.path.join(VERIF, "ocaml", "avromodel")

ALLOWED_AXIOMS = set()  # none are needed so far; every axiom printed is reported

def log(msg):
    print("[check] " + msg, flush=True)

class Lock:
    def __enter__(self):
        os.makedirs(WORK, exist_ok=True)
        self.f = open(os.path.join(WORK, ".lock"), "w")
        fcntl.flock(self.f, fcntl.LOCK_EX)
        return self
    def __exit__(self, *a):
        fcntl.flock(self.f, fcntl.LOCK_UN)
        self.f.close()

def sh(cmd, cwd=None, timeout=1800, env=None, inp=None):
    e = dict(os.environ)
    e.update({"CARGO_NET_OFFLINE": "true"})
    if env:
        e.update(env)
    p = subprocess.run(cmd, cwd=cwd, shell=isinstance(cmd, str), capture_output=True, text=True,
                       timeout=timeout, env=e, input=inp)
    return p.returncode, p.stdout, p.stderr

# ---------------------------------------------------------------- translators
TRANSLATORS = [
    ("gen_rabin.py", "GenRabin.v"),
    ("gen_union.py", "GenUnionTable.v"),
    ("gen_consts.py", "GenConsts.v"),
    ("gen_dispatch.py", "GenDeDispatch.v"),
    ("gen_ser_dispatch.py", "GenSerDispatch.v"),
]

def regenerate():
    """Regenerates coq/gen/*.v from /repo's working tree. Returns list of broken translators."""
    broken = []
    os.makedirs(os.path.join(COQ, "gen"), exist_ok=True)
    for script, out in TRANSLATORS:
        rc, so, se = sh([sys.executable, os.path.join(VERIF, "translators", script), REPO,
                         os.path.join(COQ, "gen", out)])
        if rc != 0:
            broken.append((script, (so + se).strip()))
    return broken

# ---------------------------------------------------------------- Coq
def coq_makefile():
    mk = os.path.join(COQ, "Makefile")
    cp = os.path.join(COQ, "_CoqProject")
    if not os.path.exists(mk) or os.path.getmtime(mk) < os.path.getmtime(cp):
        rc, so, se = sh("coq_makefile -f _CoqProject -o Makefile", cwd=COQ)
        if rc != 0:
            raise RuntimeError("coq_makefile failed: " + se)

def coq_build(targets, timeout=3000):
    """Full .vo build of the closure of the targets. Returns (ok, output)."""
    coq_makefile()
    rc, so, se = sh(["timeout", str(timeout), "make", "-j16"] + targets, cwd=COQ, timeout=timeout + 60)
    return rc == 0, so + se

FORBIDDEN = re.compile(r"\b(Admitted|admit|Axiom|Axioms|Parameter|Parameters|Conjecture|Hypothesis|Variable)\b|Unset\s+Guard|bypass_check|type-in-type|impredicative-set|Admit\s+Obligations")

def audit_sources():
    """No Admitted/admit/Axiom/Parameter/Conjecture, no Variable/Hypothesis outside a
    Section, no disabled checks anywhere in coq/. Returns list of offending lines."""
    bad = []
    for root, _, files in os.walk(COQ):
        for f in files:
            if not f.endswith(".v"):
                continue
            path = os.path.join(root, f)
            depth = 0
            txt = open(path).read()
            # strip comments (nested)
            out, i, lvl = [], 0, 0
            while i < len(txt):
                if txt.startswith("(*", i):
                    lvl += 1; i += 2
                elif txt.startswith("*)", i) and lvl > 0:
                    lvl -= 1; i += 2
                else:
                    if lvl == 0:
                        out.append(txt[i])
                    elif txt[i] == "\n":
                        out.append("\n")
                    i += 1
            for ln, line in enumerate("".join(out).split("\n"), 1):
                if re.match(r"\s*Section\b", line):
                    depth += 1
                if re.match(r"\s*End\b", line) and depth > 0:
                    depth -= 1
                m = FORBIDDEN.search(line)
                if m:
                    w = m.group(0)
                    if w in ("Variable", "Hypothesis") and depth > 0:
                        continue
                    bad.append("%s:%d: %s" % (os.path.relpath(path, VERIF), ln, line.strip()))
    return bad

def print_assumptions(module, theorems):
    """Runs Print Assumptions for each theorem; returns {thm: 'closed' | [axioms]} and raw output."""
    os.makedirs(WORK, exist_ok=True)
    path = os.path.join(WORK, "Assum_%s.v" % module)
    with open(path, "w") as f:
        f.write("Require Import %s.\n" % module)
        for t in theorems:
            f.write('Goal True. idtac "@@@ %s". Abort.\nPrint Assumptions %s.\n' % (t, t))
    rc, so, se = sh(["timeout", "600", "coqc", "-R", COQ, "Avro", "-noglob", path], cwd=WORK)
    res = {}
    if rc != 0:
        return None, so + se
    cur = None
    for line in so.split("\n"):
        if line.startswith("@@@ "):
            cur = line[4:].strip()
            res[cur] = []
        elif cur is not None and line.strip():
            if "Closed under the global context" in line:
                res[cur] = "closed"
            elif line.startswith("Axioms:") or line.startswith("Fetching"):
                continue
            elif res[cur] != "closed":
                res[cur].append(line.strip())
    for ext in (".vo", ".vos", ".vok", ".glob"):
        try:
            os.remove(path[:-2] + ext)
        except OSError:
            pass
    return res, so

def coqchk(module):
    """Re-checks the compiled property module and everything it depends on with the independent checker;
    returns (ok, summary text). Thorough tier only (takes a minute or more)."""
    rc, so, se = sh(["timeout", "3000", "coqchk", "-o", "-silent", "-R", COQ, "Avro", "Avro.props." + module], cwd=COQ, timeout=3100)
    out = so + se
    i = out.find("CONTEXT SUMMARY")
    summary = out[i:] if i >= 0 else out[-1500:]
    ok = rc == 0 and "Axioms: <none>" in summary and "type-in-type: <none>" in summary \
        and "unsafe (co)fixpoints: <none>" in summary and "positivity is assumed: <none>" in summary
    return ok, " ".join(summary.split())

def sha256_file(path):
    return hashlib.sha256(open(path, "rb").read()).hexdigest()

def check_pin(pid):
    pins = json.load(open(os.path.join(COQ, "props", "PINS.json")))
    path = os.path.join(COQ, "props", pid + ".v")
    return pins.get(pid) == sha256_file(path), pins.get(pid), sha256_file(path)

def count_obligations(files):
    """Counts Theorem/Lemma/Corollary/Example statements and Qed/Defined in the given .v files."""
    stated = proved = 0
    for f in files:
        txt = open(os.path.join(COQ, f)).read()
        stated += len(re.findall(r"^\s*(?:Theorem|Lemma|Corollary|Example|Fact|Remark|Proposition)\b", txt, re.M))
        proved += len(re.findall(r"\b(?:Qed|Defined)\.", txt))
    return stated, proved

# ---------------------------------------------------------------- builds
def build_model():
    """Extraction + OCaml driver (after the Coq build)."""
    rc, so, se = sh(["bash", os.path.join(VERIF, "ocaml", "build.sh")], timeout=900)
    if rc != 0 or not os.path.exists(AVROMODEL):
        return False, so + se
    return True, so + se

def model_stale():
    if not os.path.exists(AVROMODEL):
        return True
    t = os.path.getmtime(AVROMODEL)
    for root, _, files in os.walk(COQ):
        for f in files:
            if f.endswith(".vo") and ("/model" in root or "/spec" in root or "/gen" in root):
                if os.path.getmtime(os.path.join(root, f)) > t:
                    return True
    for f in ("driver.ml", "build.sh"):
        if os.path.getmtime(os.path.join(VERIF, "ocaml", f)) > t:
            return True
    if os.path.getmtime(os.path.join(COQ, "extract", "Extract.v")) > t:
        return True
    return False

def build_harness():
    lock = os.path.join(HARNESS, "Cargo.lock")
    src = os.path.join(REPO, "Cargo.lock")
    if os.path.exists(src):
        if not os.path.exists(lock) or open(lock).read() != open(src).read():
            # keep any entries cargo added for the harness itself: simply start from the repo's lock
            open(lock, "w").write(open(src).read())
    rc, so, se = sh(["cargo", "build", "--release", "--offline"], cwd=HARNESS, timeout=1800)
    return rc == 0, so + se

# ---------------------------------------------------------------- running cases
def run_lines(exe, lines, timeout=600, restart_on_crash=True):
    """Feeds one case per line; returns one result per line. If the process dies at case k the
    result is '(crash SIG)' and the run resumes at k+1."""
    results = []
    i = 0
    n = len(lines)
    while i < n:
        chunk = lines[i:]
        p = subprocess.Popen([exe], stdin=subprocess.PIPE, stdout=subprocess.PIPE, stderr=subprocess.DEVNULL,
                             text=True)
        try:
            out, _ = p.communicate("\n".join(chunk) + "\n", timeout=timeout)
            rc = p.returncode
        except subprocess.TimeoutExpired:
            p.kill()
            out, _ = p.communicate()
            rc = "timeout"
        got = out.split("\n")
        if got and got[-1] == "":
            got.pop()
        results.extend(got[:len(chunk)])
        i += len(got[:len(chunk)])
        if i < n:
            if not restart_on_crash:
                raise RuntimeError("%s died at case %d (rc=%s)" % (exe, i, rc))
            results.append("(crash %s)" % rc)
            i += 1
    return results

def run_parallel(exe, lines, jobs=16, timeout=900):
    """Shards the lines over several processes (order preserved)."""
    if len(lines) < 64:
        return run_lines(exe, lines, timeout)
    from concurrent.futures import ThreadPoolExecutor
    k = min(jobs, max(1, len(lines) // 32))
    size = (len(lines) + k - 1) // k
    shards = [lines[i:i + size] for i in range(0, len(lines), size)]
    with ThreadPoolExecutor(max_workers=k) as ex:
        outs = list(ex.map(lambda s: run_lines(exe, s, timeout), shards))
    res = []
    for o in outs:
        res.extend(o)
    return res

# ---------------------------------------------------------------- sexp helpers (python side)
def hx(b):
    if isinstance(b, str):
        b = b.encode()
    return "x" + bytes(b).hex()

def unhex(a):
    assert a.startswith("x"), a
    return bytes.fromhex(a[1:])

def parse_sx(s):
    """-> nested lists of str"""
    toks = re.findall(r"\(|\)|[^\s()]+", s)
    stack = [[]]
    for t in toks:
        if t == "(":
            stack.append([])
        elif t == ")":
            l = stack.pop()
            stack[-1].append(l)
        else:
            stack[-1].append(t)
    return stack[0]

def show_sx(x):
    if isinstance(x, list):
        return "(" + " ".join(show_sx(y) for y in x) + ")"
    return str(x)

def canon_impl(res):
    """Canonical form of an implementation result line: drop messages."""
    if res.startswith("(err "):
        p = parse_sx(res)[0]
        if len(p) >= 3 and p[1] in ("io", "data"):
            return "(err %s)" % p[1]
        return "(err)"
    if res.startswith("(panic"):
        return "(panic)"
    return res

def canon_model(res):
    if res.startswith("(err"):
        return res
    return res

def same_outcome(impl, model, err_classes=False):
    a, b = canon_impl(impl), canon_model(model)
    if a == "(budget)":
        return True     # the harness' recording visitor gave up (more than 2M recorded elements): skipped
    if b == "(unmodelled)":
        return True     # outside the modelled domain: skipped (and counted by the callers)
    if a.startswith("(err") and b.startswith("(err"):
        if err_classes and a != "(err)" and b != "(err)":
            return a == b
        return True
    return a == b

# ---------------------------------------------------------------- evidence
def write_evidence(pid, tier, seed, coverage, wall, violations, assumptions, level="proof"):
    os.makedirs(os.path.join(VERIF, "evidence"), exist_ok=True)
    ev = {
        "property_id": pid,
        "tier": tier,
        "seed": seed,
        "level": level,
        "coverage": coverage,
        "assumptions": assumptions,
        "wall_s": round(wall, 2),
        "violations": violations,
    }
    path = os.path.join(VERIF, "evidence", pid + ".json")
    with open(path, "w") as f:
        json.dump(ev, f, indent=1, sort_keys=True)
        f.write("\n")
    return path

def known_findings():
    p = os.path.join(VERIF, "known_findings.json")
    if not os.path.exists(p):
        return {"known": [], "fixed": []}
    return json.load(open(p))
