"""C02 -- encoder soundness: Ok means spec-exact bytes; unrepresentable values fail."""
import random
import common as C
import gen as G
import codec, cells
from present import Presenter

MODEL_TARGETS = ["model/Ser.vo", "spec/Denote.vo"]
COQ_TARGETS = ["props/C02.vo", "proofs/SerDispatchTie.vo"]
THEOREMS = [("C02", ["C02_canonical", "C02_to_datum", "C02_sound", "C02_sound_node", "C02_denotes", "C02_denotes_present", "C02_nopanic", "C02_unnamed_never_union", "C02_named_selects_branch", "C02_decimal_string",
                     "C02_int_range", "C02_long_range", "C02_enum_index", "C02_enum_symbol", "C02_fixed_length", "C02_duration_length",
                     "C02_string_utf8", "C02_decimal_fixed_fit"]),
            ("SerDispatchTie", ["tie_ser_bool", "tie_ser_integer", "tie_ser_f32", "tie_ser_f64", "tie_ser_str", "tie_ser_bytes", "tie_ser_unit", "tie_ser_unit_struct", "tie_ser_unit_variant", "tie_ser_seq", "tie_ser_map", "tie_ser_forward_names", "tie_ser_simple_forwards", "ser_int_leaf_is_rows", "ser_str_leaf_is_rows", "ser_bytes_leaf_is_rows"])]
PROOF_FILES = ["proofs/SerProofs.v", "proofs/SerLeafProofs.v", "props/C02.v", "proofs/SerSoundProofs.v", "proofs/SerSoundDecimal.v", "proofs/SerSoundBytes.v", "proofs/RecordProofs.v", "proofs/SerContractProofs.v", "proofs/SerSafetyProofs.v", "proofs/DenotesDefs.v", "proofs/SerDenotesProofs.v", "proofs/SerDispatchTie.v"]
TRUSTED_BASE = [
    "dispatch tie: translators/gen_ser_dispatch.py (+ rustmatch.py) reads the arms of the serialize_* methods of DatumSerializer into gen/GenSerDispatch.v; proofs/SerDispatchTie.v ties them to the rows of model/Ser.v (leaf functions proved to be the interpretation of the rows on non-union nodes; 2 arms unclassified: the Decimal arm of serialize_integer and the Union arm of serialize_unit_variant)",
    "Coq 8.16.1 kernel; no axioms (Print Assumptions: closed)",
    "translators/gen_union.py: the union lookup priorities, registered names and the closures' code shape are regenerated / pinned from union_variants_per_type_lookup.rs on every run; theorems about the table are re-proved against it",
    "hand-written model/Ser.v tied by the correspondence run: the full (serde call x node kind) cell matrix with boundary values, all pairs of node kinds as unions, random presentations",
    "spec/{AvroValue,Encoding,Denote}.v from the Avro specification (extracted: expected bytes and decode-back oracle)",
]
ASSUMPTIONS = [
    "proved: exactness for the canonical presentation of every conforming value; SOUNDNESS for every accepted presentation (C02_sound: all 22 Serializer entry points x all node kinds: Ok implies a valid encoding of a conforming value); table facts; leaf rejections. Side conditions: the presentation is constructible from safe Rust (UTF-8 str, scalar char, serde's key/value alternation) and the schema keeps fixed decimals within the documented 16 bytes (a 17-byte fixed decimal presented as a string is written although the crate's decoder stops at 16: C02_sound_statement_refuted)",
    "functional correctness is proved (C02_denotes): the bytes encode A VALUE THE PRESENTATION DENOTES, with `denotes` (proofs/DenotesDefs.v) written from the serde data model and the Avro specification; under a union a type-directed presentation may denote values in several branches (the relation is many-valued there: which one is the crate's suitability rule; ties are rejected: C02_unnamed / ambiguous-union oracle); the two documented lossy readings (decimal strings rounded half away from zero, f64 narrowed to float) are separate constructors",
    "rust_decimal: FromStr on the canonical grammar, rescale (half away from zero on the first dropped digit), 96-bit mantissa; f64 -> decimal and f64 -> f32 narrowing are outside the model (counted as unmodelled)",
    "decimal strings with more fractional digits than the schema scale are rounded by rust_decimal::rescale (documented by the crate as intended); such presentations are not generated as 'value-preserving'",
]

def run(ctx):
    rng = random.Random(ctx["seed"] * 1000003 + 2)
    quick = ctx["tier"] == "quick"
    violations, diffs, samples, distinct = [], [], [], set()
    from collections import Counter
    dist = Counter()
    # ---- 1. cell matrix
    singles = cells.single_schemas()
    svs = cells.svals()
    lines, meta, schemas = [], [], []
    for kind, nodes in singles.items():
        for sv in svs:
            lines.append("ser %s %s slow" % (G.schema_sx(nodes), sv)); meta.append(("cell", kind)); schemas.append(G.schema_sx(nodes))
            ou = G.schema_sx(cells.union_of([G.Node("null")], nodes))
            lines.append("ser %s %s" % (ou, sv)); meta.append(("cell-option", kind)); schemas.append(ou)
    kinds = list(singles)
    pairs = [(a, b) for a in kinds for b in kinds if a != b]
    if quick:
        pairs = rng.sample(pairs, 60)
    for a, b in pairs:
        u = G.schema_sx(cells.union_of(singles[a], singles[b], extra_null=rng.random() < 0.3))
        for sv in (rng.sample(svs, 40) if quick else svs):
            lines.append("ser %s %s slow" % (u, sv)); meta.append(("cell-union", a + "|" + b)); schemas.append(u)
    # ---- 1b. type-directed union choice with several equally suitable branches must fail: unions of 2..4 branches that the
    #          specification gives no way to prefer (same base type, all logical / all plain of one class; several records and
    #          maps for a struct-or-map presentation), presented by type only
    import itertools
    N = G.Node
    long_class = [N("long"), N("long", lt="time-micros"), N("long", lt="timestamp-millis"), N("long", lt="timestamp-micros")]
    int_class = [N("int"), N("int", lt="date"), N("int", lt="time-millis")]
    ambiguous = []
    for cls, fits in ((long_class, ["(i64 5)", "(u64 5)", "(i128 5)", "(u128 5)", "(some (i64 -7))", "(i64 9223372036854775807)"]),
                      (int_class, ["(i32 5)", "(i16 5)", "(u8 5)", "(i8 -5)", "(u16 5)", "(some (i32 -7))"])):
        for k in (2, 3, 4):
            for combo in itertools.combinations(cls, k):
                for extra in ([], [N("null")], [N("string")]):
                    nodes = [N("union", variants=list(range(1, 1 + len(combo) + len(extra))))] + list(combo) + extra
                    for sv in fits:
                        ambiguous.append((G.schema_sx(nodes), sv))
    recs = [N("record", name="A%d" % i, fields=[("x", 0)]) for i in range(3)]
    for k in (2, 3):
        for with_map in (False, True):
            br = recs[:k] + ([N("map", values=0)] if with_map else [])
            nodes = [N("int"), N("union", variants=list(range(2, 2 + len(br))))] + br
            nodes = [nodes[1], nodes[0]] + nodes[2:]          # root = the union; node 1 = int
            for b in nodes[2:]:
                if b.t == "record":
                    b.fields = [("x", 1)]
                else:
                    b.values = 1
            for sv in ["(map none (entry (str %s) (i32 1)))" % C.hx("x"), "(map 1 (entry (str %s) (i32 1)))" % C.hx("x"),
                       "(struct %s 1 (%s (i32 1)))" % (C.hx("Other"), C.hx("x")), "(some (struct %s 1 (%s (i32 1))))" % (C.hx("Other"), C.hx("x"))]:
                ambiguous.append((G.schema_sx(nodes), sv))
    amb_idx = set()
    for sch, sv in ambiguous:
        amb_idx.add(len(lines))
        lines.append("ser %s %s" % (sch, sv)); meta.append(("ambiguous-union", "")); schemas.append(sch)
    # ---- 2. random presentations of conforming values, with deliberate breakages
    import directed as D
    nrand = 2500 if quick else 120000
    rp = [G.schema_and_value(rng, layouts=False) for _ in range(nrand)]
    # (names colliding with those the union lookup registers: at random and as a directed family)
    rp += [G.schema_and_value(rng, layouts=False, special_names=0.35) for _ in range(nrand // 5)]
    for _ in range(200 if quick else 6000):
        nodes = D.name_clash_case(rng)
        v = G.ValueGen(rng, nodes, layouts=False).gen(0)
        if v is not None:
            rp.append((nodes, v))
    sp = codec.spec_batch(rp)
    rand_meta = {}
    for s in sp:
        pr = Presenter(rng, s["nodes"], break_prob=0.08, option_prob=0.3)
        sv = pr.pres(0, C.parse_sx(s["evalue"])[0])
        rand_meta[len(lines)] = (pr.expect, pr.notes, s)
        lines.append("ser %s %s%s" % (s["schema"], sv, " slow" if pr.needs_slow else "")); meta.append(("random-" + pr.expect, "")); schemas.append(s["schema"])
    # ---- 3. records: a field presented twice at every pair of positions of the presentation (both occurrences ahead of the
    #         field the serializer waits for, one written and one buffered, both late ...), in the struct / map forms: Err
    nrec = 24 if quick else 800
    recs = []
    for _ in range(nrec):
        nodes = D.nullable_record_case(rng, nfields=rng.choice([3, 4, 5]))
        v = D.value_with_nulls(rng, nodes, tries=2)
        if v is not None:
            recs.append((nodes, v))
    dup_idx = {}
    for s in codec.spec_batch(recs):
        rc = D.RecCase(rng, s)
        for line, what in rc.duplicate_lines(5 if quick else 12):
            dup_idx[len(lines)] = what
            lines.append(line); meta.append(("duplicate-field", "")); schemas.append(s["schema"])
    # ---- 4. decimals over bytes and over fixed of every size 0..40 (beyond the 16 bytes of the mantissa buffer the number is
    #         sign-extended), boundary and negative values, as strings (the rust_decimal path) and integers: if Ok, the bytes
    #         are those of the extracted specification
    dcases = D.decimal_cases(rng, 500 if quick else 20000)
    dspec = codec.spec_batch([(nodes, v) for nodes, v, _ in dcases])
    dec_idx = {}
    for (nodes, v, pres), s in zip(dcases, dspec):
        for sv, keeps in pres:
            dec_idx[len(lines)] = s
            lines.append("ser %s %s" % (s["schema"], sv)); meta.append(("decimal", "")); schemas.append(s["schema"])
    impl, model = codec.both(lines)
    de_lines, de_idx = [], []
    unmodelled = 0
    for i, (line, ri, rm, (kind, what)) in enumerate(zip(lines, impl, model, meta)):
        distinct.add(line)
        dist[kind + "/" + ri[:3].strip("(")] += 1
        if rm == "(unmodelled)":
            unmodelled += 1
        if not C.same_outcome(ri, rm):
            diffs.append(codec.diff_entry(line, ri, rm))
        if ri.startswith("(panic") or ri.startswith("(crash"):
            violations.append({"impl_case": line, "what": "the serializer panicked", "impl": ri[:200]})
        if i in dup_idx and ri.startswith("(ok"):
            violations.append({"impl_case": line, "what": "a record with a duplicated field was accepted: " + dup_idx[i], "impl": ri[:200]})
        if i in dec_idx:
            if ri.startswith("(ok") and ri != "(ok %s)" % dec_idx[i]["enc"]:
                violations.append({"impl_case": line, "what": "decimal: Ok with bytes that are not the two's-complement big-endian encoding of the number",
                                   "impl": ri[:200], "expected": dec_idx[i]["enc"][:200]})
            continue        # (the crate's decoder stops at 16-byte decimals: no decode-back for this family)
        if ri.startswith("(ok"):
            de_lines.append("de %s any %s slice (cfg 100000 64 100000)" % (schemas[i], C.parse_sx(ri)[0][1])); de_idx.append(i)
        if i in amb_idx and ri.startswith("(ok"):
            violations.append({"impl_case": line, "what": "a type-directed union choice with several equally suitable branches was accepted", "impl": ri[:200]})
        if i in rand_meta:
            ex, notes, s = rand_meta[i]
            if ex == "err" and ri.startswith("(ok"):
                violations.append({"impl_case": line, "what": "an unrepresentable value was accepted (%s)" % ", ".join(notes), "impl": ri[:200]})
            if ex == "value" and not ri.startswith("(ok"):
                violations.append({"impl_case": line, "what": "an accepted presentation of a conforming value was rejected", "impl": ri[:300]})
    dres = C.run_parallel(C.AVRODRIVE, de_lines)
    for dl, dr, i in zip(de_lines, dres, de_idx):
        if not dr.startswith("(ok") or not dr.endswith(" 0)"):
            violations.append({"impl_case": lines[i], "what": "Ok was returned after writing bytes that do not decode (or leave data)",
                               "bytes": impl[i][:200], "decode": dr[:300]})
        elif i in rand_meta:
            ex, notes, s = rand_meta[i]
            if ex in ("value", "value-if-ok") and G.erase_borrow_text(dr) != "(ok %s 0)" % s["dany"]:
                violations.append({"impl_case": lines[i], "what": "the bytes written decode to a different value", "decode": dr[:300],
                                   "expected": s["dany"][:300]})
    samples = [{"case": l[:160]} for l in rng.sample(lines, 5)]
    return {"evaluations": len(lines) + len(de_lines), "distinct_nontrivial": len(distinct),
            "rule": "(1) the whole cell matrix: 23 node kinds (alone, under [null,X], and pairwise under unions) x ~%d serde calls with boundary "
                    "values (every integer width at the i8..i128 boundaries, strings/bytes of special content, every compound form incl. "
                    "ill-advertised lengths and protocol variants): model = crate, and every Ok is decoded back by the crate; (2) random "
                    "presentations of conforming values with injected breakages: breakages must fail, preserved values must succeed and decode "
                    "to the value the extracted specification assigns (incl. unions of null and one branch presented by type as Option<T> does, "
                    "names colliding with the union lookup's); (3) records of 3..5 fields with a field presented twice at every pair of "
                    "positions x orders x struct/map forms: must fail; (4) decimals over bytes / fixed of every size 0..40 x boundary and "
                    "negative values as strings and integers: Ok only with the specification's bytes" % len(svs),
            "samples": samples, "violations": violations, "model_diffs": diffs, "distribution": dict(dist),
            "notes": "%d cases outside the modelled domain (f64->decimal, decimal strings outside the canonical grammar)" % unmodelled}
