"""C09 -- schema JSON: preserved when parsed, regenerated equivalently when built/edited."""
import random
import common as C
import gen as G

MODEL_TARGETS = ["model/SchemaJson.vo", "model/Parse.vo", "model/JsonRead.vo", "proofs/JsonReadSchema.vo", "model/CanonicalForm.vo"]
COQ_TARGETS = ["props/C09.vo"]
THEOREMS = [("C09", ["C09_regen", "C09_unnamed_cycle_rejected", "C09_renders_when_wf", "C09_edge_ref", "C09_edge_def", "C09_regen_text_roundtrip", "C09_regen_text_full_names_roundtrip", "C09_text_whitespace_insensitive", "C09_json_text_roundtrip", "C09_regen_text_graph_bound", "C09_document_depth_bound", "C09_no_linear_depth_bound"])]
PROOF_FILES = ["proofs/SchemaTextProofs.v", "proofs/SchemaJsonDefs.v", "proofs/SchemaJsonGuard.v", "proofs/SchemaJsonCfOk.v", "proofs/SchemaJsonRaw.v",
               "proofs/SchemaJsonCf.v", "proofs/SchemaJsonSim.v", "proofs/SchemaJsonProofs.v", "proofs/JsonReadProofs.v", "proofs/JsonReadSchema.v", "proofs/JsonReadDepth.v", "props/C09.v"]
TRUSTED_BASE = [
    "Coq 8.16.1 kernel; no axioms (Print Assumptions: closed)",
    "hand-written models SchemaJson.v (serialize.rs: named node written once then by reference, namespace-relative spelling, generation-counter cycle guard), Parse.v, CanonicalForm.v tied by the correspondence run (JSON text, re-parsed node kinds / logical types / fingerprint, model vs crate)",
    "the JSON text <-> document step is in the model: model/JsonRead.v (reader, hand-written from serde_json's de.rs / read.rs) and Json.json_text (compact printer); the text theorems "
    "(C09_regen_text_roundtrip, C09_json_text_roundtrip, C09_text_whitespace_insensitive) are about them; both are tied to serde_json by the runs: every regenerated text is re-parsed by crate "
    "and model (same node vector, canonical form, fingerprint, reported JSON), every parsed document reaches the model as the TEXT the crate gets (reader tie on hostile texts: C19)",
    "parsed documents: the generator's AST and Python's json module only cross-check the model's reading of the text (a disagreement is a model difference); docgen.serde_num (how serde_json "
    "prints the number it read from a token; applied to the number tokens of the model's compact text, the model keeps tokens as written) and docgen.json_string / to_text (independent compact "
    "printer, cross-checked with the extracted Json.json_text on every document) are Python-side",
]
ASSUMPTIONS = [
    "proved: for every well-formed graph (distinct valid fullnames, keys in range, no unnamed-only cycle, no unconditional record cycle) the regenerated document parses back to a graph with the same canonical form, fingerprint and depth-n unfoldings for every n (names, field order, symbols, sizes, logical types with parameters), including shared and cyclic named types in any namespace arrangement; unnamed-only cycles are errors (C09_unnamed_cycle_rejected)",
    "'parsed, unedited schema reports the original document minified' is storage of the caller's text through serde_transcode: decided on the crate: "
    "Schema::json() (SchemaMut::from_str + freeze) and the avro.schema entry of a written container file header (text.parse::<Schema>(), read back by "
    "the extracted reference parser) = the compact print of the document, text for text, against two oracles: the model's Json.json_text (extracted) of "
    "the document the model's reader (JsonRead.json_of_text) read from the same text, and an independent Python printer (docgen.minified) of the generator's AST; strings in every JSON spelling, every free position of a document",
    "numbers: serde_json re-prints the VALUE of a number token, not the token (1e0 -> 1.0, -0 -> -0.0, 1.50 -> 1.5, integers past u64 / i64 and other "
    "tokens are read as f64: 18446744073709551616 -> 1.8446744073709552e+19): 'the original document' is taken up to that re-printing, "
    "specified Python-side by docgen.serde_num (not covered by the Coq model, whose reader keeps the number token as written); the "
    "generated tokens stay in the range where serde_json's default float reader is exact (<= 15 significant digits, |decimal exponent| <= 22, plus "
    "fixed boundary tokens): outside of it the crate's reported number can differ from the document's in the last digit (1.5e-300 is reported as "
    "1.4999999999999998e-300: serde_json without the float_roundtrip feature)",
]

def logical_multiset(nodes_sx, reach=None):
    out = []
    for i, x in enumerate(nodes_sx[1:]):
        if reach is not None and i not in reach:
            continue
        t = x[1][0] if isinstance(x[1], list) else x[1]
        out.append(t + "|" + C.show_sx(x[2]))
    return sorted(set(out))      # shared unnamed nodes are unfolded by the document: compare as sets

def valid_names(nodes, reach):
    """fullnames of the reachable named nodes are distinct, non-empty identifiers that the parser's name handling can spell"""
    names = [nodes[k].name for k in reach if nodes[k].t in ("record", "enum", "fixed")]
    return len(set(names)) == len(names)

def parsed_documents(ctx, rng, violations, diffs, samples, dist, distinct):
    """'for a parsed, unedited schema the JSON it reports is the original document, minified, every key preserved': valid documents in
    every spelling (DocGen: namespaces, forward references, member order) whose free positions -- doc, aliases, default values, custom
    attributes with nested values, on schemas and on fields -- hold strings that are delicate to copy at the text level (ending in
    backslashes, escaped quotes, control characters, non-ASCII, JSON punctuation, whitespace) in any of their JSON spellings
    (short escapes, \\u escapes in both hex cases, surrogate pairs, \\/) and numbers in non-canonical spellings, plus the directed family
    (every free position x every ending). Observed: Schema::json() through SchemaMut::from_str + freeze, and the avro.schema entry of
    the header of a container file written with text.parse::<Schema>() (read back by the extracted reference parser FileSpec.ref_parse).
    Expected: text equality with (1) D.minified = the compact print of the document's AST (strings: Json.v's json_string, numbers:
    D.serde_num) and (2) the model's Json.json_text of the same AST."""
    import docgen as D, cont, p_C19
    n = 500 if ctx["tier"] == "quick" else 20000
    docs = []
    for label, doc in D.string_position_docs():
        docs.append(("directed/" + label.split("/")[0], doc))
    while len(docs) < n + len(D.STRING_POSITIONS) * len(D.STRING_ENDINGS):
        r = rng.random()
        if r < 0.5:
            nodes = D.NameGraphGen(rng, logical=rng.random() < 0.3).build()
        else:
            nodes = G.SchemaGen(rng, max_nodes=rng.choice([1, 3, 8, 16]), max_depth=rng.choice([2, 4]),
                                namespaces=rng.choice([("",), ("a", "a.b", "c"), ("", "a", "a.b")]), ref_prob=0.4).build()
        for attempt in range(4):
            dg = D.DocGen(rng, nodes, forward=rng.choice([0.0, 0.0, 0.5]), extras=rng.choice([0.5, 0.9]), rich=rng.choice([0.5, 0.9, 1.0]), loose=True)
            try:
                doc = dg.gen(0, None)
            except D.Unspellable:
                continue
            if set(dg.occ) == dg.defined:
                docs.append(("generated", doc))
                break
    texts = []
    for label, doc in docs:
        t = D.to_text(doc, rng)
        # self-check of the generator: the text denotes the document (Python's JSON reader, number tokens and duplicate keys kept)
        if p_C19.text_to_ast(t) != doc:
            raise AssertionError("docgen.to_text wrote a text that does not read back as the document: %r" % t[:300])
        texts.append(t)
    plines = ["parse " + C.hx(t) for t in texts]
    # the model reads the SAME text with its own reader (JsonRead.json_of_text) and prints the document it read (Json.json_text, number
    # tokens as written); Python's AST of the document is a cross-check of that reading only
    import jsontext as JT
    mlines = ["parse (text %s)" % C.hx(t) for t in texts]
    diffs.extend(JT.ast_cross_check(texts, [doc for _, doc in docs], "C09 parsed documents"))
    clines = ["cw (json %s) null 4096 %s vec (meta)" % (C.hx(t), C.hx(cont.SYNC)) for t in texts]
    pimpl = C.run_parallel(C.AVRODRIVE, plines)
    pmodel = C.run_parallel(C.AVROMODEL, mlines)
    cimpl = C.run_parallel(C.AVRODRIVE, clines)
    files, fidx = [], []
    for i, rc in enumerate(cimpl):
        pc = cont.parse_cw(rc) if rc.startswith("(ok") else None
        if pc is not None and not pc.get("build_err"):
            files.append("fileparse " + C.hx(pc["sink"]))
            fidx.append(i)
    fmodel = dict(zip(fidx, C.run_parallel(C.AVROMODEL, files)))
    for i, ((label, doc), t, line, mline, ri, rm) in enumerate(zip(docs, texts, plines, mlines, pimpl, pmodel)):
        distinct.add(line)
        pi, pm = C.parse_sx(ri)[0], C.parse_sx(rm)[0]
        want = D.minified(doc)
        dist["parsed/" + label + "/" + pi[0]] += 1
        if pi[0] in ("crash", "panic", "bad-case"):
            violations.append({"impl_case": line, "what": "parsing a document did not return Ok or Err: %s" % ri[:100], "document": t[:800]})
            continue
        if pi[0] != "ok":
            if pm[0] == "ok":
                diffs.append({"impl_case": line, "model_case": mline, "impl": ri[:300], "model": rm[:300]})
            continue
        got = C.unhex(pi[4]).decode("utf-8", "replace")
        if got != want:
            violations.append({"impl_case": line, "what": "the JSON reported by a parsed, unedited schema (SchemaMut::from_str, freeze, Schema::json) "
                               "is not the original document minified", "document": t[:800], "got": got[:800], "expected": want[:800]})
        if pm[0] != "ok" or JT.norm_hex(pm[4]) != pi[4]:
            diffs.append({"impl_case": line, "model_case": mline, "impl": ri[:600], "model": rm[:600],
                          "what": "reported JSON / outcome of a parsed document: model (Json.json_text of the document JsonRead.json_of_text read from "
                                  "the text, number tokens re-printed by docgen.serde_num) vs crate"})
        elif pm[4] != C.hx(D.to_text(doc)):
            diffs.append({"impl_case": line, "model_case": mline, "impl": C.hx(D.to_text(doc)), "model": rm[:600],
                          "what": "the model's compact print (Json.json_text) of the document it read differs from the independent Python printer (docgen.to_text / json_string)"})
        rf = fmodel.get(i)
        hdr = None
        if rf is not None:
            pf = cont.parse_fileparse(rf)
            if pf is not None:
                hdr = dict(pf["meta"]).get(b"avro.schema")
        if hdr is None:
            violations.append({"impl_case": clines[i], "what": "no container file header (with an avro.schema entry) could be written with a schema "
                               "parsed from a valid document: %s" % cimpl[i][:120], "document": t[:800]})
        elif hdr.decode("utf-8", "replace") != want:
            violations.append({"impl_case": clines[i], "what": "the schema embedded in the container file header (text.parse::<Schema>(), "
                               "WriterBuilder::build) is not the original document minified", "document": t[:800],
                               "got": hdr.decode("utf-8", "replace")[:800], "expected": want[:800]})
        if len(samples) < 8 and label == "generated" and "\\\\\"" in want:
            samples.append({"document": t[:300], "reported": got[:300]})
    return len(plines) + len(clines)

def deep_graph(n, m):
    """m chained arrays, then a union of n records, each with one field pointing back to node 0"""
    nodes = [G.Node("array", items=i + 1) for i in range(m)]
    nodes.append(G.Node("union", variants=[m + 1 + i for i in range(n)]))
    for i in range(n):
        nodes.append(G.Node("record", name="R%d" % i, fields=[("f", 0)]))
    return nodes

def json_nesting(text):
    """maximal nesting of [ and { outside strings"""
    d = best = 0
    ins = esc = False
    for ch in text:
        if ins:
            if esc:
                esc = False
            elif ch == "\\":
                esc = True
            elif ch == '"':
                ins = False
        elif ch == '"':
            ins = True
        elif ch in "[{":
            d += 1
            best = max(best, d)
        elif ch in "]}":
            d -= 1
    return best

def run(ctx):
    rng = random.Random(ctx["seed"] * 1000003 + 9)
    n = 900 if ctx["tier"] == "quick" else 40000
    graphs = []
    import docgen as D
    for _ in range(n):
        r = rng.random()
        if rng.random() < 0.12:
            # node vectors only the builder API / the derive produce: ONE unnamed node (union / array / map) referenced from several
            # places, in particular from outside a recursive record and from inside it (re-entered after a named record started)
            nodes = D.shared_wrapper_graph(rng)
            if rng.random() < 0.4:
                nodes = D.permute(rng, nodes)
        elif r < 0.4:
            # named types over several namespaces (same simple names), every (parent namespace, child namespace, already written)
            # arrangement, each named type referenced several times through different containers; stored in any order; with or
            # without an additional cycle through containers on which named types are met again every round
            nodes = D.NameGraphGen(rng, logical=rng.random() < 0.3).build()
            if rng.random() < 0.45:
                nodes = D.with_cycle(rng, nodes)
            if rng.random() < 0.6:
                nodes = D.permute(rng, nodes)
        elif r < 0.7:
            nodes = G.SchemaGen(rng, max_nodes=rng.choice([3, 8, 16]), max_depth=rng.choice([2, 4]),
                                namespaces=rng.choice([("",), ("a", "a.b", "c"), ("", "a", "a.b")]), ref_prob=0.4).build()
        else:
            nodes = G.GraphGen(rng, logical=0.2).build()
        graphs.append(nodes)
    # shared chains of unnamed nodes are written out again under every named type that leads back to them: the regenerated document of
    # a small graph can be deeper than serde_json's recursion limit (JsonReadDepth.nineteen_nodes_too_deep: 8 chained arrays, a union of
    # 10 records each pointing back to the head: 19 nodes, document depth 129). The 17-node member must re-parse; the 19-node one is
    # known finding KF4 while it does not.
    for (kn, km) in ((8, 8), (10, 8)):
        graphs.append(deep_graph(kn, km))
    lines = ["freeze " + G.schema_sx(g) for g in graphs]
    impl = C.run_parallel(C.AVRODRIVE, lines)
    model = C.run_parallel(C.AVROMODEL, lines)
    violations, diffs, samples, distinct = [], [], [], set()
    from collections import Counter
    dist = Counter()
    # the regenerator ALONE (impl Serialize for SchemaMut; freeze only reaches it after the fingerprint pass has accepted the graph, so an
    # inexpressible graph never gets that far through freeze): serde_json::to_string(&SchemaMut) on every graph, in a writer limited to
    # 4 MiB; a graph with a cycle through unnamed nodes only must be an error (C09_unnamed_cycle_rejected), everything else = the model's text
    jlines = ["tojson " + G.schema_sx(g) for g in graphs]
    jimpl = C.run_parallel(C.AVRODRIVE, jlines)
    jmodel = C.run_parallel(C.AVROMODEL, jlines)
    for g, line, ri, rm in zip(graphs, jlines, jimpl, jmodel):
        k = ri.split(" ")[0].strip("()")
        dist["tojson/" + k] += 1
        if k not in ("ok", "err"):
            violations.append({"impl_case": line, "what": "rendering a built graph as JSON (serde_json::to_string(&SchemaMut)) did not return Ok or Err: "
                               "%s (unbounded = more than 4 MiB written)" % ri[:60], "model": rm[:120]})
        elif k == "ok" and G.graph_class(g)["unnamed_cycle"]:
            violations.append({"impl_case": line, "what": "a graph with a cycle through unnamed types only was rendered as JSON by serde_json::to_string(&SchemaMut)"})
        elif not C.same_outcome(ri, rm):
            diffs.append({"impl_case": line, "model_case": line, "impl": ri[:500], "model": rm[:500]})
    re_lines, re_meta = [], []
    for g, line, ri, rm in zip(graphs, lines, impl, model):
        cls = G.graph_class(g)
        pi = C.parse_sx(ri)[0] if ri.startswith("(") else ["crash"]
        if not C.same_outcome(ri, rm) :
            diffs.append({"impl_case": line, "model_case": line, "impl": ri[:500], "model": rm[:500]})
        distinct.add(line)
        if pi[0] in ("crash", "panic"):
            violations.append({"impl_case": line, "what": "freeze crashed or panicked", "impl": ri[:200]})
            continue
        if cls["unnamed_cycle"]:
            dist["unnamed-cycle"] += 1
            if pi[0] == "ok":
                violations.append({"impl_case": line, "what": "a graph with a cycle through unnamed types only was rendered as JSON"})
            continue
        if pi[0] != "ok":
            dist["rejected"] += 1
            # a structurally well-formed graph (theorem C09_renders_when_wf: non-empty, every key of every node in range, no logical
            # type on a union, no cycle through unnamed nodes) must be rendered and frozen
            def kids(x):
                return [x.items] if x.t == "array" else [x.values] if x.t == "map" else list(x.variants) if x.t == "union" else \
                       [fk for _, fk in x.fields] if x.t == "record" else []
            all_in_range = all(k < len(g) for x in g for k in kids(x))
            if g and all_in_range and not any(x.t == "union" and x.lt for x in g):
                # unnamed cycle anywhere (also in unreachable nodes)?
                unnamed = lambda x: x.t in ("array", "map", "union")
                color = {}
                def dfs(k):
                    color[k] = 1
                    for c2 in kids(g[k]):
                        if not unnamed(g[c2]):
                            continue
                        if color.get(c2) == 1 or (color.get(c2) is None and dfs(c2)):
                            return True
                    color[k] = 2
                    return False
                if not any(unnamed(g[k]) and color.get(k) is None and dfs(k) for k in range(len(g))):
                    violations.append({"impl_case": line, "what": "a structurally well-formed built graph was rejected", "impl": ri[:300]})
            continue
        if not valid_names(g, cls["reachable"]) or cls["record_cycle"]:
            dist["ok/not-required (duplicate names or self-containing records)"] += 1
            continue
        dist["ok"] += 1
        re_lines.append("parse " + pi[2])
        re_meta.append((line, pi, g, cls))
    rep = C.run_parallel(C.AVRODRIVE, re_lines)
    # the regenerated TEXT read back by the model as well (C09_regen_text_roundtrip is a statement about JsonRead.json_of_text on that
    # text): same outcome, node vector, canonical form and fingerprint as the crate's re-parse
    repm = C.run_parallel(C.AVROMODEL, ["parse (text %s)" % m[1][2] for m in re_meta])
    again = []
    for res, resm, rl, (line, pi, g, cls) in zip(rep, repm, re_lines, re_meta):
        pr = C.parse_sx(res)[0]
        prm = C.parse_sx(resm)[0]
        if pr[0] in ("ok", "err", "freeze-err") and ((pr[0] == "ok") != (prm[0] == "ok") or
                (pr[0] == "ok" and (C.show_sx(pr[1]) != C.show_sx(prm[1]) or pr[2] != prm[2] or pr[3] != prm[3] or pr[4] != prm[4]))):
            diffs.append({"impl_case": rl, "model_case": "parse (text %s)" % pi[2], "impl": res[:500], "model": resm[:500],
                          "what": "re-parse of a regenerated document: model (text reader + parser) vs crate"})
        doc = C.unhex(pi[2]).decode("utf-8", "replace")
        if pr[0] != "ok":
            # names that are not spellable in a document (empty, leading/trailing/double dots, or equal to a type name) are outside the
            # property ("distinct fullnames" are assumed to be names); everything else must re-parse
            names = [g[k].name for k in cls["reachable"] if g[k].t in ("record", "enum", "fixed")]
            if all(nm and not nm.startswith(".") and not nm.endswith(".") and ".." not in nm and
                   nm not in G.PRIMS + ["array", "map", "record", "enum", "fixed"] for nm in names):
                v = {"impl_case": line, "what": "the regenerated JSON does not parse back", "json": doc[:600], "impl": res[:300]}
                if json_nesting(doc) > 128:
                    v["class"] = "regenerated-json-deeper-than-128"
                    v["what"] += " (the document nests %d levels: beyond serde_json's recursion limit of 128)" % json_nesting(doc)
                violations.append(v)
            continue
        if pr[3] != pi[1]:
            violations.append({"impl_case": line, "what": "the regenerated JSON parses to a schema with a different fingerprint", "json": doc[:600]})
        orig = C.parse_sx(line[len("freeze "):])[0]
        if logical_multiset(orig, cls["reachable"]) != logical_multiset(pr[1]):
            # logical annotations that do not apply (e.g. date on long) must still be carried
            violations.append({"impl_case": line, "what": "logical types / node kinds of the re-parsed schema differ", "json": doc[:600]})
        if len(samples) < 5:
            samples.append({"json": doc[:300]})
    n_parsed = parsed_documents(ctx, rng, violations, diffs, samples, dist, distinct)
    return {"evaluations": len(lines) + len(jlines) + 2 * len(re_lines) + n_parsed, "distinct_nontrivial": len(distinct),
            "rule": "node graphs built through the API: name-rule graphs (colliding simple names over several namespaces incl. null-namespace records "
                    "inside namespaces, named types referenced several times through different containers, nodes stored in any order, optional "
                    "extra cycle through containers / records that passes named types every round), valid schemas with heavy sharing and three namespace arrangements, and arbitrary node "
                    "vectors (random keys: DAG sharing of unnamed nodes, cycles through named and unnamed nodes, logical annotations on any base "
                    "type); freeze -> JSON -> parse: same fingerprint, same node kinds and logical types; unnamed-only cycles must fail, through freeze and through "
                    "the regenerator alone (serde_json::to_string(&SchemaMut), bounded writer, each call in a process whose death is a result); "
                    "model (SchemaJson.schema_json + fingerprint) vs crate text for text; PARSED documents: valid documents in every spelling with, in every "
                    "free position (doc, aliases, defaults, custom attributes -- nested values, on schemas and fields), strings ending in backslashes / escaped quotes / "
                    "control and non-ASCII characters / whitespace in every JSON spelling and numbers in non-canonical spellings, plus every (free position x ending) "
                    "directed document: Schema::json() and the avro.schema header entry of a written container file = the document minified (text equality; "
                    "model's json_text and an independent printer)",
            "samples": samples, "violations": violations, "model_diffs": diffs, "distribution": dict(dist)}
