"""C05, compression part: the encode loops of writer/compression.rs (hook H3) against the model
coq/model/CodecLoop.v, validation of the library contract `stream_contract` on the real traces,
snappy framing. Used by p_C05.run."""
import resource, subprocess, zlib
from concurrent.futures import ThreadPoolExecutor
import common as C
import gen as G
import cont

LOOP_CODECS = ["deflate", "bzip2", "xz"]
STARTS = [1, 2, 64, 4096, 32768]
ST_NAMES = {0: "Ok", 1: "BufError", 2: "StreamEnd", 3: "FlushOk", 4: "RunOk", 5: "FinishOk", 6: "MemNeeded", 7: "GetCheck"}
ST_END = 2
# the libraries' documented "called with Finish, not finished yet" statuses (CodecLoop.more_of)
LIB_MORE = {"deflate": {0}, "bzip2": {5, 6}, "xz": {0, 6}}
# the clauses of CodecLoop.stream_contract_valid (what C05_loop_returns_valid_stream assumes of a library)
CLAUSES = ["wc_start", "wc_no_error", "wc_window", "wc_input", "wc_bound", "wc_end", "wc_more", "wc_progress"]
# further clauses, validated and reported but not required: sc_prefix = the stream is a function of the input (the stronger
# contract stream_contract of C05_loop_returns_full_stream), fills_window (logarithmic bound), StreamEnd exactly when complete
EXTRA_CLAUSES = ["sc_prefix", "fills_window", "end_iff_complete"]

def obound(n):
    """the output bound validated for all three libraries (CodecLoop `obound`)"""
    return n + n // 8 + 1024

# ---------------------------------------------------------------- payloads
WORDS = [b"avro", b"block", b"codec", b"deflate", b"stream", b"buffer", b"schema", b"record", b"union", b"fixed",
         b"sync", b"marker", b"header", b"long", b"bytes", b"string", b"map", b"array", b"enum", b"null"]

def payload(rng, kind, n):
    if n <= 0:
        return b""
    if kind == "rand":
        return rng.randbytes(n)
    if kind == "zero":
        return bytes([rng.randrange(3)]) * n
    out = bytearray()
    while len(out) < n:
        out += rng.choice(WORDS) + (b" " if rng.random() < 0.8 else bytes([rng.randrange(256)]))
    return bytes(out[:n])

def sizes_around(start):
    s = set()
    for k in (1, 2, 4):
        for d in (-1, 0, 1):
            if k * start + d > 1:
                s.add(k * start + d)
    return sorted(s)

def levels_for(codec, start, tier):
    if tier != "quick":
        return ["default"] + [str(i) for i in range(1, 10)]
    if start <= 64:
        return ["default", "1", "9"]
    return ["default", "1"] if codec != "xz" else ["default", "3"]

def make_cases(rng, tier):
    """-> list of (codec, level, start, [payload bytes], tag)"""
    cases = []
    for codec in LOOP_CODECS:
        for start in STARTS:
            for level in levels_for(codec, start, tier):
                # single blocks on a fresh codec state: the buffer starts at START
                cases.append((codec, level, start, [b""], "empty"))
                cases.append((codec, level, start, [bytes([rng.randrange(256)])], "one-byte"))
                for n in sizes_around(start):
                    for kind in ("rand", "zero", "text"):
                        # compressible payloads are scaled so that their compressed form also gets near START
                        m = n if kind == "rand" else n * (3 if kind == "text" else 1)
                        if kind == "zero" and start >= 4096 and n not in (start, 4 * start):
                            continue
                        cases.append((codec, level, start, [payload(rng, kind, m)], "%s~%d" % (kind, n)))
                # sequences of blocks on ONE codec state: the buffer is reused (big then small, empty, growing again)
                big = payload(rng, "rand", 4 * start + 3)
                seqs = [
                    [big, bytes([7]), b"", payload(rng, "text", start), payload(rng, "rand", 8 * start + 1) if start <= 4096 else payload(rng, "rand", 4 * start + 5)],
                    [b"", b"", payload(rng, "rand", 2 * start), payload(rng, "zero", 2 * start), big, payload(rng, "rand", 1)],
                ]
                for sq in seqs:
                    cases.append((codec, level, start, sq, "sequence"))
    return cases

def impl_line(case):
    codec, level, start, inputs, _ = case
    return "codecloop %s %s %d %s" % (codec, level, start, " ".join(C.hx(b) for b in inputs))

# ---------------------------------------------------------------- running the model with a deep stack
def _deep_stack():
    try:
        soft, hard = resource.getrlimit(resource.RLIMIT_STACK)
        want = 4 << 30
        if hard != resource.RLIM_INFINITY:
            want = min(want, hard)
        resource.setrlimit(resource.RLIMIT_STACK, (want, hard))
    except Exception:
        pass

def _run_model_shard(lines):
    res = []
    i = 0
    while i < len(lines):
        p = subprocess.Popen([C.AVROMODEL], stdin=subprocess.PIPE, stdout=subprocess.PIPE, stderr=subprocess.DEVNULL,
                             text=True, preexec_fn=_deep_stack)
        try:
            out, _ = p.communicate("\n".join(lines[i:]) + "\n", timeout=1800)
        except subprocess.TimeoutExpired:
            p.kill()
            out, _ = p.communicate()
        got = out.split("\n")
        if got and got[-1] == "":
            got.pop()
        got = got[:len(lines) - i]
        res.extend(got)
        i += len(got)
        if i < len(lines):
            res.append("(crash)")
            i += 1
    return res

def run_model(lines, jobs=8):
    """the extracted model recurses along the buffers (lists of up to 2^18 bytes): it gets a large stack"""
    if not lines:
        return []
    k = min(jobs, max(1, len(lines) // 8))
    size = (len(lines) + k - 1) // k
    shards = [lines[i:i + size] for i in range(0, len(lines), size)]
    with ThreadPoolExecutor(max_workers=k) as ex:
        outs = list(ex.map(_run_model_shard, shards))
    return [r for o in outs for r in o]

# ---------------------------------------------------------------- parsing
def parse_impl(res):
    """-> list of blocks: dict(res, msg, trace=[(inlen, free, status, consumed, ptotal)], block, ref, dec) or None"""
    p = C.parse_sx(res)
    if not p or not isinstance(p[0], list) or p[0][0] != "ok":
        return None
    out = []
    for b in p[0][1:]:
        r = b[1]
        msg = None
        if isinstance(r, list):
            msg = C.unhex(r[1]).decode("utf-8", "replace") if len(r) > 1 and r[0] == "err" else C.show_sx(r)
            r = r[0]
        tr = [tuple(int(v) for v in t) for t in b[2][1:]]
        out.append({"res": r, "msg": msg, "trace": tr, "block": C.unhex(b[3]), "ref": b[4][1], "dec": b[5][1]})
    return out

def parse_model(res):
    """-> list of dict(res, len, status, unused, veclen, calls=[(inlen, free)], data) or None"""
    p = C.parse_sx(res)
    if not p or not isinstance(p[0], list) or p[0][0] != "ok":
        return None
    out = []
    for b in p[0][1:]:
        r = b[1]
        d = {"len": None, "status": None}
        if isinstance(r, list):
            if r[0] == "done":
                d["len"] = int(r[1])
            else:
                d["status"] = int(r[1])
            r = r[0]
        d.update({"res": r, "unused": int(b[2]), "veclen": int(b[3]),
                  "calls": [(int(c[0]), int(c[1])) for c in b[4][1:]],
                  "data": None if b[5] == "none" else C.unhex(b[5])})
        out.append(d)
    return out

# ---------------------------------------------------------------- the library contract on one real trace
def check_contract(codec, x, blk, stats):
    """every clause of CodecLoop.stream_contract on the trace of one block (the loop's calls pass the unconsumed
    rest of x and a non-empty window, which is checked too); returns the list of (clause, detail) not met"""
    bad = []
    tr = blk["trace"]
    tin, tout = 0, 0
    enc = blk["block"] if blk["res"] == "ok" else None
    ended = False
    for i, (inlen, free, st, consumed, ptotal) in enumerate(tr):
        stats["calls"] += 1
        stats["status"][ST_NAMES.get(st, str(st))] = stats["status"].get(ST_NAMES.get(st, str(st)), 0) + 1
        if ended:
            bad.append(("wc_end", "call %d after StreamEnd" % i))
        # the hypotheses of the clauses: the call passes the rest of x and a non-empty window
        if inlen != len(x) - tin:
            bad.append(("reach", "call %d passes %d input bytes, the unconsumed rest has %d" % (i, inlen, len(x) - tin)))
        if free <= 0:
            bad.append(("reach", "call %d passes an empty window" % i))
        produced = ptotal - tout
        # sc_start: the counters start at zero -- the first produced_total IS the first output
        if i == 0 and not (0 <= ptotal <= free):
            bad.append(("wc_start", "first call: total_out %d with a window of %d" % (ptotal, free)))
        if not (0 <= produced <= free):
            bad.append(("wc_window", "call %d: produced %d into a window of %d" % (i, produced, free)))
        if not (0 <= consumed <= inlen) or tin + consumed > len(x):
            bad.append(("wc_input", "call %d: consumed %d of %d passed" % (i, consumed, inlen)))
        if ptotal > obound(len(x)):
            bad.append(("wc_bound", "call %d: %d bytes produced for %d input bytes (bound %d)" % (i, ptotal, len(x), obound(len(x)))))
        stats["max_expansion"] = max(stats["max_expansion"], ptotal - len(x))
        if st == ST_END:
            ended = True
            if tin + consumed != len(x):
                bad.append(("wc_end", "StreamEnd with %d of %d input bytes consumed" % (tin + consumed, len(x))))
            if enc is not None and ptotal != len(enc):
                bad.append(("wc_end", "StreamEnd after %d bytes, the block has %d" % (ptotal, len(enc))))
            if enc is not None and blk["dec"] != "ok":
                bad.append(("wc_end", "StreamEnd, but the library's decoder does not turn the stream back into the input"))
        else:
            if st not in LIB_MORE[codec]:
                bad.append(("wc_more", "call %d: status %s is not a documented not-finished status" % (i, ST_NAMES.get(st, st))))
            if free > 0 and consumed == 0 and produced == 0:
                bad.append(("wc_progress", "call %d: status %s, nothing consumed, nothing produced, window %d" % (i, ST_NAMES.get(st, st), free)))
            if produced != free:
                stats["fills_window_exceptions"] += 1
                if len(stats["fills_window_examples"]) < 5:
                    stats["fills_window_examples"].append("%s call %d: %s with %d of %d window bytes used" % (codec, i, ST_NAMES.get(st, st), produced, free))
            if enc is not None and ptotal == len(enc) and tin + consumed == len(x):
                stats["end_iff_exceptions"] += 1
                if len(stats["end_iff_examples"]) < 5:
                    stats["end_iff_examples"].append("%s call %d: %s although the stream (%d bytes) is complete" % (codec, i, ST_NAMES.get(st, st), len(enc)))
        tin += consumed
        tout = ptotal
    if blk["res"] == "ok":
        if not ended:
            bad.append(("wc_end", "Ok without a StreamEnd call"))
        # sc_prefix (stronger contract): the stream is a function of the input -- one call of the library with a large
        # buffer gives the same bytes as the calls of the loop
        if blk["ref"] == "same":
            stats["sc_prefix_ok"] += 1
        else:
            stats["sc_prefix_exceptions"] += 1
            k = "%s level %s" % (codec, blk.get("level"))
            stats["sc_prefix_by_codec"][k] = stats["sc_prefix_by_codec"].get(k, 0) + 1
            if len(stats["sc_prefix_examples"]) < 5:
                stats["sc_prefix_examples"].append("%s level %s, %d input bytes, calls (input,window,status,consumed,total_out) %s: the block (%d bytes) differs from the stream of one call with a large buffer; both decode to the input: %s" % (
                    codec, blk.get("level"), len(x), [list(t) for t in tr], len(blk["block"]), blk["dec"]))
    elif blk["res"] == "err" and (not tr or tr[-1][2] == ST_END or tr[-1][2] in LIB_MORE[codec]):
        # an Err that does not come from the status of the last recorded call: the library call itself failed
        bad.append(("wc_no_error", "the library returned an error: %s" % blk["msg"]))
    return bad

# ---------------------------------------------------------------- the loops
def run_loops(rng, tier):
    cases = make_cases(rng, tier)
    ilines = [impl_line(c) for c in cases]
    ires = C.run_parallel(C.AVRODRIVE, ilines, jobs=12, timeout=1800)
    violations, diffs, samples = [], [], []
    stats = {"calls": 0, "status": {}, "fills_window_exceptions": 0, "fills_window_examples": [],
             "end_iff_exceptions": 0, "end_iff_examples": [], "max_expansion": 0,
             "sc_prefix_ok": 0, "sc_prefix_exceptions": 0, "sc_prefix_by_codec": {}, "sc_prefix_examples": []}
    mlines, midx = [], []
    parsed = []
    for case, line, res in zip(cases, ilines, ires):
        codec, level, start, inputs, tag = case
        blocks = parse_impl(res)
        parsed.append(blocks)
        short = line if len(line) <= 4000 else line[:4000]
        if blocks is None or len(blocks) != len(inputs):
            violations.append({"impl_case": line, "what": "codec loop run failed: %s" % res[:300]})
            continue
        mlines.append("codecloop %s %d %s" % (codec, start, " ".join(
            "(blk %s %s%s)" % (C.hx(x), C.hx(b["block"]), "".join(" (%d %d %d %d %d)" % t for t in b["trace"]))
            for x, b in zip(inputs, blocks))))
        midx.append(len(parsed) - 1)
    mres = run_model(mlines)
    per = {}
    clause_ok = {c: 0 for c in CLAUSES}
    clause_bad = {c: 0 for c in CLAUSES + ["reach"]}
    n_blocks = n_traces = n_grow = 0
    max_calls = 0
    for mi, mline, mr in zip(midx, mlines, mres):
        case, line, blocks = cases[mi], ilines[mi], parsed[mi]
        codec, level, start, inputs, tag = case
        mblocks = parse_model(mr)
        if mblocks is None or len(mblocks) != len(blocks):
            diffs.append({"impl_case": line, "model_case": mline, "what": "the model replay failed", "model": mr[:300]})
            continue
        key = "%s start=%d" % (codec, start)
        per[key] = per.get(key, 0) + len(blocks)
        for bi, (x, b, m) in enumerate(zip(inputs, blocks, mblocks)):
            n_blocks += 1
            where = "%s level %s start %d block %d (%s, %d bytes)" % (codec, level, start, bi, tag, len(x))
            # (1) the property on the crate: the block is written and an independent decoder gives the input back
            if b["res"] != "ok":
                violations.append({"impl_case": line, "what": "%s: encode returned %s %s" % (where, b["res"], b["msg"] or ""),
                                   "trace": b["trace"][-4:]})
            elif b["dec"] != "ok":
                violations.append({"impl_case": line, "what": "%s: the library's own decoder does not give the block back" % where,
                                   "trace": b["trace"][-4:]})
            # (2) model vs implementation: same calls, same decision, same data
            n_traces += 1
            real_calls = [(t[0], t[1]) for t in b["trace"]]
            max_calls = max(max_calls, len(real_calls))
            if len(real_calls) > 1:
                n_grow += 1
            want = {"ok": "done", "panic": "panic"}.get(b["res"], "err")
            got = "done" if m["res"] == "done" else ("panic" if m["res"].startswith("panic") else "err")
            why = None
            if m["calls"] != real_calls:
                k = next((i for i, (a, c) in enumerate(zip(m["calls"], real_calls)) if a != c), min(len(m["calls"]), len(real_calls)))
                why = "call %d: the model passes %s, the crate passed %s" % (
                    k, m["calls"][k] if k < len(m["calls"]) else "nothing (it stopped)", real_calls[k] if k < len(real_calls) else "nothing (it stopped)")
            elif want != got and not (want == "err" and m["res"] == "errlib"):
                why = "the crate's loop ended with %s, the model's with %s" % (b["res"], m["res"])
            elif m["unused"] != 0:
                why = "the model stopped %d calls before the crate" % m["unused"]
            elif b["res"] == "ok" and (m["data"] != b["block"] or m["len"] != len(b["block"])):
                why = "the model hands on %s bytes, the crate %d" % (m["len"], len(b["block"]))
            if why:
                diffs.append({"impl_case": line, "model_case": mline if len(mline) < 20000 else mline[:20000], "what": "%s: %s" % (where, why),
                              "impl_trace": b["trace"][:8], "model_calls": m["calls"][:8]})
            # (3) the library contract on the real trace
            b["level"] = level
            bad = check_contract(codec, x, b, stats)
            failed = set(c for c, _ in bad)
            for c in CLAUSES:
                if c not in failed and "reach" not in failed:
                    clause_ok[c] += 1
            for c, detail in bad:
                clause_bad[c] += 1
                diffs.append({"impl_case": line, "what": "%s: contract clause %s not met: %s" % (where, c, detail), "impl_trace": b["trace"][:8]})
            if len(samples) < 4 and len(b["trace"]) >= 3 and bi == 0:
                samples.append({"codec": codec, "level": level, "start": start, "input_bytes": len(x), "block_bytes": len(b["block"]),
                                "trace(input,window,status,consumed,total_out)": [list(t[:2]) + [ST_NAMES.get(t[2], t[2])] + list(t[3:]) for t in b["trace"]],
                                "model_calls": m["calls"]})
    notes = {
        "codec_loops": {
            "blocks": n_blocks, "traces_replayed_through_model": n_traces, "traces_with_buffer_growth": n_grow,
            "library_calls": stats["calls"], "max_calls_in_one_block": max_calls, "status_histogram": stats["status"],
            "blocks_per_codec_and_start": per,
            "contract": "CodecLoop.stream_contract_valid with valid x d := the library's own decoder turns d into x, obound x := |x| + |x|/8 + 1024, "
                        "lib_more := deflate {Ok}, bzip2 {FinishOk, MemNeeded}, xz {Ok, MemNeeded}; libraries: flate2/miniz_oxide, bzip2 (libbz2), xz2 (liblzma)",
            "contract_clauses_validated(blocks meeting the clause)": clause_ok,
            "contract_clauses_failed": {k: v for k, v in clause_bad.items() if v},
            "max_output_minus_input_bytes": stats["max_expansion"],
            "sc_prefix(stream is a function of the input: equals the stream of ONE library call with a large buffer): blocks meeting it": stats["sc_prefix_ok"],
            "sc_prefix exceptions (the stronger contract stream_contract does not hold there; stream_contract_valid does)": stats["sc_prefix_exceptions"],
            "sc_prefix_exceptions_by_codec_level": stats["sc_prefix_by_codec"],
            "sc_prefix_examples": stats["sc_prefix_examples"],
            "fills_window(not finished => window completely used): exceptions": stats["fills_window_exceptions"],
            "fills_window_examples": stats["fills_window_examples"],
            "StreamEnd_exactly_when_complete: calls answering not-finished although stream and input were complete": stats["end_iff_exceptions"],
            "end_iff_examples": stats["end_iff_examples"],
        }
    }
    return {"evaluations": len(ilines) + len(mlines), "violations": violations, "diffs": diffs, "samples": samples, "notes": notes,
            "distinct": set((c[0], c[1], c[2], c[4]) for c in cases)}

# ---------------------------------------------------------------- snappy framing, zstandard
def zz(n):
    v = n << 1
    out = bytearray()
    while True:
        if v < 0x80:
            out.append(v)
            return bytes(out)
        out.append((v & 0x7f) | 0x80)
        v >>= 7

def read_zz(b, pos):
    v = shift = 0
    while True:
        x = b[pos]
        pos += 1
        v |= (x & 0x7f) << shift
        shift += 7
        if x < 0x80:
            break
    return (v >> 1) ^ -(v & 1), pos

def run_snappy(rng, tier):
    violations, diffs = [], []
    n = 12 if tier == "quick" else 200
    pls = [b"", b"\x00", b"hello hello hello", payload(rng, "rand", 300), payload(rng, "zero", 5000), payload(rng, "text", 70000)]
    while len(pls) < n:
        pls.append(payload(rng, rng.choice(["rand", "zero", "text"]), rng.choice([1, 2, 3, 17, 255, 256, 4096, 65535, 65536, 65537])))
    h = cont.History.__new__(cont.History)
    h.schema = G.schema_sx([G.Node("bytes")])
    wl = ["cw %s snappy %d %s vec (meta) (ser (bytes %s)) finish" % (h.schema, 1 << 30, C.hx(cont.SYNC), C.hx(p)) for p in pls]
    wr = C.run_parallel(C.AVRODRIVE, wl)
    mlines, rlines, meta = [], [], []
    for p, line, res in zip(pls, wl, wr):
        w = cont.parse_cw(res)
        if w is None or w.get("build_err") or any(r != "ok" for r, _ in w["ops"]):
            violations.append({"impl_case": line[:3000], "what": "writing a snappy block failed", "impl": res[:300]})
            continue
        f = w["sink"]
        hdr = w["built"]
        cnt, pos = read_zz(f, hdr)
        size, pos = read_zz(f, pos)
        block = f[pos:pos + size]
        x = zz(len(p)) + p
        if cnt != 1 or pos + size + 16 != len(f) or size < 4:
            violations.append({"impl_case": line[:3000], "what": "unexpected block layout"})
            continue
        crc = zlib.crc32(x) & 0xffffffff
        be, le = crc.to_bytes(4, "big"), crc.to_bytes(4, "little")
        # the property on the crate: big-endian CRC32 of the uncompressed block at the end of the block
        if block[-4:] != be:
            violations.append({"impl_case": line[:3000], "what": "snappy block does not end with the big-endian CRC32 of the uncompressed data: %s, expected %s" % (block[-4:].hex(), be.hex())})
        flipped = bytes([block[-4] ^ 0x10]) + block[-3:]
        variants = [("written", block, True), ("crc-bit-flipped", block[:-4] + flipped, False)]
        if le != be:
            variants.append(("crc-little-endian", block[:-4] + le, False))
        for name, blk2, good in variants:
            f2 = f[:pos] + blk2 + f[pos + size:]
            mlines.append("snappy %s %s %d %s" % (C.hx(x), C.hx(block[:-4]), crc, C.hx(blk2)))
            rlines.append("cr %s slice any 3" % C.hx(f2))
            meta.append((line, name, good, p, block))
    mres = C.run_parallel(C.AVROMODEL, mlines)
    rres = C.run_parallel(C.AVRODRIVE, rlines)
    for (line, name, good, p, block), ml, mr, rl, rr in zip(meta, mlines, mres, rlines, rres):
        pm = C.parse_sx(mr)
        pm = pm[0] if pm else ["bad"]
        items = cont.parse_cr(rr).get("items") or [("none",)]
        impl_ok = items[0][0] == "ok"
        impl_err = items[0][0] == "err"
        if pm[0] != "ok":
            diffs.append({"impl_case": rl[:3000], "model_case": ml[:3000], "what": "the snappy model did not run: %s" % mr[:200]})
            continue
        model_ok = isinstance(pm[2], list) and pm[2][0] == "ok"
        if name == "written" and C.unhex(pm[1]) != block:
            diffs.append({"impl_case": line[:3000], "model_case": ml[:3000], "what": "snappy framing: the model writes %s..., the crate %s..." % (pm[1][-9:], block[-4:].hex())})
        if model_ok != impl_ok or (not model_ok) != impl_err:
            diffs.append({"impl_case": rl[:3000], "model_case": ml[:3000], "what": "snappy block (%s): reader model %s, crate %s" % (name, "ok" if model_ok else "err", items[0])})
        if good and not impl_ok:
            violations.append({"impl_case": line[:3000], "what": "the snappy block written is not read back: %s" % (items[0],), "reader_case": rl[:3000]})
        if not good and not impl_err:
            violations.append({"impl_case": rl[:3000], "what": "a snappy block with a wrong CRC (%s) is not rejected: %s" % (name, items[0])})
    notes = {"snappy_framing": {"blocks": len(pls), "reader_runs(written, bit-flipped CRC, little-endian CRC)": len(rlines),
                                "crc_oracle": "zlib.crc32 (Python) of the uncompressed block, big-endian"}}
    return {"evaluations": len(wl) + len(mlines) + len(rlines), "violations": violations, "diffs": diffs, "notes": notes}

def run_oneshot(rng, tier):
    """snappy and zstandard through the codecloop command: one codec state, buffers reused big then small"""
    violations = []
    lines = []
    for codec, levels in (("snappy", ["default"]), ("zstandard", ["default", "1", "19", "22"])):
        for level in levels:
            seq = [payload(rng, "rand", 70000), b"", bytes([1]), payload(rng, "text", 40000), payload(rng, "zero", 100000), payload(rng, "rand", 3)]
            lines.append("codecloop %s %s 32768 %s" % (codec, level, " ".join(C.hx(b) for b in seq)))
    res = C.run_lines(C.AVRODRIVE, lines)
    for line, r in zip(lines, res):
        blocks = parse_impl(r)
        if blocks is None:
            violations.append({"impl_case": line[:3000], "what": "run failed: %s" % r[:300]})
            continue
        for i, b in enumerate(blocks):
            if b["res"] != "ok" or b["dec"] != "ok":
                violations.append({"impl_case": line[:3000], "what": "block %d of a reused one-shot codec state: %s, independent decoder: %s" % (i, b["res"], b["dec"])})
    return {"evaluations": len(lines), "violations": violations, "diffs": [], "notes": {"oneshot_codecs_reused_state": {"runs": len(lines)}}}
