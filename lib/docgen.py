"""Schema DOCUMENTS (JSON) for a node graph: every spelling the specification allows
(namespace in the name vs namespace attribute vs inherited, inline definition vs reference at each
use, definition before or after use, attribute order, extra attributes, whitespace)."""
import json as pyjson
from common import hx

class Unspellable(Exception):
    pass

def split_name(full):
    if "." in full:
        ns, _, simple = full.rpartition(".")
        return (ns or None), simple
    return None, full

class DocGen:
    def __init__(self, rng, nodes, forward=0.0, extras=0.3, shuffle=0.5, rich=0.0, loose=False, sibling_defs=False, alias_names=0.0):
        """rich: probability that a free string-valued position (doc, default, custom attribute keys and values -- and, with
        `loose`, aliases: positions the parser does not interpret) holds a string that is awkward to copy at the text level
        (ends in a backslash, escaped quotes, control characters, \\u escapes, whitespace) and that a free value is a nested
        JSON value with numbers in non-canonical spellings"""
        self.rng, self.nodes = rng, nodes
        self.forward = forward
        self.extras = extras
        self.shuffle = shuffle
        self.rich = rich
        self.loose = loose
        # alias_names: probability that a schema object carries an `aliases` attribute made of NAMES OF THE DOCUMENT (fullnames,
        # simple names, `.Simple` of the other named types -- defined earlier or later --, its own name) instead of the fixed "Old":
        # aliases matter for reader/writer resolution only, they define nothing within one schema
        self.alias_names = alias_names
        self.def_objs = {}         # named node -> the object that defines it (by identity)
        # sibling_defs: a named type is defined only where no record definition (other than the root's) is open -- next to the other
        # definitions, never nested in one -- and written as a reference (forward, if need be) everywhere else
        self.sibling_defs = sibling_defs
        self.defined = set()
        # occurrences of named nodes in traversal order, to decide where each gets defined
        self.occ = {}
        self.count_occ(0, set())
        self.define_at = {}
        for k, n in self.occ.items():
            if n >= 2 and rng.random() < forward:
                self.define_at[k] = rng.randint(2, n)     # defined at a later occurrence: forward references
            else:
                self.define_at[k] = 1
        self.seen = {}
        self.open = set()          # records whose definition is being written
        self.ref_kinds = {"inside": 0, "complete": 0, "forward": 0}      # references by the state of their target's definition
        self.ref_sites = []
        self.ref_states = []       # parallel to ref_sites: "inside" | "complete" | "forward"
        self.def_sites = []
        self.has_forward = any(v > 1 for v in self.define_at.values())

    def count_occ(self, k, open_):
        n = self.nodes[k]
        if n.t in ("record", "enum", "fixed"):
            self.occ[k] = self.occ.get(k, 0) + 1
            if self.occ[k] > 1:
                return
        if n.t == "array":
            self.count_occ(n.items, open_)
        elif n.t == "map":
            self.count_occ(n.values, open_)
        elif n.t == "union":
            for v in n.variants:
                self.count_occ(v, open_)
        elif n.t == "record":
            for _, fk in n.fields:
                self.count_occ(fk, open_)

    def ref(self, k, enclosing):
        """a reference to named node k written at a place whose enclosing namespace is `enclosing`: the simple name when the
        namespaces agree, the dotted fullname, or `.Simple` (leading dot = the null namespace) for a null-namespace type --
        the only spelling that reaches a null-namespace type from inside a namespace"""
        ns, simple = split_name(self.nodes[k].name)
        opts = []
        if ns == enclosing:
            opts += ["bare", "bare"]
        opts.append("dot" if ns is None else "full")
        c = self.rng.choice(opts)
        r = ("str", simple if c == "bare" else ("." + simple if c == "dot" else self.nodes[k].name))
        # every reference written, with the namespace in force there (used to derive near-miss invalid documents)
        state = "inside" if k in self.open else "complete" if k in self.defined else "forward"
        self.ref_kinds[state] += 1
        self.ref_sites.append((r, enclosing, k))
        self.ref_states.append(state)
        return r

    def name_attrs(self, k, enclosing):
        """-> (list of members, namespace for children)"""
        full = self.nodes[k].name
        ns, simple = split_name(full)
        rng = self.rng
        choices = []
        if ns is not None:
            choices.append("dotted")
            choices.append("attr")
            if ns == enclosing:
                choices.append("inherit")
        else:
            if enclosing is None:
                choices.append("inherit")
                choices.append("attr-empty")
            else:
                choices += ["attr-empty"] * 3
            choices.append("dotted-null")
        c = rng.choice(choices)
        if c == "dotted-null":
            m = [("name", ("str", "." + simple))]            # ".X": dotted name with an empty namespace part = the null namespace
            if rng.random() < 0.3:
                m.append(("namespace", ("str", rng.choice(["ignored.ns", enclosing or "ns"]))))
        elif c == "dotted":
            m = [("name", ("str", full))]
            if rng.random() < 0.3:
                m.append(("namespace", ("str", rng.choice(["ignored.ns", ""]))))    # ignored when the name is dotted
        elif c == "attr":
            m = [("name", ("str", simple)), ("namespace", ("str", ns))]
        elif c == "inherit":
            m = [("name", ("str", simple))]
        else:
            m = [("name", ("str", simple)), ("namespace", ("str", ""))]
        return m, ns

    def free_string(self):
        rng = self.rng
        if rng.random() < self.rich:
            return tricky_string(rng)
        return rng.choice(["a doc", "", "with \"quotes\" and \\ and é"])

    def free_key(self):
        """a key no schema object interprets (never one of the attribute names of the specification)"""
        rng = self.rng
        if rng.random() < self.rich:
            return rng.choice(["x-", "x ", "display name", "", "_", "ns:"]) + tricky_string(rng)
        return "x-custom"

    def free_value(self, depth=0):
        rng = self.rng
        if rng.random() >= self.rich:
            return rng.choice([("num", "1"), ("null",), ("bool", True), ("obj", [("a", ("arr", []))])])
        return free_json(rng, self, depth)

    def extras_for(self, kind):
        rng = self.rng
        out = []
        if rng.random() < self.extras:
            out.append(("doc", ("str", self.free_string())))
        if self.alias_names and rng.random() < self.alias_names:
            pool = []
            for n in self.nodes:
                if n is not None and n.t in ("record", "enum", "fixed"):
                    ns, simple = split_name(n.name)
                    pool += [n.name, simple, simple, "." + simple if ns is None else ns + "." + simple]
            if pool:
                al = [rng.choice(pool) for _ in range(rng.choice([1, 1, 2, 3]))]
                if rng.random() < 0.3:
                    al.insert(rng.randint(0, len(al)), "Old")
                out.append(("aliases", ("arr", [("str", a) for a in al])))
        elif rng.random() < self.extras / 2:
            if self.loose and rng.random() < self.rich:
                out.append(("aliases", ("arr", [("str", self.free_string()) for _ in range(rng.randint(0, 3))])))
            else:
                out.append(("aliases", ("arr", [("str", "Old")])))
        for _ in range(3 if self.rich else 1):
            if rng.random() < self.extras / 3:
                out.append((self.free_key(), self.free_value()))
        return out

    def members(self, m):
        if self.rng.random() < self.shuffle:
            self.rng.shuffle(m)
        return ("obj", m)

    def gen(self, k, enclosing):
        rng = self.rng
        n = self.nodes[k]
        lt = n.lt
        ltm = []
        if lt is not None:
            if isinstance(lt, tuple) and lt[0] == "decimal":
                ltm = [("logicalType", ("str", "decimal")), ("precision", ("num", str(lt[2])))]
                if lt[1] != 0 or rng.random() < 0.5:
                    ltm.append(("scale", ("num", str(lt[1]))))
            elif isinstance(lt, tuple):
                ltm = [("logicalType", ("str", lt[1]))]
            else:
                ltm = [("logicalType", ("str", lt))]
        if n.t in ("null", "boolean", "int", "long", "float", "double", "bytes", "string"):
            if ltm or rng.random() < 0.2:
                return self.members([("type", ("str", n.t))] + ltm + self.extras_for("prim"))
            return ("str", n.t)
        if n.t == "array":
            return self.members([("type", ("str", "array")), ("items", self.gen(n.items, enclosing))] + ltm + self.extras_for("array"))
        if n.t == "map":
            return self.members([("type", ("str", "map")), ("values", self.gen(n.values, enclosing))] + ltm + self.extras_for("map"))
        if n.t == "union":
            return ("arr", [self.gen(v, enclosing) for v in n.variants])
        # named types
        self.seen[k] = self.seen.get(k, 0) + 1
        if self.sibling_defs and k != 0:
            if k in self.defined or (self.open - {0}):
                if k not in self.defined:
                    self.has_forward = True
                return self.ref(k, enclosing)
        elif k in self.defined or self.seen[k] != self.define_at[k]:
            return self.ref(k, enclosing)
        self.defined.add(k)
        nm, ns = self.name_attrs(k, enclosing)
        self.def_sites.append((k, enclosing))
        if n.t == "enum":
            o = self.members([("type", ("str", "enum"))] + nm + [("symbols", ("arr", [("str", s) for s in n.symbols]))] + ltm + self.extras_for("enum"))
            self.def_objs[k] = o
            return o
        if n.t == "fixed":
            o = self.members([("type", ("str", "fixed"))] + nm + [("size", ("num", str(n.size)))] + ltm + self.extras_for("fixed"))
            self.def_objs[k] = o
            return o
        fields = []
        self.open.add(k)
        for fname, fk in n.fields:
            fm = [("name", ("str", fname)), ("type", self.gen(fk, ns))]
            if rng.random() < self.extras:
                fm.append(("default", self.free_value() if rng.random() < self.rich else rng.choice([("null",), ("num", "0"), ("str", "d")])))
            if rng.random() < self.extras / 2:
                fm.append(("order", ("str", "ascending")))
            if self.rich:
                if rng.random() < self.extras:
                    fm.append(("doc", ("str", self.free_string())))
                if rng.random() < self.extras / 3:
                    fm.append((self.free_key(), self.free_value()))
            fields.append(self.members(fm))
        self.open.discard(k)
        o = self.members([("type", ("str", "record"))] + nm + [("fields", ("arr", fields))] + ltm + self.extras_for("record"))
        self.def_objs[k] = o
        return o

def to_sx(j):
    t = j[0]
    if t == "null":
        return "null"
    if t == "bool":
        return "(bool %d)" % (1 if j[1] else 0)
    if t == "num":
        return "(num %s)" % hx(j[1])
    if t == "str":
        return "(str %s)" % hx(j[1])
    if t == "arr":
        return "(arr%s)" % "".join(" " + to_sx(x) for x in j[1])
    if t == "obj":
        return "(obj%s)" % "".join(" (%s %s)" % (hx(k), to_sx(v)) for k, v in j[1])
    raise ValueError(t)

RESERVED_KEYS = ("type", "name", "namespace", "fields", "symbols", "items", "values", "size", "precision", "scale", "logicalType")

# ---- strings and numbers whose copy at the text level is delicate -----------------------------------------------------------
_PIECES = ["a", "b c", " ", "  ", "\t", "\n", "\r\n", "\\", "\\\\", "\"", "\\\"", "\"\\", "C:\\conf\\", "é", "\u00e9t\u00e9", "\U0001F600",
           "/", "</", "\u0000", "\u001f", "\u007f", "\u2028", "\ufeff", "{", "}", "[", "]", ",", ":", "{\"k\": 1}", "no label",
           "display label", "\\u0041", "\\n", "null", "0", "x y", "tab\there", "'"]

def tricky_string(rng):
    """strings with backslashes (also as the LAST character, once or several times), quotes, control characters, non-ASCII
    (BMP and astral), characters that look like JSON structure, and whitespace (so that a copy which loses track of being inside a
    string shows)"""
    r = rng.random()
    if r < 0.08:
        return ""
    parts = [rng.choice(_PIECES) for _ in range(rng.choice([1, 1, 2, 3, 5, 8]))]
    s = "".join(parts)
    r = rng.random()
    if r < 0.3:
        s += "\\" * rng.choice([1, 1, 2, 3])          # ends in backslash(es)
    elif r < 0.4:
        s += "\\\""                                     # ends in backslash quote
    elif r < 0.5:
        s += "\""
    if rng.random() < 0.5:
        s = rng.choice(["with space ", "a b", " "]) + s
    if s in RESERVED_KEYS:
        s += "_"
    return s

_ODD_NUMBERS = ["0", "1", "-1", "12", "-0", "0.0", "-0.0", "1e0", "1E0", "1e+0", "1e-0", "1.50", "1.0", "10", "1e1", "1E+2", "1e-2", "0.5e1",
                "100e-2", "0e0", "0e10", "-0e-3", "1.25", "-1.25e2", "123456789", "123456.789e3", "0.00001", "0.000001", "0.0000015", "1e15", "1e16", "12345e11",
                "12345e12", "1.5e300", "4294967296", "9007199254740993", "18446744073709551615", "18446744073709551616",
                "9223372036854775807", "9223372036854775808", "-9223372036854775808", "-9223372036854775809", "1e22", "1e21", "0.1", "0.3",
                "2.5E-5", "100000000000000000000", "1.0e0", "1.10", "3.0000", "0.10e-4", "7e-5", "7e-6", "1e-7"]

_HARD_FLOATS = ["1.5e-300", "12345678901234567.0", "9007199254740993.0", "2.2250738585072011e-308", "0.1000000000000000055511151231257827",
                "8.98846567431158e307", "4.9406564584124654e-324", "1.7976931348623157e308", "123456789012345678901234567890.0",
                "0.000001234567890123456789", "7.205759403792793e16", "5e-324", "2.4703282292062328e-324"]

def hard_float(rng):
    """float tokens that need a correctly rounded reader: 16..25 significant digits, halfway cases between two doubles, large and
    small exponents, subnormals. The value a JSON reader must hand on is the double nearest to the token (Python's float())."""
    r = rng.random()
    if r < 0.35:
        return rng.choice(["", "-"]) + rng.choice(_HARD_FLOATS)
    if r < 0.6:
        # just above / at / below the midpoint of two adjacent doubles near 2^53..2^60
        base = rng.randint(2**53, 2**60)
        return "%s%d.0" % (rng.choice(["", "-"]), base | 1) if rng.random() < 0.5 else "%s%d.5" % (rng.choice(["", "-"]), base)
    nd = rng.randint(16, 25)
    digits = str(rng.randint(1, 9)) + "".join(rng.choice("0123456789") for _ in range(nd - 1))
    e = rng.choice([rng.randint(-320, -280), rng.randint(-30, 30), rng.randint(270, 300)])
    return "%s%s.%se%d" % (rng.choice(["", "-"]), digits[0], digits[1:], e)

def odd_number(rng):
    """number tokens in spellings serde_json does not print itself (exponents, trailing zeros, -0, integers past u64 / i64): at most 17
    significant digits and exponents of small magnitude (plus a few fixed extreme ones), see serde_num"""
    r = rng.random()
    if r < 0.15:
        return hard_float(rng)
    if r < 0.6:
        return rng.choice(_ODD_NUMBERS)
    if r < 0.75:
        return str(rng.randint(-10**rng.randint(1, 18), 10**rng.randint(1, 19)))
    sign = rng.choice(["", "", "-"])
    ip = str(rng.randint(0, 10**rng.randint(1, 6)))
    fp = "".join(rng.choice("0123456789") for _ in range(rng.randint(0, 6)))
    tok = sign + ip + ("." + fp if fp else "")
    if rng.random() < 0.5:
        tok += rng.choice(["e", "E"]) + rng.choice(["", "+", "-"]) + rng.choice(["", "0"]) + str(rng.randint(0, 15))
    return tok

def free_json(rng, dg, depth=0):
    """any JSON value for a position the schema parser does not interpret (default values, custom attributes)"""
    r = rng.random()
    if depth >= 3 or r < 0.5:
        c = rng.random()
        if c < 0.45:
            return ("str", tricky_string(rng))
        if c < 0.8:
            return ("num", odd_number(rng))
        return rng.choice([("null",), ("bool", True), ("bool", False)])
    if r < 0.75:
        return ("arr", [free_json(rng, dg, depth + 1) for _ in range(rng.randint(0, 3))])
    ks = []
    for _ in range(rng.randint(0, 3)):
        k = tricky_string(rng)
        ks.append((k, free_json(rng, dg, depth + 1)))
    if ks and rng.random() < 0.15:
        ks.append((ks[0][0], free_json(rng, dg, depth + 1)))        # a repeated key (kept, in order)
    return ("obj", ks)

def serde_num(tok):
    """the text serde_json prints for the number it reads from the token `tok` (what a document goes through when it is copied by
    serde_transcode from serde_json's Deserializer to its compact Serializer): an integer token without fraction / exponent that fits
    u64 (or, negative, i64) is printed as that integer; any other token is read as an f64 (-0 included) and printed with the shortest
    digits that read back to the same f64, in plain notation with at least one fractional digit when the decimal exponent is
    in -5..=15 and as d[.ddd]e[+|-]N otherwise. Python's float() / repr() give the correctly rounded value and the shortest
    round-trip digits; serde_json's default float reader is exact for the tokens generated here (<= 19 significant digits with a small
    exponent, or the fixed extreme tokens, all checked against the crate by the runs on the unchanged crate)."""
    import re
    m = re.fullmatch(r"(-?)(0|[1-9][0-9]*)(\.[0-9]+)?([eE][+-]?[0-9]+)?", tok)
    if not m:
        raise ValueError("not a JSON number: %r" % tok)
    neg, ip, fp, ex = m.groups()
    if fp is None and ex is None:
        v = int(ip)
        if not neg and v <= 2**64 - 1:
            return str(v)
        if neg and 0 < v <= 2**63:
            return "-" + str(v)
    f = float(tok)
    if f != f or f in (float("inf"), float("-inf")):
        raise ValueError("out of range for serde_json: %r" % tok)
    if f == 0.0 and any(c in "123456789" for c in (ip + (fp or ""))):
        f = 0.0                               # underflow to zero keeps the token's sign
    r = repr(abs(f))                      # shortest round-trip digits: 'ddd.ddd' or 'd.ddde[+-]XX' or 'de[+-]XX'
    sign = "-" if (neg and f == 0.0) or f < 0 else ""
    mant, _, e = r.partition("e")
    e10 = int(e) if e else 0
    ipart, _, fpart = mant.partition(".")
    digits = ipart + fpart
    e10 += len(ipart) - 1                 # value = d.ddd * 10^e10 with digits = all digits
    # strip leading zeros (0.00123 -> digits 000123)
    stripped = digits.lstrip("0")
    if not stripped:
        return sign + "0.0"
    e10 -= len(digits) - len(stripped)
    digits = stripped.rstrip("0") or "0"
    if -5 <= e10 <= 15:
        if e10 < 0:
            return sign + "0." + "0" * (-e10 - 1) + digits
        if len(digits) <= e10 + 1:
            return sign + digits + "0" * (e10 + 1 - len(digits)) + ".0"
        return sign + digits[:e10 + 1] + "." + digits[e10 + 1:]
    body = digits[0] + ("." + digits[1:] if len(digits) > 1 else "")
    return sign + body + "e" + ("+" if e10 >= 0 else "-") + str(abs(e10))

def norm_numbers(j):
    """the document as serde_json's Deserializer hands it over: every number token in the spelling serde_json prints (serde_num).
    This is the AST the model starts from (Json.v: `JNum tok`); a token that is an unsigned integer stays what it was"""
    t = j[0]
    if t == "num":
        return ("num", serde_num(j[1]))
    if t == "arr":
        return ("arr", [norm_numbers(x) for x in j[1]])
    if t == "obj":
        return ("obj", [(k, norm_numbers(v)) for k, v in j[1]])
    return j

def json_string(s):
    """serde_json's compact printer for strings (Json.v json_string): quote and backslash escaped, \\b \\f \\n \\r \\t, other control
    characters below 0x20 as \\u00xx (lower case), everything else as is"""
    out = ['"']
    for ch in s:
        o = ord(ch)
        if ch == '"':
            out.append('\\"')
        elif ch == "\\":
            out.append("\\\\")
        elif o == 8:
            out.append("\\b")
        elif o == 12:
            out.append("\\f")
        elif o == 10:
            out.append("\\n")
        elif o == 13:
            out.append("\\r")
        elif o == 9:
            out.append("\\t")
        elif o < 32:
            out.append("\\u%04x" % o)
        else:
            out.append(ch)
    out.append('"')
    return "".join(out)

def spell_string(s, rng):
    """one of the JSON spellings of the string s: characters that must be escaped get their short escape or a \\u escape (either hex
    case), the others are written as they are or -- sometimes -- as \\u escapes (surrogate pairs above the BMP), `/` also as `\\/`"""
    mode = rng.random()
    p_esc = 0.0 if mode < 0.5 else (0.15 if mode < 0.8 else 1.0)
    short = {'"': '\\"', "\\": "\\\\", "\b": "\\b", "\f": "\\f", "\n": "\\n", "\r": "\\r", "\t": "\\t"}
    def u(o):
        h = "%04x" % o
        return "\\u" + (h.upper() if rng.random() < 0.5 else h)
    out = ['"']
    for ch in s:
        o = ord(ch)
        if ch in short:
            out.append(short[ch] if rng.random() < 0.8 else u(o))
        elif o < 32:
            out.append(u(o))
        elif ch == "/" and rng.random() < 0.3:
            out.append("\\/")
        elif rng.random() < p_esc:
            if o >= 0x10000:
                o -= 0x10000
                out.append(u(0xD800 + (o >> 10)) + u(0xDC00 + (o & 0x3FF)))
            else:
                out.append(u(o))
        else:
            out.append(ch)
    out.append('"')
    return "".join(out)

def to_text(j, rng=None, norm=False):
    """JSON text; with rng: random whitespace between tokens and a random spelling of every string (number tokens as they are);
    without: the compact text, number tokens in serde_json's spelling when `norm`"""
    def ws():
        if rng is None or rng.random() < 0.6:
            return ""
        return rng.choice([" ", "\n", "\t", "  ", " \r\n "])
    def st(s):
        return json_string(s) if rng is None else spell_string(s, rng)
    t = j[0]
    if t == "null":
        return "null"
    if t == "bool":
        return "true" if j[1] else "false"
    if t == "num":
        return serde_num(j[1]) if norm else j[1]
    if t == "str":
        return st(j[1])
    if t == "arr":
        return "[" + ws() + ("," + ws()).join(to_text(x, rng, norm) + ws() for x in j[1]) + "]"
    if t == "obj":
        return "{" + ws() + ("," + ws()).join(st(k) + ws() + ":" + ws() + to_text(v, rng, norm) + ws() for k, v in j[1]) + "}"
    raise ValueError(t)

def minified(j):
    """what a parsed, unedited schema must report for the document j: the same document, compact, as serde_json prints it"""
    return to_text(j, None, True)


# ---------------------------------------------------------------------------------------------
# Graphs and derived documents aimed at the NAME rules (C07/C08/C09/C19)
# ---------------------------------------------------------------------------------------------
import gen as _G

class NameGraphGen:
    """Valid schemas whose difficulty is in the names: few simple names spread over several namespaces (X, ns.X, ns.sub.X,
    other.X ... all distinct types, told apart by size / symbols / fields), nested in one another in every
    (enclosing namespace, own namespace) arrangement, and referenced many times -- directly and through arrays, maps and
    unions, from inside and outside their namespace, recursively (conditional cycles). Node 0 is the root."""
    NSS = [None, None, "ns", "ns.sub", "other", "ns2"]

    def __init__(self, rng, n_named=None, n_simple=None, nss=None, logical=False):
        self.rng = rng
        self.n_named = n_named or rng.choice([2, 3, 4, 5, 6, 8])
        self.n_simple = n_simple or rng.choice([1, 2, 2, 4])
        self.nss = nss or list(dict.fromkeys(rng.sample(self.NSS, rng.choice([2, 3, 4]))))
        self.logical = logical

    def build(self):
        rng = self.rng
        simple = ["X", "Y", "Z", "T"][:self.n_simple]
        pairs = [(ns, s) for ns in dict.fromkeys(self.nss) for s in simple]
        rng.shuffle(pairs)
        pairs = pairs[:self.n_named]
        n = len(pairs)
        full = [(ns + "." + s) if ns else s for ns, s in pairs]
        kinds = ["record"] + [rng.choice(["record", "record", "enum", "fixed"]) for _ in range(n - 1)]
        nodes = []
        self.nodes = nodes
        # named node i lives at index i + off; the root may be a wrapper around named node 0
        wrap = rng.choice(["none"] * 4 + ["union", "array", "map"])
        off = {"none": 0, "array": 1, "map": 1, "union": 2}[wrap]
        if wrap == "array":
            nodes.append(_G.Node("array", items=1))
        elif wrap == "map":
            nodes.append(_G.Node("map", values=1))
        elif wrap == "union":
            nodes.append(_G.Node("union", variants=[1, 2]))
            nodes.append(_G.Node("null"))
        for i in range(n):
            if kinds[i] == "record":
                nodes.append(_G.Node("record", name=full[i], fields=[]))
            elif kinds[i] == "enum":
                nodes.append(_G.Node("enum", name=full[i], symbols=["S%d" % i] + ["A", "B"][:rng.randint(0, 2)]))
            else:
                lt = None
                if self.logical and rng.random() < 0.3:
                    lt = ("decimal", rng.choice([0, 2]), rng.randint(1, 2 * (i + 1)))
                nodes.append(_G.Node("fixed", name=full[i], size=i + 1, lt=lt))
        self.kinds, self.off, self.n = kinds, off, n
        for i in range(n):
            if kinds[i] == "record":
                for j in range(rng.randint(1, 4)):
                    nodes[i + off].fields.append(("f%d" % j, self.slot(i, False, 0, False)))
        # every named type must be part of the schema: hang the unreachable ones below a reachable record
        while True:
            reach = _G.reachable(nodes)
            missing = [i for i in range(n) if i + off not in reach]
            if not missing:
                break
            i = missing[0]
            owners = [o for o in range(n) if kinds[o] == "record" and o + off in reach]
            o = rng.choice(owners)
            k = i + off
            if kinds[i] == "record" and i <= o:
                k = self.container(o, k)
            nodes[o + off].fields.append(("g%d" % len(nodes[o + off].fields), k))
        return compact(nodes)

    def pick(self, owner, conditional):
        c = [i for i in range(self.n) if conditional or self.kinds[i] != "record" or i > owner]
        return self.rng.choice(c) + self.off if c else None

    def container(self, owner, inner):
        rng, nodes = self.rng, self.nodes
        c = rng.choice(["array", "map", "union"]) if nodes[inner].t != "union" else rng.choice(["array", "map"])
        if c == "array":
            nodes.append(_G.Node("array", items=inner))
        elif c == "map":
            nodes.append(_G.Node("map", values=inner))
        else:
            nodes.append(_G.Node("union", variants=[inner]))
            if rng.random() < 0.5:
                nodes.append(_G.Node("null"))
                nodes[-2].variants.insert(rng.randint(0, 1), len(nodes) - 1)
        return len(nodes) - 1 if nodes[-1].t != "null" else len(nodes) - 2

    def slot(self, owner, conditional, depth, in_union):
        rng, nodes = self.rng, self.nodes
        r = rng.random()
        if r < 0.15 or depth > 3:
            nodes.append(_G.Node(rng.choice(["int", "string", "long", "null", "bytes"])))
            return len(nodes) - 1
        if r < 0.65:
            k = self.pick(owner, conditional)
            if k is not None:
                return k
        c = rng.choice(["array", "map", "union", "union"] if not in_union else ["array", "map"])
        k = len(nodes)
        if c == "array":
            nodes.append(_G.Node("array", items=0))
            nodes[k].items = self.slot(owner, True, depth + 1, False)
        elif c == "map":
            nodes.append(_G.Node("map", values=0))
            nodes[k].values = self.slot(owner, True, depth + 1, False)
        else:
            nodes.append(_G.Node("union", variants=[]))
            used = set()
            for _ in range(rng.randint(1, 4)):
                v = self.slot(owner, True, depth + 1, True)
                bk = ("named:" + nodes[v].name) if nodes[v].t in ("record", "enum", "fixed") else nodes[v].t
                if bk in used:
                    continue
                used.add(bk)
                nodes[k].variants.append(v)
        return k

def compact(nodes):
    """drops the nodes not reachable from node 0 (keys renumbered, order kept)"""
    reach = sorted(_G.reachable(nodes))
    m = {k: i for i, k in enumerate(reach)}
    out = []
    for k in reach:
        n = nodes[k]
        if n.t == "array":
            n.items = m[n.items]
        elif n.t == "map":
            n.values = m[n.values]
        elif n.t == "union":
            n.variants = [m[v] for v in n.variants]
        elif n.t == "record":
            n.fields = [(f, m[fk]) for f, fk in n.fields]
        out.append(n)
    return out

def replace_obj(j, target, new):
    """the document with the (unique, by identity) sub-document `target` replaced"""
    if j is target:
        return new
    if j[0] == "obj":
        return ("obj", [(k, replace_obj(v, target, new)) for k, v in j[1]])
    if j[0] == "arr":
        return ("arr", [replace_obj(v, target, new) for v in j[1]])
    return j

def resolve_ref(text, enclosing):
    """fullname a reference designates (Names section of the specification; PcfSpec.spec_fullname)"""
    if "." in text:
        ns, _, simple = text.rpartition(".")
        return (ns + "." + simple) if ns else simple
    return (enclosing + "." + text) if enclosing else text

def near_miss_unknown(rng, dg, doc):
    """-> doc' in which ONE reference of doc (generated by dg) is replaced by a name that designates no definition of the
    document although a type with the same simple name exists in another namespace; None if there is no such spelling"""
    fulls = {dg.nodes[k].name for k in dg.occ}
    simples = sorted({split_name(f)[1] for f in fulls})
    nss = sorted({split_name(f)[0] or "" for f in fulls} | {"ns", ""})
    sites = list(dg.ref_sites)
    rng.shuffle(sites)
    for r, enclosing, k in sites:
        cands = []
        for s in simples:
            cands.append(s)
            cands.append("." + s)
            for ns in nss:
                if ns:
                    cands.append(ns + "." + s)
        cands = [c for c in cands if resolve_ref(c, enclosing) not in fulls]
        if cands:
            return replace_obj(doc, r, ("str", rng.choice(cands)))
    return None

def near_miss_duplicate(rng, dg, doc):
    """-> doc' = a record (in some namespace) holding doc and a SECOND definition of one of its fullnames, spelled relative to that
    record's namespace in any of the ways a definition can be spelled; None if doc defines no named type"""
    if not dg.def_sites:
        return None
    k, _ = rng.choice(dg.def_sites)
    wns = rng.choice([None, "ns", "ns.sub", "w", split_name(dg.nodes[k].name)[0]])
    fulls = {dg.nodes[x].name for x in dg.occ}
    wname = "W__"
    one = DocGen(rng, [dg.nodes[k] if dg.nodes[k].t != "record" else _G.Node("record", name=dg.nodes[k].name, fields=[])], extras=0.0)
    second = one.gen(0, wns)
    f = [("obj", [("name", ("str", "a")), ("type", None)]), ("obj", [("name", ("str", "b")), ("type", second)])]
    # doc itself is spelled for a null enclosing namespace: it can only be the first field if W__ is in the null namespace;
    # otherwise the second definition goes INSIDE doc's enclosing context by wrapping the other way round
    if wns is None:
        order = [("a", doc), ("b", second)] if rng.random() < 0.5 else [("b", second), ("a", doc)]
        return ("obj", [("type", ("str", "record")), ("name", ("str", wname)),
                        ("fields", ("arr", [("obj", [("name", ("str", fn)), ("type", ft)]) for fn, ft in order]))])
    inner = ("obj", [("type", ("str", "record")), ("name", ("str", wns + "." + wname)),
                     ("fields", ("arr", [("obj", [("name", ("str", "b")), ("type", second)])]))])
    order = [("a", doc), ("w", inner)] if rng.random() < 0.5 else [("w", inner), ("a", doc)]
    return ("arr", [ft for _, ft in order]) if doc[0] != "arr" and rng.random() < 0.5 else \
           ("obj", [("type", ("str", "record")), ("name", ("str", "V__")),
                    ("fields", ("arr", [("obj", [("name", ("str", fn)), ("type", ft)]) for fn, ft in order]))])

def permute(rng, nodes):
    """the same graph with its nodes stored in another order (node 0 stays the root): node vectors as the builder API allows them,
    where a named node may sit anywhere and is first reached through any position"""
    n = len(nodes)
    order = list(range(1, n))
    rng.shuffle(order)
    order = [0] + order                    # new position i holds old node order[i]
    m = {old: new for new, old in enumerate(order)}
    out = []
    for old in order:
        x = nodes[old]
        y = _G.Node(x.t, name=x.name, symbols=x.symbols, size=x.size, lt=x.lt)
        if x.t == "array":
            y.items = m[x.items]
        elif x.t == "map":
            y.values = m[x.values]
        elif x.t == "union":
            y.variants = [m[v] for v in x.variants]
        elif x.t == "record":
            y.fields = [(f, m[fk]) for f, fk in x.fields]
        out.append(y)
    return out

def with_cycle(rng, nodes):
    """adds a cycle of 1..4 container nodes (array / map / union, sometimes a record = a cycle through a NAMED node, which is
    expressible) below a record of the graph; the unions on the cycle also hold named types of the graph (written in full the first time
    round, by reference afterwards) and the record holding the cycle may hold them as well"""
    nodes = list(nodes)
    named = [k for k, x in enumerate(nodes) if x.t in ("record", "enum", "fixed")]
    recs = [k for k in named if nodes[k].t == "record"]
    if not recs:
        return nodes
    klen = rng.choice([1, 1, 2, 2, 3, 4])
    base = len(nodes)
    kinds = [rng.choice(["array", "map", "union", "union", "union"] + (["record"] if rng.random() < 0.25 else [])) for _ in range(klen)]
    for i, c in enumerate(kinds):
        nxt = base + (i + 1) % klen
        if c == "array":
            nodes.append(_G.Node("array", items=nxt))
        elif c == "map":
            nodes.append(_G.Node("map", values=nxt))
        elif c == "record":
            nodes.append(_G.Node("record", name=rng.choice(["", "ns.", "cyc."]) + "Cy%d" % i, fields=[("next", nxt)]))
        else:
            nodes.append(_G.Node("union", variants=[nxt]))
    extra = []
    for i, c in enumerate(kinds):
        k = base + i
        if c == "union":
            nxt = nodes[k].variants[0]
            if nodes[nxt].t == "union":
                # a union cannot hold a union directly: go through an array
                nodes.append(_G.Node("array", items=nxt))
                nodes[k].variants = [len(nodes) - 1]
            sib = rng.sample(named, min(len(named), rng.choice([0, 1, 1, 2])))
            for s in sib:
                nodes[k].variants.insert(rng.randint(0, len(nodes[k].variants)), s)
            if rng.random() < 0.3:
                nodes.append(_G.Node("null"))
                nodes[k].variants.insert(0, len(nodes) - 1)
    owner = rng.choice(recs)
    o = nodes[owner]
    o2 = _G.Node("record", name=o.name, fields=list(o.fields), lt=o.lt)
    if named and rng.random() < 0.5:
        o2.fields.append(("id", rng.choice(named) if rng.random() < 0.7 or not [k for k in named if nodes[k].t != "record"] else
                          rng.choice([k for k in named if nodes[k].t != "record"])))
    o2.fields.insert(rng.randint(0, len(o2.fields)), ("cyc", base))
    nodes[owner] = o2
    return nodes

def cycle_doc(rng):
    """-> (document, unconditional) : records R0..Rk-1 nested in one another (optionally below an envelope: array / map / union /
    other records), every record reaching the next one -- and, from the last one or from anywhere, EARLIER ones -- either directly
    (record-typed field) or through a union / array / map. `unconditional` = some record always contains itself (a cycle made of
    direct record-typed fields only), wherever that cycle sits: through the outermost record or strictly below it (rho shape),
    one record or several, with other cycles (conditional or not) next to it. Names in one or several namespaces."""
    k = rng.choice([1, 2, 2, 3, 3, 4, 5, 7])
    nss = [rng.choice([None, None, "ns", "ns.sub"]) for _ in range(k)]
    full = [(nss[i] + "." if nss[i] else "") + "R%d" % i for i in range(k)]
    direct = set()                  # (i, j): record i has a field whose type is record j itself

    def wrap(t, cond):
        if not cond:
            return t
        c = rng.choice(["union", "union", "array", "map", "deep"])
        if c == "union":
            return ("arr", [("str", "null"), t] if rng.random() < 0.7 else [t])
        if c == "array":
            return ("obj", [("type", ("str", "array")), ("items", t)])
        if c == "map":
            return ("obj", [("type", ("str", "map")), ("values", t)])
        return ("obj", [("type", ("str", "map")), ("values", ("arr", [("str", "int"), ("obj", [("type", ("str", "array")), ("items", t)])]))])

    def ref(j, enclosing):
        if nss[j] == enclosing and rng.random() < 0.6:
            return ("str", "R%d" % j)
        return ("str", full[j] if nss[j] else ".R%d" % j)

    p_cond = rng.choice([0.0, 0.3, 0.6, 0.85])
    def rec(i, enclosing):
        fields = []
        n_extra = rng.choice([0, 0, 1, 2])
        slots = ["next"] + ["back"] * n_extra if i + 1 < k else ["back"] * (1 + n_extra)
        rng.shuffle(slots)
        if rng.random() < 0.5:
            slots.insert(rng.randint(0, len(slots)), "prim")
        for s in slots:
            cond = rng.random() < p_cond
            if s == "next":
                t = rec(i + 1, nss[i])
                j = i + 1
            elif s == "back":
                j = rng.randint(0, i)          # an enclosing record (being defined): a backward reference
                t = ref(j, nss[i])
            else:
                fields.append(("obj", [("name", ("str", "p%d" % len(fields))), ("type", ("str", rng.choice(["int", "string", "null"])))]))
                continue
            if not cond:
                direct.add((i, j))
            fields.append(("obj", [("name", ("str", "f%d" % len(fields))), ("type", wrap(t, cond))]))
        if nss[i] is not None:
            nm = [("name", ("str", full[i]))] if rng.random() < 0.6 or nss[i] != enclosing else [("name", ("str", "R%d" % i))]
        elif enclosing is None:
            nm = [("name", ("str", "R%d" % i))]
        else:
            nm = [("name", ("str", ".R%d" % i))] if rng.random() < 0.3 else [("name", ("str", "R%d" % i)), ("namespace", ("str", ""))]
        m = [("type", ("str", "record"))] + nm + [("fields", ("arr", fields))]
        if rng.random() < 0.3:
            rng.shuffle(m)
        return ("obj", m)

    doc = rec(0, None)
    env = rng.choice(["none", "none", "array", "union", "record", "record2"])
    if env == "array":
        doc = ("obj", [("type", ("str", "array")), ("items", doc)])
    elif env == "union":
        doc = ("arr", [("str", "null"), doc])
    elif env in ("record", "record2"):
        inner = doc
        if env == "record2":
            inner = ("obj", [("type", ("str", "record")), ("name", ("str", "Mid")),
                             ("fields", ("arr", [("obj", [("name", ("str", "m")), ("type", inner)])]))])
        doc = ("obj", [("type", ("str", "record")), ("name", ("str", "Envelope")),
                       ("fields", ("arr", [("obj", [("name", ("str", "id")), ("type", ("str", "long"))]),
                                           ("obj", [("name", ("str", "body")), ("type", inner)])]))])
    # a directed cycle in `direct`?
    adj = {}
    for a, b in direct:
        adj.setdefault(a, []).append(b)
    color = {}
    def dfs(a):
        color[a] = 1
        for b in adj.get(a, []):
            if color.get(b) == 1 or (color.get(b) is None and dfs(b)):
                return True
        color[a] = 2
        return False
    unconditional = any(color.get(a) is None and dfs(a) for a in range(k))
    return doc, unconditional


def cycle_graph(rng):
    """-> (nodes, unconditional): a node graph (node 0 = root) over records C0..Ck-1 that contain one another: a ring
    C0 -> C1 -> ... -> C0 plus random further edges (to any record, itself included), every edge either DIRECT (a field whose type is
    the record) or through a union / array / map (nested up to two levels), next to fields of other types. Unlike cycle_doc the graph
    says nothing about WHERE each record gets defined: the records also occur in sibling positions of an envelope (the branches of a
    root union, sibling fields of a root record -- directly, as ["null", C], array or map --, or not at all = everything nested below
    C0), so that DocGen -- which defines a named type at any one of its occurrences -- spells every arrangement of a cycle: each
    of its edges a reference from inside the definition of its target (the definitions nested in one another), a reference to a
    record whose definition is complete (a sibling defined earlier), or a reference to a record defined further down (forward, resolved
    late). `unconditional` = the direct edges alone contain a cycle = some record always contains itself (all records are reachable
    from the root): the document must be rejected; otherwise every cycle goes through a union, array or map and the schema is valid."""
    k = rng.choice([1, 2, 2, 2, 3, 3, 4, 5])
    ns_pool = rng.choice([[None], [None], ["ns"], [None, "ns"], [None, "ns", "ns.sub"]])
    nss = [rng.choice(ns_pool) for _ in range(k)]
    full = [(nss[i] + "." if nss[i] else "") + "C%d" % i for i in range(k)]
    env = rng.choice(["none", "union", "union", "union", "fields", "fields", "fields", "fields", "array", "map"])
    nodes = []
    def add(n):
        nodes.append(n)
        return len(nodes) - 1
    root = add(None)                      # placeholder
    recs = [add(_G.Node("record", name=full[i], fields=[])) for i in range(k)]
    direct = set()

    def through(target, depth=0):
        """target below a union / array / map"""
        c = rng.choice(["union", "union", "optional", "array", "map"])
        if depth < 1 and rng.random() < 0.25 and c != "union":
            target = through(target, depth + 1)
        if c in ("union", "optional") and nodes[target].t == "union":
            c = "array"
        if c == "optional":
            v = [add(_G.Node("null")), target]
            if rng.random() < 0.3:
                v.reverse()
            return add(_G.Node("union", variants=v))
        if c == "union":
            v = [target]
            for t in rng.sample(["null", "int", "string"], rng.randint(0, 2)):
                v.insert(rng.randint(0, len(v)), add(_G.Node(t)))
            return add(_G.Node("union", variants=v))
        if c == "array":
            return add(_G.Node("array", items=target))
        return add(_G.Node("map", values=target))

    mode = rng.choice(["all-direct", "all-direct", "one-conditional", "mixed", "mixed", "mixed"])
    p_cond = {"all-direct": 0.0, "one-conditional": 0.0, "mixed": rng.choice([0.3, 0.6])}[mode]
    broken = rng.randrange(k) if mode == "one-conditional" else None
    edges = [(i, (i + 1) % k, i == broken or rng.random() < p_cond) for i in range(k)]          # the ring
    for _ in range(rng.choice([0, 0, 0, 1, 1, 2]) if mode != "one-conditional" else 0):
        edges.append((rng.randrange(k), rng.randrange(k), rng.random() < max(p_cond, 0.5 if mode == "all-direct" else 0.0)))
    if mode == "one-conditional":
        # further edges, all through unions / arrays / maps: the schema stays valid
        for _ in range(rng.choice([0, 1, 2])):
            edges.append((rng.randrange(k), rng.randrange(k), True))
    per = {i: [] for i in range(k)}
    for a, b, cond in edges:
        per[a].append((b, cond))
    for i in range(k):
        slots = list(per[i])
        rng.shuffle(slots)
        fields = []
        for b, cond in slots:
            if not cond:
                direct.add((i, b))
            fields.append(("f%d" % len(fields), through(recs[b]) if cond else recs[b]))
            if rng.random() < 0.3:
                fields.insert(rng.randint(0, len(fields)), ("p%d" % len(fields), add(_G.Node(rng.choice(["int", "string", "null", "long"])))))
        nodes[recs[i]].fields = fields
    # the envelope: where the records ALSO occur, next to one another
    sib = list(range(k))
    rng.shuffle(sib)
    if env in ("union", "fields") and k > 1 and rng.random() < 0.3:
        sib = sib[:rng.randint(1, k)]
    if env == "none":
        # node 0 must be the root: put C0 there
        nodes[0] = nodes[recs[0]]
        nodes[recs[0]] = _G.Node("null")          # unreachable after the renumbering below
        remap = {recs[0]: 0}
        for n in nodes:
            if n.t == "array" and n.items in remap:
                n.items = 0
            elif n.t == "map" and n.values in remap:
                n.values = 0
            elif n.t == "union":
                n.variants = [remap.get(v, v) for v in n.variants]
            elif n.t == "record":
                n.fields = [(f, remap.get(fk, fk)) for f, fk in n.fields]
    elif env == "union":
        v = [recs[i] for i in sib]
        if rng.random() < 0.4:
            v.insert(rng.randint(0, len(v)), add(_G.Node(rng.choice(["null", "int"]))))
        nodes[0] = _G.Node("union", variants=v)
    elif env == "fields":
        fields = []
        for i in sib:
            c = rng.choice(["direct", "direct", "optional", "through"])
            if c == "direct":
                key = recs[i]
            elif c == "optional":
                key = add(_G.Node("union", variants=[add(_G.Node("null")), recs[i]]))
            else:
                key = through(recs[i])
            fields.append(("s%d" % len(fields), key))
            if rng.random() < 0.25:
                fields.insert(rng.randint(0, len(fields)), ("q%d" % len(fields), add(_G.Node(rng.choice(["int", "string", "bytes"])))))
        nodes[0] = _G.Node("record", name=rng.choice(["Env", "ns.Env", "env.Env"]), fields=fields)
    elif env == "array":
        nodes[0] = _G.Node("array", items=recs[0])
    else:
        nodes[0] = _G.Node("map", values=recs[0])
    adj = {}
    for a, b in direct:
        adj.setdefault(a, []).append(b)
    color = {}
    def dfs(a):
        color[a] = 1
        for b in adj.get(a, []):
            if color.get(b) == 1 or (color.get(b) is None and dfs(b)):
                return True
        color[a] = 2
        return False
    unconditional = any(color.get(a) is None and dfs(a) for a in range(k))
    return compact(nodes), unconditional


STRING_POSITIONS = ["schema-doc", "field-doc", "default", "default-nested", "custom-key", "custom-value", "custom-nested-key", "alias",
                    "field-custom-key", "enum-doc", "enum-default", "symbol-doc"]
STRING_ENDINGS = ["\\", "\\\\", "a\\", " \\", "C:\\conf\\", "\\\"", "\"", "q\"\\", "\\\\\\", "\\u005c\\", "\n\\", "é\\"]

def string_position_docs():
    """-> [(label, document)]: one valid document (a record with two fields, one of them an enum) per (position, ending): the string at
    `position` -- every position of a schema document whose string the parser does not interpret: doc of a record / field / enum,
    default value (plain or nested in an object / array), key or value of a custom attribute (top level or nested), alias -- is one
    that ends in `ending` (backslashes, quotes, combinations); every other free position, before and after it, holds a string with
    whitespace, custom attributes hold numbers in non-canonical spellings"""
    out = []
    for pos in STRING_POSITIONS:
        for e in STRING_ENDINGS:
            def s(p, plain):
                return ("stored under " + e) if p == pos else plain
            enum = ("obj", [("type", ("str", "enum")), ("name", ("str", "Mode")), ("doc", ("str", s("enum-doc", "the  mode"))),
                            ("symbols", ("arr", [("str", "A"), ("str", "B")])), ("default", ("str", "A")),
                            ("x default", ("str", s("enum-default", "a b"))),
                            ("symbol docs", ("obj", [("A", ("str", s("symbol-doc", "first one"))), ("B", ("str", "second one"))]))])
            doc = ("obj", [
                ("type", ("str", "record")), ("name", ("str", "ns.Conf")),
                ("doc", ("str", s("schema-doc", "settings of the service"))),
                ("aliases", ("arr", [("str", s("alias", "Old Conf")), ("str", "older conf")])),
                (s("custom-key", "display name"), ("str", s("custom-value", "the conf"))),
                ("fields", ("arr", [
                    ("obj", [("name", ("str", "label")), ("type", ("str", "string")), ("default", ("str", s("default", "no label"))),
                             ("doc", ("str", s("field-doc", "display label"))), (s("field-custom-key", "ui hint"), ("num", "1e0"))]),
                    ("obj", [("name", ("str", "attrs")), ("type", ("obj", [("type", ("str", "map")), ("values", ("str", "string"))])),
                             ("default", ("obj", [("k 1", ("str", s("default-nested", "v 1"))), ("k 2", ("arr", [("str", "v 2"), ("num", "-0")]))]))]),
                    ("obj", [("name", ("str", "mode")), ("type", enum), ("default", ("str", "A")), ("doc", ("str", "the mode of the conf"))]),
                ])),
                ("x meta", ("obj", [(s("custom-nested-key", "nested key"), ("arr", [("num", "1.50"), ("str", "one and a half"), ("obj", [])])),
                                    ("after", ("str", "still  here"))])),
                ("last one", ("str", "the end")),
            ])
            out.append(("%s/%s" % (pos, e.encode("unicode_escape").decode()), doc))
    return out


# ---------------------------------------------------------------------------------------------
# Forward references that share their TEXT (C07/C08): the same simple name in several namespaces, each referred to by its SHORT
# spelling from inside its own namespace BEFORE any of them is defined
# ---------------------------------------------------------------------------------------------
def forward_twins(rng):
    """-> nodes (node 0 = root): `targets` = named types sharing 1..2 simple names over 2..3 namespaces (x.Item, y.Item, Item ...;
    told apart by kind / symbols / size / fields) and `users` = records living in those namespaces whose fields refer to the
    targets of their OWN namespace (sometimes of another one) directly or through a union / array / map; users may be nested in
    one another (a user of namespace y inside a user of namespace x: the enclosing namespace changes on the way). The root (record
    or union) holds users and targets side by side, users mostly first: with DocGen(forward > 0) -- which defines a named type at any
    one of its occurrences and spells a reference by the simple name whenever the namespaces agree -- the document has several
    not-yet-resolved references with the same text that designate different fullnames (and, in other draws, the arrangements next
    to it: one of the targets already defined, references spelled in full, the same target referred to several times)."""
    simples = rng.sample(["Item", "X", "Key"], rng.choice([1, 1, 2]))
    nss = rng.sample(["x", "y", None, "x.sub", "zz.y"], rng.choice([2, 2, 3]))
    nodes = [None]
    def add(n):
        nodes.append(n)
        return len(nodes) - 1
    targets = {}
    i = 0
    for ns in nss:
        for s in simples:
            if len(targets) >= 2 and rng.random() < 0.25:
                continue
            full = (ns + "." + s) if ns else s
            i += 1
            c = rng.choice(["enum", "fixed", "record"])
            if c == "enum":
                targets[(ns, s)] = add(_G.Node("enum", name=full, symbols=["S%d" % i] + ["A", "B"][:rng.randint(0, 2)]))
            elif c == "fixed":
                targets[(ns, s)] = add(_G.Node("fixed", name=full, size=i))
            else:
                targets[(ns, s)] = add(_G.Node("record", name=full, fields=[("v%d" % i, add(_G.Node(rng.choice(["int", "string", "long"]))))]))
    def through(t):
        c = rng.choice(["direct", "direct", "optional", "optional", "array", "map", "union1"])
        if c == "direct":
            return t
        if c == "optional":
            v = [add(_G.Node("null")), t]
            if rng.random() < 0.3:
                v.reverse()
            return add(_G.Node("union", variants=v))
        if c == "array":
            return add(_G.Node("array", items=t))
        if c == "map":
            return add(_G.Node("map", values=t))
        return add(_G.Node("union", variants=[t]))
    users = []
    keys = list(targets)
    for ui in range(rng.choice([2, 2, 3, 4])):
        ns = nss[ui % len(nss)] if ui < len(nss) else rng.choice(nss)
        own = [k for k in keys if k[0] == ns]
        fields = []
        for fi in range(rng.choice([1, 1, 2, 3])):
            k = rng.choice(own) if own and rng.random() < 0.85 else rng.choice(keys)
            fields.append(("f%d" % fi, through(targets[k])))
        if rng.random() < 0.3:
            fields.insert(rng.randint(0, len(fields)), ("p", add(_G.Node(rng.choice(["int", "string"])))))
        u = add(_G.Node("record", name=((ns + ".") if ns else "") + "U%d" % ui, fields=fields))
        users.append(u)
    # nesting: some users become a field of an earlier user instead of a sibling
    top = [users[0]]
    for u in users[1:]:
        if rng.random() < 0.35:
            host = nodes[rng.choice(top)]
            host.fields.insert(rng.randint(0, len(host.fields)), ("n%d" % u, u if rng.random() < 0.6 else through(u)))
        else:
            top.append(u)
    tl = list(targets.values())
    rng.shuffle(tl)
    if rng.random() < 0.3:
        tl = tl[:rng.randint(0, len(tl))]        # some targets occur only below the users (defined there)
    slots = top + tl
    if rng.random() < 0.35:
        rng.shuffle(slots)                       # some targets before some users: already defined when referred to
    if rng.random() < 0.25 and len(slots) > 1:
        nodes[0] = _G.Node("union", variants=slots)
    else:
        rns = rng.choice([None, None] + [n for n in nss if n])
        fields = []
        for si, k in enumerate(slots):
            fields.append(("s%d" % si, k if rng.random() < 0.7 or nodes[k].t == "union" else through(k)))
        nodes[0] = _G.Node("record", name=((rns + ".") if rns else "") + "Root", fields=fields)
    return compact(nodes)


def same_text_forward_refs(dg):
    """number of reference TEXTS of the document generated by dg that are written, before the definition of their target, for two or
    more different targets (the class forward_twins aims at) -- for the distribution report"""
    by_text = {}
    for (r, enclosing, k), state in zip(dg.ref_sites, dg.ref_states):
        if state == "forward":
            by_text.setdefault(r[1], set()).add(k)
    return sum(1 for v in by_text.values() if len(v) > 1)


# ---------------------------------------------------------------------------------------------
# Node vectors only the builder API (SchemaMut::from_nodes / nodes_mut, the derive) produces: ONE unnamed node (union / array /
# map) referenced from several places -- in particular from outside a recursive record AND from inside it (the wrapper the record
# recurses through is the wrapper it is reached through), which a parsed document never yields (every occurrence gets its node)
# ---------------------------------------------------------------------------------------------
def shared_wrapper_graph(rng):
    """-> nodes (node 0 = root), a valid schema. Records R0..Rk-1 (1..3); every record refers to some records (itself included)
    through wrapper nodes; wrapper nodes are SHARED: one node per (wrapper kind, target) -- as the derive does per type -- or, in
    some draws, one per occurrence for part of them. The root is a record (or an array / map / union) reaching R0 through the very
    wrapper node R0 recurses through; other shapes: a chain of shared wrappers (array of optional), a shared wrapper holding a
    non-recursive named type used twice, a shared primitive node."""
    k = rng.choice([1, 1, 2, 2, 3])
    ns = [rng.choice([None, None, "ns", "a.b"]) for _ in range(k)]
    nodes = [None]
    def add(n):
        nodes.append(n)
        return len(nodes) - 1
    recs = [add(_G.Node("record", name=((ns[i] + ".") if ns[i] else "") + "R%d" % i, fields=[])) for i in range(k)]
    extra_named = add(_G.Node(rng.choice(["enum", "fixed"]), name="ns.Leaf", symbols=["A", "B"], size=4))
    if nodes[extra_named].t == "enum":
        nodes[extra_named].size = None
    else:
        nodes[extra_named].symbols = None
    shared_prim = add(_G.Node(rng.choice(["int", "string", "long"])))
    null = add(_G.Node("null"))
    memo = {}
    p_share = rng.choice([1.0, 1.0, 0.7])
    def wrapper(kind, target):
        key = (kind, target)
        if key in memo and rng.random() < p_share:
            return memo[key]
        if kind == "optional":
            w = add(_G.Node("union", variants=[null if rng.random() < 0.8 else add(_G.Node("null")), target]))
        elif kind == "array":
            w = add(_G.Node("array", items=target))
        elif kind == "map":
            w = add(_G.Node("map", values=target))
        elif kind == "array-optional":
            w = add(_G.Node("array", items=wrapper("optional", target)))
        else:                       # union with a further branch
            w = add(_G.Node("union", variants=[shared_prim, target]))
        memo.setdefault(key, w)
        return w
    kinds = ["optional", "optional", "array", "map", "array-optional", "union2"]
    rec_kind = [rng.choice(kinds) for _ in range(k)]          # the wrapper each record is usually reached through
    for i in range(k):
        fields = [("value", shared_prim if rng.random() < 0.7 else add(_G.Node("int")))]
        # the recursion: to itself and/or to the next record (ring), through its usual wrapper
        targets = [i] if k == 1 or rng.random() < 0.6 else []
        if k > 1:
            targets.append((i + 1) % k)
        if rng.random() < 0.3:
            targets.append(rng.randrange(k))
        for j in dict.fromkeys(targets):
            fields.append(("to%d" % j, wrapper(rec_kind[j] if rng.random() < 0.85 else rng.choice(kinds), recs[j])))
        if rng.random() < 0.4:
            fields.append(("leaf", wrapper(rng.choice(kinds[:4]), extra_named)))
        if rng.random() < 0.3:
            fields.append(("leaf2", extra_named))
        nodes[recs[i]].fields = fields
    env = rng.choice(["record", "record", "record", "array", "map", "optional", "none"])
    if env == "record":
        fields = [("name", shared_prim if rng.random() < 0.5 else add(_G.Node("string")))]
        for j in rng.sample(range(k), rng.randint(1, k)):
            c = rng.random()
            fields.append(("head%d" % j, wrapper(rec_kind[j], recs[j]) if c < 0.75 else recs[j] if c < 0.85 else wrapper(rng.choice(kinds), recs[j])))
        if rng.random() < 0.3:
            fields.append(("leaf", wrapper(rng.choice(kinds[:4]), extra_named)))
        nodes[0] = _G.Node("record", name=rng.choice(["List", "ns.Holder", "a.b.Forest"]), fields=fields)
    elif env == "none":
        nodes[0] = nodes[recs[0]]
        nodes[recs[0]] = _G.Node("null")
        for n in nodes:
            if n.t == "array" and n.items == recs[0]:
                n.items = 0
            elif n.t == "map" and n.values == recs[0]:
                n.values = 0
            elif n.t == "union":
                n.variants = [0 if v == recs[0] else v for v in n.variants]
            elif n.t == "record":
                n.fields = [(f, 0 if fk == recs[0] else fk) for f, fk in n.fields]
    else:
        w = wrapper(rec_kind[0] if rng.random() < 0.7 else env, recs[0])
        if env == "array":
            nodes[0] = _G.Node("array", items=w if nodes[w].t != "array" or rng.random() < 0.5 else recs[0])
        elif env == "map":
            nodes[0] = _G.Node("map", values=w)
        else:
            # the root IS the shared wrapper: move it to position 0
            nodes[0] = _G.Node("map", values=w) if nodes[w].t != "union" else _G.Node("array", items=w)
    return compact(nodes)


def has_reentered_wrapper(nodes):
    """some unnamed node (union / array / map) is reached again while it is being written -- i.e. with a named node started in
    between; for the distribution report"""
    sys_stack = []
    seen_named = set()
    found = [False]
    def go(k):
        n = nodes[k]
        if n.t in ("record", "enum", "fixed"):
            if k in seen_named:
                return
            seen_named.add(k)
            if n.t == "record":
                sys_stack.append(("n", k))
                for _, fk in n.fields:
                    go(fk)
                sys_stack.pop()
            return
        if n.t in ("array", "map", "union"):
            if ("u", k) in sys_stack:
                found[0] = True
                return
            sys_stack.append(("u", k))
            for c in ([n.items] if n.t == "array" else [n.values] if n.t == "map" else n.variants):
                go(c)
            sys_stack.pop()
    go(0)
    return found[0]


def alias_only_reference(rng, dg, doc):
    """-> doc' INVALID: one named type of doc (generated by dg) gets an `aliases` attribute holding a fresh name (simple = in the
    type's namespace, or dotted), and one reference of the document -- an existing reference to that type, or a field added next to
    the document, before or after it -- designates the alias' fullname, which no definition of the document carries: an unknown
    reference (aliases define no names within a schema). None if doc defines no named type"""
    if not dg.def_objs:
        return None
    fulls = {dg.nodes[x].name for x in dg.occ}
    k = rng.choice(sorted(dg.def_objs))
    ns, simple = split_name(dg.nodes[k].name)
    fresh = rng.choice(["Was", "Old", "Former"]) + simple
    c = rng.choice(["short", "short", "dotted-same", "dotted-other", "dot-null"])
    if c == "short":
        alias, afull = fresh, ((ns + ".") if ns else "") + fresh
    elif c == "dotted-same" and ns:
        alias = afull = ns + "." + fresh
    elif c == "dot-null":
        alias, afull = "." + fresh, fresh
    else:
        alias = afull = "legacy." + fresh
    if afull in fulls:
        return None
    old = dg.def_objs[k]
    others = [("str", rng.choice(sorted(fulls)))] if rng.random() < 0.3 else []
    al = [("str", alias)] + others
    rng.shuffle(al)
    m = [(kk, v) for kk, v in old[1] if kk != "aliases"]
    m.insert(rng.randint(0, len(m)), ("aliases", ("arr", al)))
    new = ("obj", m)
    a_ns, a_simple = split_name(afull)
    def spell(enclosing):
        opts = ["full" if a_ns is not None else "dot"]
        if a_ns == enclosing:
            opts += ["bare", "bare"]
        o = rng.choice(opts)
        return ("str", a_simple if o == "bare" else afull if o == "full" else "." + a_simple)
    sites = [(r, enclosing) for r, enclosing, kk in dg.ref_sites if kk == k]
    if sites and rng.random() < 0.6:
        r, enclosing = rng.choice(sites)
        d2 = replace_obj(doc, old, new)
        # the reference may sit INSIDE the definition object (recursive type): replace it in the new object as well
        return replace_obj(d2, r, spell(enclosing))
    d2 = replace_obj(doc, old, new)
    ref_field = ("obj", [("name", ("str", "viaAlias")), ("type", spell(None))])
    doc_field = ("obj", [("name", ("str", "body")), ("type", d2)])
    order = [doc_field, ref_field] if rng.random() < 0.6 else [ref_field, doc_field]
    return ("obj", [("type", ("str", "record")), ("name", ("str", "W__")), ("fields", ("arr", order))])
