"""Schema DOCUMENTS (JSON) for a node graph: every spelling the specification allows
(namespace in the name vs namespace attribute vs inherited, inline definition vs reference at each
use, definition before or after use, attribute order, extra attributes, whitespace)."""
import json as pyjson
from common import hx

class Unspellable(Exception):
    pass

def split_name(full):
    if "." in full:
        ns, _, simple = full.rpartition(".")
        return (ns or None), simple
    return None, full

class DocGen:
    def __init__(self, rng, nodes, forward=0.0, extras=0.3, shuffle=0.5):
        self.rng, self.nodes = rng, nodes
        self.forward = forward
        self.extras = extras
        self.shuffle = shuffle
        self.defined = set()
        # occurrences of named nodes in traversal order, to decide where each gets defined
        self.occ = {}
        self.count_occ(0, set())
        self.define_at = {}
        for k, n in self.occ.items():
            if n >= 2 and rng.random() < forward:
                self.define_at[k] = rng.randint(2, n)     # defined at a later occurrence: forward references
            else:
                self.define_at[k] = 1
        self.seen = {}
        self.has_forward = any(v > 1 for v in self.define_at.values())

    def count_occ(self, k, open_):
        n = self.nodes[k]
        if n.t in ("record", "enum", "fixed"):
            self.occ[k] = self.occ.get(k, 0) + 1
            if self.occ[k] > 1:
                return
        if n.t == "array":
            self.count_occ(n.items, open_)
        elif n.t == "map":
            self.count_occ(n.values, open_)
        elif n.t == "union":
            for v in n.variants:
                self.count_occ(v, open_)
        elif n.t == "record":
            for _, fk in n.fields:
                self.count_occ(fk, open_)

    def ref(self, k, enclosing):
        ns, simple = split_name(self.nodes[k].name)
        if ns == enclosing and self.rng.random() < 0.7:
            return ("str", simple)
        if ns is None:
            if enclosing is None:
                return ("str", simple)
            raise Unspellable()        # a null-namespace type cannot be referenced from inside a namespace
        return ("str", self.nodes[k].name)

    def name_attrs(self, k, enclosing):
        """-> (list of members, namespace for children)"""
        full = self.nodes[k].name
        ns, simple = split_name(full)
        rng = self.rng
        choices = []
        if ns is not None:
            choices.append("dotted")
            choices.append("attr")
            if ns == enclosing:
                choices.append("inherit")
        else:
            if enclosing is None:
                choices.append("inherit")
                choices.append("attr-empty")
            else:
                choices.append("attr-empty")
        c = rng.choice(choices)
        if c == "dotted":
            m = [("name", ("str", full))]
            if rng.random() < 0.3:
                m.append(("namespace", ("str", rng.choice(["ignored.ns", ""]))))    # ignored when the name is dotted
        elif c == "attr":
            m = [("name", ("str", simple)), ("namespace", ("str", ns))]
        elif c == "inherit":
            m = [("name", ("str", simple))]
        else:
            m = [("name", ("str", simple)), ("namespace", ("str", ""))]
        return m, ns

    def extras_for(self, kind):
        rng = self.rng
        out = []
        if rng.random() < self.extras:
            out.append(("doc", ("str", rng.choice(["a doc", "", "with \"quotes\" and \\ and é"]))))
        if rng.random() < self.extras / 2:
            out.append(("aliases", ("arr", [("str", "Old")])))
        if rng.random() < self.extras / 3:
            out.append(("x-custom", rng.choice([("num", "1"), ("null",), ("bool", True), ("obj", [("a", ("arr", []))])])))
        return out

    def members(self, m):
        if self.rng.random() < self.shuffle:
            self.rng.shuffle(m)
        return ("obj", m)

    def gen(self, k, enclosing):
        rng = self.rng
        n = self.nodes[k]
        lt = n.lt
        ltm = []
        if lt is not None:
            if isinstance(lt, tuple) and lt[0] == "decimal":
                ltm = [("logicalType", ("str", "decimal")), ("precision", ("num", str(lt[2])))]
                if lt[1] != 0 or rng.random() < 0.5:
                    ltm.append(("scale", ("num", str(lt[1]))))
            elif isinstance(lt, tuple):
                ltm = [("logicalType", ("str", lt[1]))]
            else:
                ltm = [("logicalType", ("str", lt))]
        if n.t in ("null", "boolean", "int", "long", "float", "double", "bytes", "string"):
            if ltm or rng.random() < 0.2:
                return self.members([("type", ("str", n.t))] + ltm + self.extras_for("prim"))
            return ("str", n.t)
        if n.t == "array":
            return self.members([("type", ("str", "array")), ("items", self.gen(n.items, enclosing))] + ltm + self.extras_for("array"))
        if n.t == "map":
            return self.members([("type", ("str", "map")), ("values", self.gen(n.values, enclosing))] + ltm + self.extras_for("map"))
        if n.t == "union":
            return ("arr", [self.gen(v, enclosing) for v in n.variants])
        # named types
        self.seen[k] = self.seen.get(k, 0) + 1
        if k in self.defined or self.seen[k] != self.define_at[k]:
            return self.ref(k, enclosing)
        self.defined.add(k)
        nm, ns = self.name_attrs(k, enclosing)
        if n.t == "enum":
            return self.members([("type", ("str", "enum"))] + nm + [("symbols", ("arr", [("str", s) for s in n.symbols]))] + ltm + self.extras_for("enum"))
        if n.t == "fixed":
            return self.members([("type", ("str", "fixed"))] + nm + [("size", ("num", str(n.size)))] + ltm + self.extras_for("fixed"))
        fields = []
        for fname, fk in n.fields:
            fm = [("name", ("str", fname)), ("type", self.gen(fk, ns))]
            if rng.random() < self.extras:
                fm.append(("default", rng.choice([("null",), ("num", "0"), ("str", "d")])))
            if rng.random() < self.extras / 2:
                fm.append(("order", ("str", "ascending")))
            fields.append(self.members(fm))
        return self.members([("type", ("str", "record"))] + nm + [("fields", ("arr", fields))] + ltm + self.extras_for("record"))

def to_sx(j):
    t = j[0]
    if t == "null":
        return "null"
    if t == "bool":
        return "(bool %d)" % (1 if j[1] else 0)
    if t == "num":
        return "(num %s)" % hx(j[1])
    if t == "str":
        return "(str %s)" % hx(j[1])
    if t == "arr":
        return "(arr%s)" % "".join(" " + to_sx(x) for x in j[1])
    if t == "obj":
        return "(obj%s)" % "".join(" (%s %s)" % (hx(k), to_sx(v)) for k, v in j[1])
    raise ValueError(t)

def to_text(j, rng=None):
    """JSON text; random whitespace when rng is given"""
    def ws():
        if rng is None or rng.random() < 0.6:
            return ""
        return rng.choice([" ", "\n", "\t", "  ", " \r\n "])
    t = j[0]
    if t == "null":
        return "null"
    if t == "bool":
        return "true" if j[1] else "false"
    if t == "num":
        return j[1]
    if t == "str":
        return pyjson.dumps(j[1], ensure_ascii=(rng is not None and rng.random() < 0.3))
    if t == "arr":
        return "[" + ws() + ("," + ws()).join(to_text(x, rng) + ws() for x in j[1]) + "]"
    if t == "obj":
        return "{" + ws() + ("," + ws()).join(pyjson.dumps(k) + ws() + ":" + ws() + to_text(v, rng) + ws() for k, v in j[1]) + "}"
    raise ValueError(t)

def minified(j):
    return to_text(j, None)

