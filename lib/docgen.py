"""Schema DOCUMENTS (JSON) for a node graph: every spelling the specification allows
(namespace in the name vs namespace attribute vs inherited, inline definition vs reference at each
use, definition before or after use, attribute order, extra attributes, whitespace)."""
import json as pyjson
from common import hx

class Unspellable(Exception):
    pass

def split_name(full):
    if "." in full:
        ns, _, simple = full.rpartition(".")
        return (ns or None), simple
    return None, full

class DocGen:
    def __init__(self, rng, nodes, forward=0.0, extras=0.3, shuffle=0.5):
        self.rng, self.nodes = rng, nodes
        self.forward = forward
        self.extras = extras
        self.shuffle = shuffle
        self.defined = set()
        # occurrences of named nodes in traversal order, to decide where each gets defined
        self.occ = {}
        self.count_occ(0, set())
        self.define_at = {}
        for k, n in self.occ.items():
            if n >= 2 and rng.random() < forward:
                self.define_at[k] = rng.randint(2, n)     # defined at a later occurrence: forward references
            else:
                self.define_at[k] = 1
        self.seen = {}
        self.ref_sites = []
        self.def_sites = []
        self.has_forward = any(v > 1 for v in self.define_at.values())

    def count_occ(self, k, open_):
        n = self.nodes[k]
        if n.t in ("record", "enum", "fixed"):
            self.occ[k] = self.occ.get(k, 0) + 1
            if self.occ[k] > 1:
                return
        if n.t == "array":
            self.count_occ(n.items, open_)
        elif n.t == "map":
            self.count_occ(n.values, open_)
        elif n.t == "union":
            for v in n.variants:
                self.count_occ(v, open_)
        elif n.t == "record":
            for _, fk in n.fields:
                self.count_occ(fk, open_)

    def ref(self, k, enclosing):
        """a reference to named node k written at a place whose enclosing namespace is `enclosing`: the simple name when the
        namespaces agree, the dotted fullname, or `.Simple` (leading dot = the null namespace) for a null-namespace type --
        the only spelling that reaches a null-namespace type from inside a namespace"""
        ns, simple = split_name(self.nodes[k].name)
        opts = []
        if ns == enclosing:
            opts += ["bare", "bare"]
        opts.append("dot" if ns is None else "full")
        c = self.rng.choice(opts)
        r = ("str", simple if c == "bare" else ("." + simple if c == "dot" else self.nodes[k].name))
        # every reference written, with the namespace in force there (used to derive near-miss invalid documents)
        self.ref_sites.append((r, enclosing, k))
        return r

    def name_attrs(self, k, enclosing):
        """-> (list of members, namespace for children)"""
        full = self.nodes[k].name
        ns, simple = split_name(full)
        rng = self.rng
        choices = []
        if ns is not None:
            choices.append("dotted")
            choices.append("attr")
            if ns == enclosing:
                choices.append("inherit")
        else:
            if enclosing is None:
                choices.append("inherit")
                choices.append("attr-empty")
            else:
                choices += ["attr-empty"] * 3
            choices.append("dotted-null")
        c = rng.choice(choices)
        if c == "dotted-null":
            m = [("name", ("str", "." + simple))]            # ".X": dotted name with an empty namespace part = the null namespace
            if rng.random() < 0.3:
                m.append(("namespace", ("str", rng.choice(["ignored.ns", enclosing or "ns"]))))
        elif c == "dotted":
            m = [("name", ("str", full))]
            if rng.random() < 0.3:
                m.append(("namespace", ("str", rng.choice(["ignored.ns", ""]))))    # ignored when the name is dotted
        elif c == "attr":
            m = [("name", ("str", simple)), ("namespace", ("str", ns))]
        elif c == "inherit":
            m = [("name", ("str", simple))]
        else:
            m = [("name", ("str", simple)), ("namespace", ("str", ""))]
        return m, ns

    def extras_for(self, kind):
        rng = self.rng
        out = []
        if rng.random() < self.extras:
            out.append(("doc", ("str", rng.choice(["a doc", "", "with \"quotes\" and \\ and é"]))))
        if rng.random() < self.extras / 2:
            out.append(("aliases", ("arr", [("str", "Old")])))
        if rng.random() < self.extras / 3:
            out.append(("x-custom", rng.choice([("num", "1"), ("null",), ("bool", True), ("obj", [("a", ("arr", []))])])))
        return out

    def members(self, m):
        if self.rng.random() < self.shuffle:
            self.rng.shuffle(m)
        return ("obj", m)

    def gen(self, k, enclosing):
        rng = self.rng
        n = self.nodes[k]
        lt = n.lt
        ltm = []
        if lt is not None:
            if isinstance(lt, tuple) and lt[0] == "decimal":
                ltm = [("logicalType", ("str", "decimal")), ("precision", ("num", str(lt[2])))]
                if lt[1] != 0 or rng.random() < 0.5:
                    ltm.append(("scale", ("num", str(lt[1]))))
            elif isinstance(lt, tuple):
                ltm = [("logicalType", ("str", lt[1]))]
            else:
                ltm = [("logicalType", ("str", lt))]
        if n.t in ("null", "boolean", "int", "long", "float", "double", "bytes", "string"):
            if ltm or rng.random() < 0.2:
                return self.members([("type", ("str", n.t))] + ltm + self.extras_for("prim"))
            return ("str", n.t)
        if n.t == "array":
            return self.members([("type", ("str", "array")), ("items", self.gen(n.items, enclosing))] + ltm + self.extras_for("array"))
        if n.t == "map":
            return self.members([("type", ("str", "map")), ("values", self.gen(n.values, enclosing))] + ltm + self.extras_for("map"))
        if n.t == "union":
            return ("arr", [self.gen(v, enclosing) for v in n.variants])
        # named types
        self.seen[k] = self.seen.get(k, 0) + 1
        if k in self.defined or self.seen[k] != self.define_at[k]:
            return self.ref(k, enclosing)
        self.defined.add(k)
        nm, ns = self.name_attrs(k, enclosing)
        self.def_sites.append((k, enclosing))
        if n.t == "enum":
            return self.members([("type", ("str", "enum"))] + nm + [("symbols", ("arr", [("str", s) for s in n.symbols]))] + ltm + self.extras_for("enum"))
        if n.t == "fixed":
            return self.members([("type", ("str", "fixed"))] + nm + [("size", ("num", str(n.size)))] + ltm + self.extras_for("fixed"))
        fields = []
        for fname, fk in n.fields:
            fm = [("name", ("str", fname)), ("type", self.gen(fk, ns))]
            if rng.random() < self.extras:
                fm.append(("default", rng.choice([("null",), ("num", "0"), ("str", "d")])))
            if rng.random() < self.extras / 2:
                fm.append(("order", ("str", "ascending")))
            fields.append(self.members(fm))
        return self.members([("type", ("str", "record"))] + nm + [("fields", ("arr", fields))] + ltm + self.extras_for("record"))

def to_sx(j):
    t = j[0]
    if t == "null":
        return "null"
    if t == "bool":
        return "(bool %d)" % (1 if j[1] else 0)
    if t == "num":
        return "(num %s)" % hx(j[1])
    if t == "str":
        return "(str %s)" % hx(j[1])
    if t == "arr":
        return "(arr%s)" % "".join(" " + to_sx(x) for x in j[1])
    if t == "obj":
        return "(obj%s)" % "".join(" (%s %s)" % (hx(k), to_sx(v)) for k, v in j[1])
    raise ValueError(t)

def to_text(j, rng=None):
    """JSON text; random whitespace when rng is given"""
    def ws():
        if rng is None or rng.random() < 0.6:
            return ""
        return rng.choice([" ", "\n", "\t", "  ", " \r\n "])
    t = j[0]
    if t == "null":
        return "null"
    if t == "bool":
        return "true" if j[1] else "false"
    if t == "num":
        return j[1]
    if t == "str":
        return pyjson.dumps(j[1], ensure_ascii=(rng is not None and rng.random() < 0.3))
    if t == "arr":
        return "[" + ws() + ("," + ws()).join(to_text(x, rng) + ws() for x in j[1]) + "]"
    if t == "obj":
        return "{" + ws() + ("," + ws()).join(pyjson.dumps(k) + ws() + ":" + ws() + to_text(v, rng) + ws() for k, v in j[1]) + "}"
    raise ValueError(t)

def minified(j):
    return to_text(j, None)


# ---------------------------------------------------------------------------------------------
# Graphs and derived documents aimed at the NAME rules (C07/C08/C09/C19)
# ---------------------------------------------------------------------------------------------
import gen as _G

class NameGraphGen:
    """Valid schemas whose difficulty is in the names: few simple names spread over several namespaces (X, ns.X, ns.sub.X,
    other.X ... all distinct types, told apart by size / symbols / fields), nested in one another in every
    (enclosing namespace, own namespace) arrangement, and referenced many times -- directly and through arrays, maps and
    unions, from inside and outside their namespace, recursively (conditional cycles). Node 0 is the root."""
    NSS = [None, None, "ns", "ns.sub", "other", "ns2"]

    def __init__(self, rng, n_named=None, n_simple=None, nss=None, logical=False):
        self.rng = rng
        self.n_named = n_named or rng.choice([2, 3, 4, 5, 6, 8])
        self.n_simple = n_simple or rng.choice([1, 2, 2, 4])
        self.nss = nss or list(dict.fromkeys(rng.sample(self.NSS, rng.choice([2, 3, 4]))))
        self.logical = logical

    def build(self):
        rng = self.rng
        simple = ["X", "Y", "Z", "T"][:self.n_simple]
        pairs = [(ns, s) for ns in dict.fromkeys(self.nss) for s in simple]
        rng.shuffle(pairs)
        pairs = pairs[:self.n_named]
        n = len(pairs)
        full = [(ns + "." + s) if ns else s for ns, s in pairs]
        kinds = ["record"] + [rng.choice(["record", "record", "enum", "fixed"]) for _ in range(n - 1)]
        nodes = []
        self.nodes = nodes
        # named node i lives at index i + off; the root may be a wrapper around named node 0
        wrap = rng.choice(["none"] * 4 + ["union", "array", "map"])
        off = {"none": 0, "array": 1, "map": 1, "union": 2}[wrap]
        if wrap == "array":
            nodes.append(_G.Node("array", items=1))
        elif wrap == "map":
            nodes.append(_G.Node("map", values=1))
        elif wrap == "union":
            nodes.append(_G.Node("union", variants=[1, 2]))
            nodes.append(_G.Node("null"))
        for i in range(n):
            if kinds[i] == "record":
                nodes.append(_G.Node("record", name=full[i], fields=[]))
            elif kinds[i] == "enum":
                nodes.append(_G.Node("enum", name=full[i], symbols=["S%d" % i] + ["A", "B"][:rng.randint(0, 2)]))
            else:
                lt = None
                if self.logical and rng.random() < 0.3:
                    lt = ("decimal", rng.choice([0, 2]), rng.randint(1, 2 * (i + 1)))
                nodes.append(_G.Node("fixed", name=full[i], size=i + 1, lt=lt))
        self.kinds, self.off, self.n = kinds, off, n
        for i in range(n):
            if kinds[i] == "record":
                for j in range(rng.randint(1, 4)):
                    nodes[i + off].fields.append(("f%d" % j, self.slot(i, False, 0, False)))
        # every named type must be part of the schema: hang the unreachable ones below a reachable record
        while True:
            reach = _G.reachable(nodes)
            missing = [i for i in range(n) if i + off not in reach]
            if not missing:
                break
            i = missing[0]
            owners = [o for o in range(n) if kinds[o] == "record" and o + off in reach]
            o = rng.choice(owners)
            k = i + off
            if kinds[i] == "record" and i <= o:
                k = self.container(o, k)
            nodes[o + off].fields.append(("g%d" % len(nodes[o + off].fields), k))
        return compact(nodes)

    def pick(self, owner, conditional):
        c = [i for i in range(self.n) if conditional or self.kinds[i] != "record" or i > owner]
        return self.rng.choice(c) + self.off if c else None

    def container(self, owner, inner):
        rng, nodes = self.rng, self.nodes
        c = rng.choice(["array", "map", "union"]) if nodes[inner].t != "union" else rng.choice(["array", "map"])
        if c == "array":
            nodes.append(_G.Node("array", items=inner))
        elif c == "map":
            nodes.append(_G.Node("map", values=inner))
        else:
            nodes.append(_G.Node("union", variants=[inner]))
            if rng.random() < 0.5:
                nodes.append(_G.Node("null"))
                nodes[-2].variants.insert(rng.randint(0, 1), len(nodes) - 1)
        return len(nodes) - 1 if nodes[-1].t != "null" else len(nodes) - 2

    def slot(self, owner, conditional, depth, in_union):
        rng, nodes = self.rng, self.nodes
        r = rng.random()
        if r < 0.15 or depth > 3:
            nodes.append(_G.Node(rng.choice(["int", "string", "long", "null", "bytes"])))
            return len(nodes) - 1
        if r < 0.65:
            k = self.pick(owner, conditional)
            if k is not None:
                return k
        c = rng.choice(["array", "map", "union", "union"] if not in_union else ["array", "map"])
        k = len(nodes)
        if c == "array":
            nodes.append(_G.Node("array", items=0))
            nodes[k].items = self.slot(owner, True, depth + 1, False)
        elif c == "map":
            nodes.append(_G.Node("map", values=0))
            nodes[k].values = self.slot(owner, True, depth + 1, False)
        else:
            nodes.append(_G.Node("union", variants=[]))
            used = set()
            for _ in range(rng.randint(1, 4)):
                v = self.slot(owner, True, depth + 1, True)
                bk = ("named:" + nodes[v].name) if nodes[v].t in ("record", "enum", "fixed") else nodes[v].t
                if bk in used:
                    continue
                used.add(bk)
                nodes[k].variants.append(v)
        return k

def compact(nodes):
    """drops the nodes not reachable from node 0 (keys renumbered, order kept)"""
    reach = sorted(_G.reachable(nodes))
    m = {k: i for i, k in enumerate(reach)}
    out = []
    for k in reach:
        n = nodes[k]
        if n.t == "array":
            n.items = m[n.items]
        elif n.t == "map":
            n.values = m[n.values]
        elif n.t == "union":
            n.variants = [m[v] for v in n.variants]
        elif n.t == "record":
            n.fields = [(f, m[fk]) for f, fk in n.fields]
        out.append(n)
    return out

def replace_obj(j, target, new):
    """the document with the (unique, by identity) sub-document `target` replaced"""
    if j is target:
        return new
    if j[0] == "obj":
        return ("obj", [(k, replace_obj(v, target, new)) for k, v in j[1]])
    if j[0] == "arr":
        return ("arr", [replace_obj(v, target, new) for v in j[1]])
    return j

def resolve_ref(text, enclosing):
    """fullname a reference designates (Names section of the specification; PcfSpec.spec_fullname)"""
    if "." in text:
        ns, _, simple = text.rpartition(".")
        return (ns + "." + simple) if ns else simple
    return (enclosing + "." + text) if enclosing else text

def near_miss_unknown(rng, dg, doc):
    """-> doc' in which ONE reference of doc (generated by dg) is replaced by a name that designates no definition of the
    document although a type with the same simple name exists in another namespace; None if there is no such spelling"""
    fulls = {dg.nodes[k].name for k in dg.occ}
    simples = sorted({split_name(f)[1] for f in fulls})
    nss = sorted({split_name(f)[0] or "" for f in fulls} | {"ns", ""})
    sites = list(dg.ref_sites)
    rng.shuffle(sites)
    for r, enclosing, k in sites:
        cands = []
        for s in simples:
            cands.append(s)
            cands.append("." + s)
            for ns in nss:
                if ns:
                    cands.append(ns + "." + s)
        cands = [c for c in cands if resolve_ref(c, enclosing) not in fulls]
        if cands:
            return replace_obj(doc, r, ("str", rng.choice(cands)))
    return None

def near_miss_duplicate(rng, dg, doc):
    """-> doc' = a record (in some namespace) holding doc and a SECOND definition of one of its fullnames, spelled relative to that
    record's namespace in any of the ways a definition can be spelled; None if doc defines no named type"""
    if not dg.def_sites:
        return None
    k, _ = rng.choice(dg.def_sites)
    wns = rng.choice([None, "ns", "ns.sub", "w", split_name(dg.nodes[k].name)[0]])
    fulls = {dg.nodes[x].name for x in dg.occ}
    wname = "W__"
    one = DocGen(rng, [dg.nodes[k] if dg.nodes[k].t != "record" else _G.Node("record", name=dg.nodes[k].name, fields=[])], extras=0.0)
    second = one.gen(0, wns)
    f = [("obj", [("name", ("str", "a")), ("type", None)]), ("obj", [("name", ("str", "b")), ("type", second)])]
    # doc itself is spelled for a null enclosing namespace: it can only be the first field if W__ is in the null namespace;
    # otherwise the second definition goes INSIDE doc's enclosing context by wrapping the other way round
    if wns is None:
        order = [("a", doc), ("b", second)] if rng.random() < 0.5 else [("b", second), ("a", doc)]
        return ("obj", [("type", ("str", "record")), ("name", ("str", wname)),
                        ("fields", ("arr", [("obj", [("name", ("str", fn)), ("type", ft)]) for fn, ft in order]))])
    inner = ("obj", [("type", ("str", "record")), ("name", ("str", wns + "." + wname)),
                     ("fields", ("arr", [("obj", [("name", ("str", "b")), ("type", second)])]))])
    order = [("a", doc), ("w", inner)] if rng.random() < 0.5 else [("w", inner), ("a", doc)]
    return ("arr", [ft for _, ft in order]) if doc[0] != "arr" and rng.random() < 0.5 else \
           ("obj", [("type", ("str", "record")), ("name", ("str", "V__")),
                    ("fields", ("arr", [("obj", [("name", ("str", fn)), ("type", ft)]) for fn, ft in order]))])

def permute(rng, nodes):
    """the same graph with its nodes stored in another order (node 0 stays the root): node vectors as the builder API allows them,
    where a named node may sit anywhere and is first reached through any position"""
    n = len(nodes)
    order = list(range(1, n))
    rng.shuffle(order)
    order = [0] + order                    # new position i holds old node order[i]
    m = {old: new for new, old in enumerate(order)}
    out = []
    for old in order:
        x = nodes[old]
        y = _G.Node(x.t, name=x.name, symbols=x.symbols, size=x.size, lt=x.lt)
        if x.t == "array":
            y.items = m[x.items]
        elif x.t == "map":
            y.values = m[x.values]
        elif x.t == "union":
            y.variants = [m[v] for v in x.variants]
        elif x.t == "record":
            y.fields = [(f, m[fk]) for f, fk in x.fields]
        out.append(y)
    return out

def with_cycle(rng, nodes):
    """adds a cycle of 1..4 container nodes (array / map / union, sometimes a record = a cycle through a NAMED node, which is
    expressible) below a record of the graph; the unions on the cycle also hold named types of the graph (written in full the first time
    round, by reference afterwards) and the record holding the cycle may hold them as well"""
    nodes = list(nodes)
    named = [k for k, x in enumerate(nodes) if x.t in ("record", "enum", "fixed")]
    recs = [k for k in named if nodes[k].t == "record"]
    if not recs:
        return nodes
    klen = rng.choice([1, 1, 2, 2, 3, 4])
    base = len(nodes)
    kinds = [rng.choice(["array", "map", "union", "union", "union"] + (["record"] if rng.random() < 0.25 else [])) for _ in range(klen)]
    for i, c in enumerate(kinds):
        nxt = base + (i + 1) % klen
        if c == "array":
            nodes.append(_G.Node("array", items=nxt))
        elif c == "map":
            nodes.append(_G.Node("map", values=nxt))
        elif c == "record":
            nodes.append(_G.Node("record", name=rng.choice(["", "ns.", "cyc."]) + "Cy%d" % i, fields=[("next", nxt)]))
        else:
            nodes.append(_G.Node("union", variants=[nxt]))
    extra = []
    for i, c in enumerate(kinds):
        k = base + i
        if c == "union":
            nxt = nodes[k].variants[0]
            if nodes[nxt].t == "union":
                # a union cannot hold a union directly: go through an array
                nodes.append(_G.Node("array", items=nxt))
                nodes[k].variants = [len(nodes) - 1]
            sib = rng.sample(named, min(len(named), rng.choice([0, 1, 1, 2])))
            for s in sib:
                nodes[k].variants.insert(rng.randint(0, len(nodes[k].variants)), s)
            if rng.random() < 0.3:
                nodes.append(_G.Node("null"))
                nodes[k].variants.insert(0, len(nodes) - 1)
    owner = rng.choice(recs)
    o = nodes[owner]
    o2 = _G.Node("record", name=o.name, fields=list(o.fields), lt=o.lt)
    if named and rng.random() < 0.5:
        o2.fields.append(("id", rng.choice(named) if rng.random() < 0.7 or not [k for k in named if nodes[k].t != "record"] else
                          rng.choice([k for k in named if nodes[k].t != "record"])))
    o2.fields.insert(rng.randint(0, len(o2.fields)), ("cyc", base))
    nodes[owner] = o2
    return nodes

def cycle_doc(rng):
    """-> (document, unconditional) : records R0..Rk-1 nested in one another (optionally below an envelope: array / map / union /
    other records), every record reaching the next one -- and, from the last one or from anywhere, EARLIER ones -- either directly
    (record-typed field) or through a union / array / map. `unconditional` = some record always contains itself (a cycle made of
    direct record-typed fields only), wherever that cycle sits: through the outermost record or strictly below it (rho shape),
    one record or several, with other cycles (conditional or not) next to it. Names in one or several namespaces."""
    k = rng.choice([1, 2, 2, 3, 3, 4, 5, 7])
    nss = [rng.choice([None, None, "ns", "ns.sub"]) for _ in range(k)]
    full = [(nss[i] + "." if nss[i] else "") + "R%d" % i for i in range(k)]
    direct = set()                  # (i, j): record i has a field whose type is record j itself

    def wrap(t, cond):
        if not cond:
            return t
        c = rng.choice(["union", "union", "array", "map", "deep"])
        if c == "union":
            return ("arr", [("str", "null"), t] if rng.random() < 0.7 else [t])
        if c == "array":
            return ("obj", [("type", ("str", "array")), ("items", t)])
        if c == "map":
            return ("obj", [("type", ("str", "map")), ("values", t)])
        return ("obj", [("type", ("str", "map")), ("values", ("arr", [("str", "int"), ("obj", [("type", ("str", "array")), ("items", t)])]))])

    def ref(j, enclosing):
        if nss[j] == enclosing and rng.random() < 0.6:
            return ("str", "R%d" % j)
        return ("str", full[j] if nss[j] else ".R%d" % j)

    p_cond = rng.choice([0.0, 0.3, 0.6, 0.85])
    def rec(i, enclosing):
        fields = []
        n_extra = rng.choice([0, 0, 1, 2])
        slots = ["next"] + ["back"] * n_extra if i + 1 < k else ["back"] * (1 + n_extra)
        rng.shuffle(slots)
        if rng.random() < 0.5:
            slots.insert(rng.randint(0, len(slots)), "prim")
        for s in slots:
            cond = rng.random() < p_cond
            if s == "next":
                t = rec(i + 1, nss[i])
                j = i + 1
            elif s == "back":
                j = rng.randint(0, i)          # an enclosing record (being defined): a backward reference
                t = ref(j, nss[i])
            else:
                fields.append(("obj", [("name", ("str", "p%d" % len(fields))), ("type", ("str", rng.choice(["int", "string", "null"])))]))
                continue
            if not cond:
                direct.add((i, j))
            fields.append(("obj", [("name", ("str", "f%d" % len(fields))), ("type", wrap(t, cond))]))
        if nss[i] is not None:
            nm = [("name", ("str", full[i]))] if rng.random() < 0.6 or nss[i] != enclosing else [("name", ("str", "R%d" % i))]
        elif enclosing is None:
            nm = [("name", ("str", "R%d" % i))]
        else:
            nm = [("name", ("str", ".R%d" % i))] if rng.random() < 0.3 else [("name", ("str", "R%d" % i)), ("namespace", ("str", ""))]
        m = [("type", ("str", "record"))] + nm + [("fields", ("arr", fields))]
        if rng.random() < 0.3:
            rng.shuffle(m)
        return ("obj", m)

    doc = rec(0, None)
    env = rng.choice(["none", "none", "array", "union", "record", "record2"])
    if env == "array":
        doc = ("obj", [("type", ("str", "array")), ("items", doc)])
    elif env == "union":
        doc = ("arr", [("str", "null"), doc])
    elif env in ("record", "record2"):
        inner = doc
        if env == "record2":
            inner = ("obj", [("type", ("str", "record")), ("name", ("str", "Mid")),
                             ("fields", ("arr", [("obj", [("name", ("str", "m")), ("type", inner)])]))])
        doc = ("obj", [("type", ("str", "record")), ("name", ("str", "Envelope")),
                       ("fields", ("arr", [("obj", [("name", ("str", "id")), ("type", ("str", "long"))]),
                                           ("obj", [("name", ("str", "body")), ("type", inner)])]))])
    # a directed cycle in `direct`?
    adj = {}
    for a, b in direct:
        adj.setdefault(a, []).append(b)
    color = {}
    def dfs(a):
        color[a] = 1
        for b in adj.get(a, []):
            if color.get(b) == 1 or (color.get(b) is None and dfs(b)):
                return True
        color[a] = 2
        return False
    unconditional = any(color.get(a) is None and dfs(a) for a in range(k))
    return doc, unconditional
