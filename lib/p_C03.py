"""C03 -- decoder conformance: every spec-valid encoding decodes to the defined value;
malformed encodings are rejected."""
import random, re
import common as C
import gen as G

MODEL_TARGETS = ["model/De.vo", "spec/Denote.vo", "spec/Encoding.vo"]
COQ_TARGETS = ["props/C03.vo"]
THEOREMS = [("C03", [])]
PROOF_FILES = ["props/C03.v"]
TRUSTED_BASE = []
ASSUMPTIONS = []

def run(ctx):
    rng = random.Random(ctx["seed"] * 1000003 + 3)
    n = 1500 if ctx["tier"] == "quick" else 60000
    pairs = [G.schema_and_value(rng) for _ in range(n)]
    spec_lines = ["spec %s %s" % (G.schema_sx(nodes), v) for nodes, v in pairs]
    spec = C.run_parallel(C.AVROMODEL, spec_lines)
    de_lines, expect = [], []
    for (nodes, v), s in zip(pairs, spec):
        p = C.parse_sx(s)[0]
        assert p[0] == "ok" and p[3] == "1" and p[4] == "1", (s[:200], v[:200])
        de_lines.append("de %s any %s slice" % (G.schema_sx(nodes), p[1]))
        expect.append(C.show_sx(p[5]))
    impl = C.run_parallel(C.AVRODRIVE, de_lines)
    model = C.run_parallel(C.AVROMODEL, de_lines)
    violations, diffs, distinct = [], [], set()
    for line, ri, rm, ex in zip(de_lines, impl, model, expect):
        if not C.same_outcome(ri, rm):
            diffs.append({"impl_case": line, "model_case": line, "impl": ri[:600], "model": rm[:600]})
        got = G.erase_borrow_text(ri)
        want = "(ok %s 0)" % ex
        if got != want:
            violations.append({"impl_case": line, "what": "valid encoding did not decode to the defined value",
                               "impl": ri[:600], "expected": want[:600]})
        distinct.add(line)
    return {"evaluations": len(de_lines), "distinct_nontrivial": len(distinct), "rule": "wip",
            "samples": [de_lines[0][:300]], "violations": violations, "model_diffs": diffs}
