"""C03 -- decoder conformance: every spec-valid encoding decodes to the defined value;
malformed encodings are rejected."""
import random
import common as C
import gen as G
import codec, prune, wrap

MODEL_TARGETS = ["model/De.vo", "spec/Denote.vo", "spec/DenoteOpt.vo", "spec/Encoding.vo"]
COQ_TARGETS = ["props/C03.vo", "proofs/DeDispatchTie.vo"]
THEOREMS = [("C03", ["C03_complete", "C03_long", "C03_long_is_crate", "C03_unbounded_refuted", "C03_sound", "C03_malformed_rejected", "C03_boolean_byte",
                     "C03_invalid_utf8", "C03_union_index", "C03_enum_index", "C03_negative_length", "C03_premature_end", "C03_premature_end_varint", "C03_typed_sound", "C03_typed_sound_datum"]),
            ("DeDispatchTie", ["tie_de_any", "tie_de_ignored", "tie_de_forward", "de_any_is_generated", "de_ignored_is_generated", "de_is_generated"])]
PROOF_FILES = ["proofs/DeProofs.v", "proofs/VarintProofs.v", "proofs/DeSoundBase.v", "proofs/DeSoundMain.v", "proofs/DeSoundReject.v", "proofs/DeSoundProofs.v", "proofs/DeSafetyProofs.v", "proofs/DeSoundTyped.v", "props/C03.v", "proofs/DeDispatchTie.v"]
TRUSTED_BASE = [
    "max_seq_size (Python: lib/directed.py seq_stats counts the items of every array / map of the generated value): the configuration is set to the longest sequence's length; that the value is then still the defined one is the property's statement (each sequence within the configured limit), the model De.v (c_max_seq compared per sequence) is run on the same lines; streams of datums through one DeserializerState (harness `dem`) are expected to give the specification's value for every datum -- the model has no state besides the reader and the configuration, it is compared datum by datum",
    "index malformations (Python): the leading varint of the union / enum value inside a specification-produced encoding is replaced (offset known from the wrapper: root, array of one, map of one, record after an int field; asserted against the specification's encoding of the inner value); that an index outside the schema must be rejected is the property's statement, the model De.v is compared on the same lines; targets from spec/Denote.v / DenoteOpt.v",
    "dispatch tie: translators/gen_dispatch.py (+ rustmatch.py) reads the arms of every deserialize_* method of DatumDeserializer into gen/GenDeDispatch.v; proofs/DeDispatchTie.v proves that model/De.v's de is the interpretation of those regenerated tables (the meaning of each action symbol, act_sem, is hand-written there)",
    "Coq 8.16.1 kernel; no axioms (Print Assumptions: closed)",
    "spec/{AvroValue,Encoding,Denote}.v written from the Avro specification (values, conformance, every legal block layout, expected callbacks); extracted as the oracle",
    "hand-written model/De.v, Reader.v, Varint.v of de/deserializer/**, de/read/mod.rs and integer-encoding 4.1.0, tied by the correspondence run (events, consumed bytes, Ok/Err) over valid and malformed inputs and random targets",
    "extraction (ExtrOcamlBasic) + ocaml/driver.ml; Rust harness (recording visitors)",
    "partly ignoring targets (lib/prune.py, Python): the expected value is the specification's typed value (Denote.dval_typed) from which the fields the target lacks are deleted and the parts it takes as IgnoredAny / unit variant are replaced by `ignored` / `unit` -- a projection that only removes sub-terms; the model De.v is run on the same target and compared as well",
]
ASSUMPTIONS = [
    "C03_complete needs lengths/counts/indices below 2^63 (they are written as longs): counts_fit and the length bound; the unbounded statement is refuted (C03_unbounded_refuted)",
    "soundness is proved for the dynamically typed consumer (C03_sound: Ok implies the reading of a conforming value whose relaxed encoding was consumed; C03_malformed_rejected and the five direct corollaries); the relaxations -- over-long varints up to 10 bytes, unchecked byte size after a negative block count, any decimal sign extension incl. zero bytes -- are accepted by the crate and shown by witnesses; typed-target soundness is proved for scalar / enum / duration nodes and otherwise decided by the run",
    "str::from_utf8 is modelled by the Unicode well-formedness table (model/Utf8.v); rust_decimal Display by decimal_to_string",
]

INVALID_UTF8 = [b"\xff", b"\xc0\x80", b"\xc1\xbf", b"\xe0\x80\x80", b"\xed\xa0\x80", b"\xf0\x80\x80\x80", b"\xf4\x90\x80\x80", b"\xf8\x88\x80\x80\x80",
                b"\xc3", b"\xe4\xb8", b"a\x80b", b"\xf0\x9f\x98"]

def targeted(rng):
    """(schema nodes, bytes, why) that are NOT valid encodings and must be rejected"""
    out = []
    N = G.Node
    for b in [2, 3, 0x7F, 0x80, 0xFF, rng.randrange(2, 256)]:
        out.append(([N("boolean")], bytes([b]), "boolean byte %d" % b))
        out.append(([N("array", items=1), N("boolean")], G.varint(2) + bytes([1, b]) + b"\x00", "boolean byte %d in array" % b))
    for bad in INVALID_UTF8:
        out.append(([N("string")], G.varint(len(bad)) + bad, "invalid UTF-8 string"))
        out.append(([N("map", values=1), N("int")], G.varint(1) + G.varint(len(bad)) + bad + G.varint(5) + b"\x00", "invalid UTF-8 map key"))
        out.append(([N("string", lt="uuid")], G.varint(len(bad)) + bad, "invalid UTF-8 uuid"))
    for d in [2, 3, 100, -1, -2, 2**31, 2**62, -2**63]:
        out.append(([N("union", variants=[1, 2]), N("null"), N("int")], G.varint(d) + G.varint(1), "union index %d" % d))
        out.append(([N("enum", name="E", symbols=["A", "B"])], G.varint(d), "enum index %d" % d))
    for l in [-1, -2, -64, -2**31, -2**63]:
        out.append(([N("bytes")], G.varint(l) + b"abc", "negative bytes length %d" % l))
        out.append(([N("string")], G.varint(l) + b"abc", "negative string length %d" % l))
        out.append(([N("bytes", lt=("decimal", 0, 5))], G.varint(l) + b"abc", "negative decimal length"))
    out.append(([N("bytes", lt=("decimal", 0, 5))], G.varint(17) + b"\x00" * 17, "decimal longer than 16 bytes"))
    out.append(([N("int")], b"\x80\x80\x80\x80\x10", "int out of 32-bit range"))
    out.append(([N("int")], b"\xff\xff\xff\xff\xff\xff\xff\xff\xff\x02", "varint beyond 64 bits"))
    out.append(([N("long")], b"\x80" * 10 + b"\x01", "varint of 11 bytes"))
    # (the byte size after a negative block count is read and discarded when the items are decoded one by one, as the
    #  reference implementations do; it is only used -- and then checked against the input -- when skipping)
    return out

def index_positions(rng, quick):
    """Schemas whose root is a union or an enum (nullable unions [null,T] / [T,null] over every leaf kind and over
    record / array, unions of two non-null branches, of one and of three branches, enums of 1..100 symbols) with a
    conforming value, each embedded at the root, in an array, in a map, and between two record fields.
    -> [(inner nodes, inner value, wrapped nodes, wrapped value, offset of the index in the wrapped encoding, #branches)]"""
    import directed as D
    N = G.Node
    inner = []
    leaves = [ns for lab, ns in G.leaf_kind_schemas() if not lab.startswith("unknown-logical") and lab != "null"]
    extra = [[N("record", name="ns.Rec", fields=[("a", 1), ("b", 2)]), N("int"), N("string")], [N("array", items=1), N("long")],
             [N("map", values=1), N("string")]]
    for ns in leaves + extra:
        for null_first in (True, False):
            body = wrap.shift(ns, 2)
            inner.append([N("union", variants=[1, 2] if null_first else [2, 1]), N("null")] + body)
    # unions of ONE branch (legal, rare): the only in-range index is 0
    for x in ("string", "null", "long", "bytes"):
        inner.append([N("union", variants=[1]), N(x)])
    inner.append([N("union", variants=[1]), N("record", name="ns.Only", fields=[("a", 2)]), N("int")])
    for _ in range(30 if quick else 600):
        inner.append(D.plain_union_case(rng, None, wrapper="root"))
    for n in (1, 2, 3, 4, 63, 64, 65, 100):
        inner.append([N("enum", name="ns.En%d" % n, symbols=["S%d" % i for i in range(n)])])
    out = []
    for nodes in inner:
        vg = G.ValueGen(rng, nodes, layouts=False)
        nb = len(nodes[0].variants) if nodes[0].t == "union" else len(nodes[0].symbols)
        vals = set()
        for _ in range(6):
            v = vg.gen(0)
            if v is not None:
                vals.add(v)
            if len(vals) >= min(nb, 2):
                break
        for v in sorted(vals):
            for w in ("root", "array", "map", "record"):
                if w == "root":
                    out.append((nodes, v, nodes, v, 0, nb))
                elif w == "array":
                    out.append((nodes, v, [N("array", items=1)] + wrap.shift(nodes, 1), "(array (blk 0 %s))" % v, 1, nb))
                elif w == "map":
                    key = G.rand_str(rng, 4).encode()
                    out.append((nodes, v, [N("map", values=1)] + wrap.shift(nodes, 1), "(map (blk 0 (%s %s)))" % (C.hx(key), v),
                                1 + len(G.varint(len(key))) + len(key), nb))
                else:
                    h = G.rand_int(rng, -2**31, 2**31 - 1)
                    k = len(nodes)
                    wn = [N("record", name="W__", fields=[("head", k + 1), ("u", 1), ("tail", k + 2)])] + wrap.shift(nodes, 1) + [N("int"), N("string")]
                    out.append((nodes, v, wn, "(record (int %d) %s (string %s))" % (h, v, C.hx(G.rand_str(rng))), len(G.varint(h)), nb))
    return out

def index_malformations(rng, quick):
    """single-point malformation of the union / enum index of a valid encoding: the index is replaced by one that is
    outside the schema (n, n+1, ..., negative, huge), everything else -- the payload of the branch that was selected --
    is kept. Decoded under the dynamic target, the ordinary Rust types of the schema (Option<T> for [null,T], enum by
    branch name, Option<enum> -- spec/Denote.v, DenoteOpt.v) and targets that take the position as Option<any> /
    Option<ignored> / any / IgnoredAny (unions). -> [(line, kind)]; every one of them must be rejected"""
    pos = index_positions(rng, quick)
    sp_in = codec.spec_batch([(a, b) for a, b, *_ in pos])
    sp_w = codec.spec_batch([(c, d) for _, _, c, d, *_ in pos])
    out = []
    for (nodes, v, wn, wv, off, nb), si, sw in zip(pos, sp_in, sp_w):
        enc_in, enc = C.unhex(si["enc"]), C.unhex(sw["enc"])
        assert enc[off:off + len(enc_in)] == enc_in, (sw["schema"], wv)
        idx = int(C.parse_sx(v)[0][1])
        old = G.varint(idx)
        assert enc_in.startswith(old)
        is_union = nodes[0].t == "union"
        tgs = ["any", sw["ttarget"]]
        if sw["otarget"] != sw["ttarget"]:
            tgs.append(sw["otarget"])
        alts = ["(option any)", "any", "i64", "str"] + (["(option ignored)", "ignored"] if is_union else [])
        if is_union:
            # every branch taken as a unit variant (payload ignored)
            alts.append("(enum x55%s)" % "".join(" (unit %s)" % C.hx(present_type_name(nodes, k)) for k in nodes[0].variants))
        for alt in alts:
            if si["ttarget"] in sw["ttarget"]:
                tgs.append(sw["ttarget"].replace(si["ttarget"], alt, 1))
        ds = [nb, nb + 1, nb + 62, 100, -1, -2, 2**31, 2**62, 2**63 - 1, -2**63]
        for d in (ds if not quick else [nb, nb + 1] + rng.sample(ds[2:], 3)):
            bad = enc[:off] + G.varint(d) + enc[off + len(old):]
            for tg in (tgs if not quick else tgs[:3] + rng.sample(tgs[3:], min(2, len(tgs) - 3))):
                out.append(("de %s %s %s %s" % (sw["schema"], tg, C.hx(bad), rng.choice(["slice", "slice", "(chunks 1)", "(chunks 3)"])),
                            "malformed: %s index %d outside the schema (%d %s)" % ("union" if is_union else "enum", d, nb,
                                                                                   "branches" if is_union else "symbols")))
    return out

def present_type_name(nodes, k):
    from present import type_name
    return type_name(nodes, k)

def run(ctx):
    rng = random.Random(ctx["seed"] * 1000003 + 3)
    n = 900 if ctx["tier"] == "quick" else 40000
    pairs = [G.schema_and_value(rng) for _ in range(n)]
    # exhaustive block layouts of small arrays: every composition of k items x every sign pattern
    for k in range(0, 5):
        items = ["(int %d)" % G.rand_int(rng, -2**31, 2**31 - 1) for _ in range(k)]
        def comps(m):
            if m == 0:
                yield []
                return
            for first in range(1, m + 1):
                for rest in comps(m - first):
                    yield [first] + rest
        for comp in comps(k):
            for signs in range(2 ** len(comp)):
                i, blocks = 0, []
                for j, c in enumerate(comp):
                    blocks.append("(blk %d %s)" % ((signs >> j) & 1, " ".join(items[i:i + c])))
                    i += c
                pairs.append(([G.Node("array", items=1), G.Node("int")], "(array%s)" % "".join(" " + b for b in blocks)))
    # values that hold SEVERAL sequences (sibling arrays / maps, nested ones, rows of them): for the small max_seq_size below
    import directed as D
    for _ in range(260 if ctx["tier"] == "quick" else 8000):
        nodes = D.multi_seq_case(rng)
        vg = G.ValueGen(rng, nodes)
        if rng.random() < 0.6:
            vg.array_len = {k: rng.randint(1, 4) for k, nd in enumerate(nodes) if nd.t == "array"}
        v = vg.gen(0)
        if v is not None:
            pairs.append((nodes, v))
    sp = codec.spec_batch(pairs)
    lines, meta = [], []
    dem_lines, dem_meta = [], []
    for s in sp:
        enc = C.unhex(s["enc"])
        # DeserializerConfig::max_seq_size bounds the length of EACH array / map: with the limit set to the length of the
        # longest sequence of the value (every sequence within it, their total beyond it) the value is still the defined
        # one, under every target; one item less and the model decides (Err, unless the long one is skipped block-wise)
        longest, total, nseq = D.seq_stats(s["evalue"])
        if nseq >= 1 and longest >= 1:
            if nseq >= 2:
                for tg, exp in rng.sample([("any", s["dany"]), (s["ttarget"], s["dtyped"]), ("ignored", "ignored")], 2):
                    mode = rng.choice(["slice", "slice", "(chunks 1)", "(chunks %d)" % rng.randint(2, 9)])
                    lines.append("de %s %s %s %s (cfg %d 64)" % (s["schema"], tg, s["enc"], mode, longest))
                    meta.append(("valid-max_seq_size-tight", "(ok %s 0)" % exp, s))
                lines.append("de %s %s %s slice (cfg %d 64)" % (s["schema"], rng.choice(["any", s["ttarget"], "ignored"]), s["enc"], longest - 1))
                meta.append(("max_seq_size-below", "model", s))
            # several datums through ONE DeserializerState (state.deserializer() per datum, as a stream of datums is read):
            # the limit applies to each sequence of each datum
            if len(enc) < 400 and rng.random() < 0.5:
                k = rng.randint(2, 6)
                tg, exp = rng.choice([("any", s["dany"]), (s["ttarget"], s["dtyped"])])
                mode = rng.choice(["slice", "slice", "(chunks 1)", "(chunks %d)" % rng.randint(2, 9)])
                dem_lines.append("dem %s %s %s %s (cfg %d 64) %d" % (s["schema"], tg, C.hx(enc * k), mode, longest, k))
                dem_meta.append("(ok%s 0)" % ((" (ok %s)" % exp) * k))
        for tg, exp in (("any", s["dany"]), ("typed", s["dtyped"])):
            target = "any" if tg == "any" else s["ttarget"]
            lines.append("de %s %s %s slice" % (s["schema"], target, s["enc"]))
            meta.append(("valid-" + tg, "(ok %s 0)" % exp, s))
        # the same through a buffered reader with small refills (values straddle refill boundaries)
        lines.append("de %s %s %s (chunks %d)" % (s["schema"], rng.choice(["any", s["ttarget"]]) if False else "any", s["enc"], rng.choice([1, 1, 2, 3, 5, 7])))
        meta.append(("valid-reader", "(ok %s 0)" % s["dany"], s))
        # followed by other data: exactly the encoding is consumed
        extra = G.rand_bytes(rng, rng.randint(1, 5))
        lines.append("de %s any %s slice" % (s["schema"], C.hx(enc + extra)))
        meta.append(("valid-followed", "(ok %s %d)" % (s["dany"], len(extra)), s))
        # the same encoding through serde's IgnoredAny (the deserialize_ignored_any fast paths: no UTF-8 check, no decimal
        # parsing, jumps over byte-size prefixed blocks): at the root, alone and followed by other data -- exactly the
        # encoding is consumed
        lines.append("de %s ignored %s %s" % (s["schema"], s["enc"], rng.choice(["slice", "(chunks 1)", "(chunks %d)" % rng.randint(2, 9)])))
        meta.append(("valid-ignored", "(ok ignored 0)", s))
        lines.append("de %s ignored %s %s" % (s["schema"], C.hx(enc + extra), rng.choice(["slice", "slice", "(chunks %d)" % rng.randint(1, 9)])))
        meta.append(("valid-ignored-followed", "(ok ignored %d)" % len(extra), s))
        # ... and below the root: the typed target with record fields it does not know, parts taken as IgnoredAny, union
        # branches taken as unit variants; every part that IS read must be the specification's value
        pr = prune.pruned(rng, s["ttarget"], s["dtyped"])
        if pr is not None:
            lines.append("de %s %s %s %s" % (s["schema"], pr[0], s["enc"], rng.choice(["slice", "slice", "(chunks 1)", "(chunks %d)" % rng.randint(2, 40)])))
            meta.append(("valid-partly-ignored", "(ok %s 0)" % pr[1], s))
        # every strict prefix of a valid encoding is not an encoding: premature end
        if enc:
            k = rng.randrange(len(enc))
            lines.append("de %s any %s %s" % (s["schema"], C.hx(enc[:k]), rng.choice(["slice", "(chunks 3)"])))
            meta.append(("truncated", "err", s))
    # every kind of leaf, ignored in every way a target can ignore it (unknown record field, IgnoredAny field, array items,
    # map values, union branch as a unit variant), followed by a field that is read
    dcases = []
    for label, nodes in G.leaf_kind_schemas():
        vg = G.ValueGen(rng, nodes)
        for _ in range(2 if ctx["tier"] == "quick" else 12):
            v = vg.gen(0)
            if v is None:
                continue
            for w, e, t, exp, kind in wrap.ignoring_forms(rng, nodes, v, vg, G.rand_int(rng, -2**63, 2**63 - 1)):
                dcases.append((w, e, t, exp, "ignored-leaf-%s" % kind, label))
    for (w, e, t, exp, kind, label), s in zip(dcases, codec.spec_batch([(w, e) for w, e, *_ in dcases])):
        lines.append("de %s %s %s %s" % (s["schema"], t, s["enc"], rng.choice(["slice", "slice", "(chunks 1)", "(chunks %d)" % rng.randint(2, 9)])))
        meta.append((kind, "(ok %s 0)" % exp, s))
    for nodes, b, why in targeted(rng):
        for mode in ("slice", "(chunks 1)"):
            lines.append("de %s %s %s %s" % (G.schema_sx(nodes), rng.choice(["any", "any", "str", "i64"]) if "UTF" not in why else rng.choice(["any", "str", "string"]), C.hx(b), mode))
            meta.append(("malformed: " + why, "err", None))
    for line, kind in index_malformations(rng, ctx["tier"] == "quick"):
        lines.append(line)
        meta.append((kind, "err", None))
    # the EMPTY union has no value at all: every index is outside the schema, under every target (Option<_> has its own lookup)
    N = G.Node
    for d in (0, 1, 2, -1, 63, 2**40):
        for tg, wn, pre, post in (("%s", [N("union", variants=[])], b"", b""),
                                  ("(struct x575f5f (x68 i32) (x75 %s) (x74 str))", [N("record", name="W__", fields=[("h", 1), ("u", 2), ("t", 3)]), N("int"), N("union", variants=[]), N("string")], G.varint(7), b"\x02t"),
                                  ("(seq %s)", [N("array", items=1), N("union", variants=[])], G.varint(1), b"\x00")):
            for inner_t in ("any", "(option any)", "(option ignored)", "(option str)", "(option i64)", "ignored", "(enum x55 (unit x4e756c6c))"):
                lines.append("de %s %s %s %s" % (G.schema_sx(wn), tg % inner_t, C.hx(pre + G.varint(d) + rng.choice([b"", b"\x06abc"]) + post), rng.choice(["slice", "(chunks 1)"])))
                meta.append(("malformed: index %d of an empty union" % d, "err", None))
    impl, model = codec.both(lines)
    violations, diffs, samples, distinct = [], [], [], set()
    from collections import Counter
    dist = Counter()
    for line, ri, rm, (kind, want, s) in zip(lines, impl, model, meta):
        distinct.add(line)
        dist[kind.split(":")[0]] += 1
        if not C.same_outcome(ri, rm):
            diffs.append(codec.diff_entry(line, ri, rm))
        if want == "model":
            continue
        if want == "err":
            if not ri.startswith("(err"):
                violations.append({"impl_case": line, "what": "%s was not rejected" % kind, "impl": ri[:300]})
        elif G.erase_borrow_text(ri) != want:
            violations.append({"impl_case": line, "what": "a valid encoding (%s) did not decode to the defined value" % kind,
                               "impl": ri[:400], "expected": want[:400]})
        if len(samples) < 6 and kind.startswith("malformed"):
            samples.append({"kind": kind, "case": line[:200]})
    # streams of datums through one state (harness `dem`): each datum must be the defined value (the specification's; the
    # model was compared on the single datum under the same configuration above)
    for line, ri, want in zip(dem_lines, C.run_parallel(C.AVRODRIVE, dem_lines), dem_meta):
        distinct.add(line)
        dist["stream-of-datums-one-state"] += 1
        if G.erase_borrow_text(ri) != want:
            violations.append({"impl_case": line, "what": "a stream of valid datums read through one DeserializerState (max_seq_size = the "
                               "longest sequence of a datum): some datum did not decode to the defined value", "impl": ri[:400], "expected": want[:400]})
    return {"evaluations": len(lines) + len(dem_lines), "distinct_nontrivial": len(distinct),
            "rule": "valid encodings produced by the extracted specification encoder: random schemas/values with random block layouts, ALL block "
                    "layouts (compositions x sign patterns) of arrays of 0..4 items, decoded under the dynamic and the typed target, followed by "
                    "trailing data; the same encodings through serde's IgnoredAny at the root (alone and followed by data: exactly the encoding "
                    "is consumed) and through the typed target with fields left out / parts ignored / union branches as unit variants (expected: "
                    "the specification's typed value with exactly those parts removed); every leaf kind (primitives, every logical type over "
                    "each base, fixed and decimal-over-fixed sizes, enums) ignored in every position followed by a field that is read; strict prefixes (premature end) and targeted malformations (boolean bytes 2..255, 12 ill-formed UTF-8 "
                    "sequences in strings/keys/uuids, union and enum indices outside the schema incl. negative and huge, negative lengths, "
                    "over-long varints, oversized decimals) must be rejected; single-point malformation of the union / enum INDEX of valid "
                    "encodings (nullable unions over every leaf kind, unions of 1..3 non-null branches, enums of 1..100 symbols; at the root, in "
                    "arrays, maps, record fields; index replaced by n, n+1, negative, huge) decoded under the dynamic target, the ordinary Rust "
                    "types (Option<T>, enum by branch name, Option<enum>) and Option<any>/IgnoredAny/unit-variant targets: must be rejected; "
                    "values with SEVERAL sequences (sibling / nested arrays and maps, rows) under max_seq_size = the length of the longest "
                    "one (any / typed / IgnoredAny targets: the defined value; one less: the model decides) and streams of 2..6 such datums read "
                    "through ONE DeserializerState (harness `dem`: each datum the defined value); "
                    "model vs crate on everything",
            "samples": samples, "violations": violations, "model_diffs": diffs, "distribution": dict(dist), "exhaustive": False}
