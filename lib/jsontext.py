"""JSON TEXT on both sides: the crate gets a text, the model gets the SAME text (`(text x..)` / `jsonread x..`: the extracted
JsonRead.json_of_text) -- Python's json module is only a third reading, kept as a cross-check of the model's reader.

 - number tokens: the model keeps a number token as written, serde_json re-prints the value it read (docgen.serde_num);
   `norm_text_numbers` applies serde_num to the number tokens of a compact JSON text (strings skipped), so that the model's
   Json.json_text of the document it read can be compared text for text with what the crate reports;
 - `out_of_range` = the one modelling gap of the reader: serde_json rejects a number token whose value overflows f64
   (1e999, 400 digits), the model keeps the token. Only a text holding such a token may be classified `unmodelled`;
 - `py_read`: Python's reading of a text (order, duplicate keys and number tokens kept);
 - `reader_cases`: the directed + random family of texts aimed at the reader itself (C19)."""
import json as pyjson, re
import common as C
import docgen as D

NUM = re.compile(r"-?(?:0|[1-9][0-9]*)(?:\.[0-9]+)?(?:[eE][+-]?[0-9]+)?")

def number_tokens(text):
    """spans of the number tokens of a JSON text (str), string literals skipped"""
    i, n = 0, len(text)
    while i < n:
        c = text[i]
        if c == '"':
            i += 1
            while i < n and text[i] != '"':
                i += 2 if text[i] == "\\" else 1
            i += 1
        elif c in "-0123456789":
            m = NUM.match(text, i)
            if m:
                yield m.span()
                i = m.end()
            else:
                i += 1
        else:
            i += 1

def norm_text_numbers(text):
    """the compact JSON text `text` with every number token in the spelling serde_json prints for the value it reads from it"""
    out, last = [], 0
    for a, b in number_tokens(text):
        out.append(text[last:a])
        try:
            out.append(D.serde_num(text[a:b]))
        except ValueError:
            out.append(text[a:b])
        last = b
    out.append(text[last:])
    return "".join(out)

def norm_hex(h):
    """the same on the hex atom of a result line"""
    return C.hx(norm_text_numbers(C.unhex(h).decode("utf-8")))

def out_of_range(text):
    """does the text (bytes or str) hold, outside string literals, a number token whose value is not a finite f64?"""
    if isinstance(text, (bytes, bytearray)):
        text = bytes(text).decode("utf-8", "replace")
    for a, b in number_tokens(text):
        try:
            f = float(text[a:b])
        except (ValueError, OverflowError):
            return True
        if f != f or f in (float("inf"), float("-inf")):
            return True
    return False

def type_as_tagged_enum(ast):
    """does the document (AST as printed by the model's `jsonread`, parsed by common.parse_sx) hold an object whose "type" member is a
    one-entry object with a null value ({"type":{"int":null}})? The crate's derived `raw::Type` enum accepts that spelling of a type
    name (serde's externally tagged form); model/Parse.v only has the string. The one place where the two are allowed to differ."""
    if not isinstance(ast, list) or not ast:
        return False
    if ast[0] == "arr":
        return any(type_as_tagged_enum(x) for x in ast[1:])
    if ast[0] == "obj":
        for m in ast[1:]:
            k, v = m[0], m[1]
            if k == C.hx("type") and isinstance(v, list) and v[0] == "obj" and len(v) == 2 and v[1][1] == "null":
                return True
            if type_as_tagged_enum(v):
                return True
    return False

PY_DEPTH = 120

def py_read(text):
    """Python's reading of a JSON text (bytes or str) -> ("ok", ast) | ("reject", why) | ("unknown", why).
    `unknown`: nesting deeper than PY_DEPTH (the limit is serde_json's business, not Python's)"""
    if isinstance(text, (bytes, bytearray)):
        try:
            text = bytes(text).decode("utf-8")
        except UnicodeDecodeError:
            return ("reject", "not UTF-8")
    def pairs(p):
        return ("obj", list(p))
    def bad(_):
        raise ValueError("constant")
    try:
        v = pyjson.loads(text, object_pairs_hook=pairs, parse_int=lambda t: ("num", t), parse_float=lambda t: ("num", t), parse_constant=bad)
    except RecursionError:
        return ("unknown", "deep")
    except ValueError as e:
        return ("reject", str(e)[:60])
    class Deep(Exception):
        pass
    def conv(x, depth=0):
        if depth > PY_DEPTH:
            raise Deep()
        if x is None:
            return ("null",)
        if x is True or x is False:
            return ("bool", x)
        if isinstance(x, tuple) and x and x[0] == "num":
            return x
        if isinstance(x, tuple) and x and x[0] == "obj":
            for k, _ in x[1]:
                k.encode("utf-8")
            return ("obj", [(k, conv(v, depth + 1)) for k, v in x[1]])
        if isinstance(x, str):
            x.encode("utf-8")           # lone surrogates: serde_json rejects them
            return ("str", x)
        if isinstance(x, list):
            return ("arr", [conv(v, depth + 1) for v in x])
        raise ValueError("type")
    try:
        return ("ok", conv(v))
    except Deep:
        return ("unknown", "deep")
    except RecursionError:
        return ("unknown", "deep")
    except UnicodeEncodeError:
        return ("reject", "lone surrogate")
    except ValueError as e:
        return ("reject", str(e)[:60])

def model_jsonread(texts):
    """the model's reader alone on each text -> result lines `(ok AST xCOMPACT)` | `(err)`"""
    return C.run_parallel(C.AVROMODEL, ["jsonread " + C.hx(t) for t in texts], timeout=240)

def ast_cross_check(texts, asts, what, jm=None):
    """the model's reading of each text must be the AST Python holds for it (asts[i]: an AST, or None = no statement).
    -> list of model differences"""
    if jm is None:
        jm = model_jsonread(texts)
    diffs = []
    for t, ast, rm in zip(texts, asts, jm):
        if ast is None:
            continue
        want = "(ok " + D.to_sx(ast) + " "
        if not rm.startswith(want):
            diffs.append({"impl_case": "jsonread " + C.hx(t), "model_case": "jsonread " + C.hx(t), "model": rm[:400], "impl": "(python) " + want[:400],
                          "what": "%s: the model's reader (JsonRead.json_of_text) does not read the text as the AST the text was written from / Python reads" % what})
    return diffs

def py_cross_check(texts, jm, what):
    """Python's json module as a third reader: accept/reject and the AST, against the model's `jsonread` results"""
    diffs = []
    stats = {"py-ok": 0, "py-reject": 0, "py-unknown": 0}
    for t, rm in zip(texts, jm):
        verdict, x = py_read(t)
        stats["py-" + verdict] += 1
        if verdict == "unknown":
            continue
        mk = rm.split(" ")[0].strip("()")
        bad = None
        if verdict == "ok" and not rm.startswith("(ok " + D.to_sx(x) + " "):
            bad = "(ok %s ..)" % D.to_sx(x)[:300]
        elif verdict == "reject" and mk != "err":
            bad = "(reject %s)" % x
        if bad:
            diffs.append({"impl_case": "jsonread " + C.hx(t), "model_case": "jsonread " + C.hx(t), "model": rm[:400], "impl": "(python) " + bad,
                          "what": "%s: the model's reader and Python's json module read this text differently" % what})
    return diffs, stats

# ---------------------------------------------------------------------------------------------------------------------------------
# the family of texts aimed at the reader
# ---------------------------------------------------------------------------------------------------------------------------------
def b(s):
    return s.encode("utf-8") if isinstance(s, str) else bytes(s)

# positions of a schema document: (label, prefix, suffix, nesting levels the wrapper adds)
WRAPPERS = [
    ("whole", b"", b"", 0),
    ("doc", b'{"type":"record","name":"R","doc":', b',"fields":[]}', 1),
    ("default", b'{"type":"record","name":"R","fields":[{"name":"f","type":"int","default":', b'}]}', 3),
    ("custom", b'{"type":"fixed","name":"F","size":4,"x-custom":', b'}', 1),
    ("custom-in-array", b'{"type":"int","x":[1,', b',"after"]}', 2),
]
# positions the parser interprets
STRING_WRAPPERS = [
    ("type-string", b'{"type":"array","items":', b'}', 1),
    ("type-attr", b'{"type":', b'}', 1),
    ("name", b'{"type":"fixed","size":1,"name":', b'}', 1),
    ("namespace", b'{"type":"fixed","size":1,"name":"F","namespace":', b'}', 1),
    ("symbol", b'{"type":"enum","name":"E","symbols":["A",', b']}', 2),
    ("field-name", b'{"type":"record","name":"R","fields":[{"type":"int","name":', b'}]}', 3),
    ("logical", b'{"type":"int","logicalType":', b'}', 1),
    ("key", b'{"type":"int",', b':1}', 1),
    ("union-branch", b'["null",', b']', 1),
]
NUMBER_WRAPPERS = [
    ("size", b'{"type":"fixed","name":"F","size":', b'}', 1),
    ("precision", b'{"type":"bytes","logicalType":"decimal","scale":1,"precision":', b'}', 1),
    ("scale", b'{"type":"bytes","logicalType":"decimal","precision":40,"scale":', b'}', 1),
]

ESCAPES = [r'\"', r"\\", r"\/", r"\b", r"\f", r"\n", r"\r", r"\t", r"\u0041", r"\u00e9", r"\u00E9", r"\u00e9\u00C9", r"\uabcd", r"\uABCD", r"\uAbCd",
           r"\u0000", r"\u001f", r"\u007f", r"\uffff", r"\uFFFE", r"\ud7ff", r"\ue000",
           # surrogates: pairs in both hex cases, lone ones, wrong order, a leading one followed by something else
           r"\ud83d\ude00", r"\uD83D\uDE00", r"\uD83d\udE00", r"\ud800\udc00", r"\udbff\udfff",
           r"\ud800", r"\udc00", r"\udfff", r"\udbff", r"\ud800x", r"\ud800\n", r"\ud800\u0041", r"\ud800\ud800", r"\udc00\ud800", r"\ud83d \ude00",
           r"\ud83d\\ude00", r"\ud800\u", r"\ud800\udc0", r"\ud800\udc0g", r"\ud800\\", r"\ud83d\ude00\ude00",
           # malformed escapes
           r"\u", r"\u1", r"\u12", r"\u123", r"\u12G4", r"\u 123", r"\u+123", r"\u-123", r"\u00g0", r"\x41", r"\a", r"\v", r"\0", r"\e", r"\'", r"\U0041",
           r"\N", r"\ ", "\\\n", "\\\u00e9", r"\u{41}", r"\u0x41"]
TYPE_SPELLINGS = [r"\u0069nt", r"in\u0074", r"\u0069\u006e\u0074", r"n\u0075ll", r"str\u0069ng", r"\u0049nt", r"int\u0000", r"i\nt", r"\/int", r"lon\u0067",
                  r"\u0062ytes", r"doubl\u0065", r"\u0066loat", r"boolea\u006E", r"\u0072ecord", r"\u0061rray", r"\u006dap", r"enu\u006d", r"fixe\u0064"]

BAD_UTF8 = [b"\xc0\x80", b"\xc1\xbf", b"\xe0\x80\x80", b"\xe0\x9f\xbf", b"\xf0\x80\x80\x80", b"\xf0\x8f\xbf\xbf",       # overlong
            b"\xc3", b"\xe2\x82", b"\xf0\x9f\x98", b"\xe2", b"\xf0", b"\xf0\x9f",                                            # truncated
            b"\xed\xa0\x80", b"\xed\xbf\xbf", b"\xed\xa0\xbd\xed\xb8\x80",                                                   # surrogates encoded directly
            b"\xf4\x90\x80\x80", b"\xf5\x80\x80\x80", b"\xf7\xbf\xbf\xbf", b"\xf8\x88\x80\x80\x80", b"\xfc\x84\x80\x80\x80\x80", b"\xff", b"\xfe",   # > U+10FFFF
            b"\x80", b"\xbf", b"\xc3\xc3\xa9", b"\xc3\x28", b"\xe2\x28\xa1", b"\xf0\x28\x8c\xbc"]                           # stray / broken continuation
GOOD_UTF8 = [b"\xc2\x80", b"\xdf\xbf", b"\xe0\xa0\x80", b"\xef\xbf\xbf", b"\xed\x9f\xbf", b"\xee\x80\x80", b"\xf0\x90\x80\x80", b"\xf4\x8f\xbf\xbf",
             b"\xef\xbf\xbe", b"\x7f", b"\xc3\xa9", b"\xe2\x82\xac", b"\xf0\x9f\x98\x80", b"\xe2\x80\xa8", b"\xef\xbb\xbf"]

NUMBERS = ["0", "-0", "00", "01", "-01", "-00", "007", "+1", "+0", ".5", "-.5", "0.", "1.", "1.e1", "1.5.5", "1e", "1E", "1e+", "1e-", "1e+-1", "-", "--1", "-+1",
           "- 1", "1 2", "1e1e1", "1e1.5", "1-1", "1+1", "0x10", "0b1", "0o7", "1_000", "1,000", "1f", "1L", "1d", "Infinity", "-Infinity", "NaN", "inf", "nan",
           "1e999", "-1e999", "1E400", "1e309", "1e308", "-1e308", "1.8e308", "1.7976931348623157e308", "1.7976931348623158e308", "1.797693134862315807e308",
           "1.7976931348623159e308", "2e308", "1e-999", "-1e-999", "5e-324", "4.9e-324", "2e-324", "3e-324", "2.4703282292062327e-324", "2.4703282292062328e-324",
           "0e999", "-0e999", "0.0e999", "0e-999", "0E+999",
           "1e99999999999999999999", "-1e99999999999999999999", "1e-99999999999999999999", "0e99999999999999999999", "0.0e-99999999999999999999",
           "0.000e+99999999999999999999", "1e18446744073709551616", "1e-18446744073709551616", "1e2147483648", "1e-2147483649", "1e4294967296",
           "9" * 400, "1" + "0" * 400, "-" + "9" * 310, "1" + "0" * 308, "1" + "0" * 309, "0." + "0" * 400 + "1", "1." + "0" * 400, "1." + "0" * 400 + "1",
           "1e" + "0" * 400 + "1", "1e-" + "0" * 400 + "1", "1e0001", "1E+0002", "0." + "9" * 400, "123456789" * 40 + "e-350", "0." + "0" * 330 + "1e331", "1" + "0" * 330 + "e-330",
           "0.0", "-0.0", "1.0", "1.50", "1e0", "1E0", "1e+0", "1e-0", "18446744073709551615", "18446744073709551616", "18446744073709551617", "-9223372036854775808",
           "-9223372036854775809", "9223372036854775807", "9223372036854775808", "4294967295", "4294967296", "2147483647", "-1", "-1.5", "1E+2", "12345678901234567890123",
           "1.0e2", "100e-2", "0.1e1", "4.0", "4.5", "4e0", "40e-1", "0.4e1", "4", "04", "4 ", " 4", "9007199254740993", "9007199254740993.0", "0.1", "0.30000000000000004",
           "1.5e-300", "8.98846567431158e307", "2.2250738585072011e-308", "2.2250738585072014e-308", "7.205759403792793e16", "123456789012345678901234567890.0"]

WHITESPACE = [b" ", b"\t", b"\n", b"\r", b"\r\n", b" \t\n\r ", b"\x0c", b"\x0b", b"\xc2\xa0", b"\xef\xbb\xbf", b"\xe2\x80\xa8", b"\xe2\x80\xa9", b"\x00", b"\x85", b"\xc2\x85",
              b"\xe3\x80\x80", b"\xe2\x80\x8b", b"\x1c", b"\x1f", b"\x08", b"\xa0", b"\xe2\x80\x83", b"\x7f", b"\\n", b"\\u0020"]
# a valid document with a mark at every place where whitespace may stand
WS_DOC = b'@{@"type"@:@"record"@,@"name"@:@"R"@,@"fields"@:@[@{@"name"@:@"a"@,@"type"@:@[@"null"@,@"int"@]@,@"default"@:@null@}@,@{@"name"@:@"b"@,@"type"@:@"long"@,@"default"@:@-1.5e1@}@]@,@"x"@:@true@,@"y"@:@false@}@'

GARBAGE = ["[1,]", '{"a":1,}', "[,1]", "[1,,2]", "{,}", "[,]", '{"a"}', '{"a":}', "{:1}", '{"a" 1}', '{"a":1 "b":2}', '{"a":1,,"b":2}', "[1 2]", "[1]]", "{}}", "[1]x", "[1] x",
           '"int" "int"', '"int",', '"int":', '"int"}', '"int"]', '"int"\x00', '"int" \x00', "nul", "nulll", "null null", "tru", "truee", "fals", "True", "False", "NULL", "None",
           "Null", "nil", "undefined", "'int'", "{'a':1}", "{a:1}", "{1:1}", "{null:1}", "{true:1}", '{["a"]:1}', '{"a":1}/*c*/', '/*c*/"int"', '//c\n"int"', '"int"//c', '#c\n"int"',
           "[", "{", '"', "", " ", "]", "}", ":", ",", "[[", "[{", '{"', '{"a', '{"a"', '{"a":', '{"a":1', '{"a":1,', "[1", "[1,", '["', '["a', "[]", "{}", "[[]]", "[{}]", '{"a":{}}',
           '{"a":[]}', "[null]", "[true,false,null]", "[ ]", "{ }", "[\n]", '"int"\n', '\n"int"', '"in\nt"', '"in\tt"', "int", "(\"int\")", "<int>", "[1;2]", '{"a"=1}', '{"a":1;"b":2}',
           '["a":1]', '{"a",1}', '{"a":1]', '[1}', '"int', 'int"', '""', '" "', '"\\', '"\\"', '"\\\\"', '"\\\\\\"', '"a\\"', "\"\"\"", '"a""b"', "[\"a\"\"b\"]", "1 ", "[1e5]", "[-]",
           "\x00", "\x00\"int\"", "\"int\"\x00", "\"i\x00nt\"", "[\x00]", "{\"a\x00\":1}", "{\"a\":\x001}", "\"\\u0000\"", "[1,\x002]",
           '{"type":"int","type":"int"}', '{"type":"int","type":"long"}', '{"type":"int","doc":1,"doc":2}', '{"type":"int","x":1,"x":1,"x":{"x":1,"x":2}}',
           '{"type":"fixed","name":"F","name":"F","size":1}', '{"type":"fixed","name":"F","size":1,"size":1}', '{"type":"fixed","name":"F","size":1,"namespace":"a","namespace":"a"}',
           '{"type":"record","name":"R","fields":[],"fields":[]}', '{"type":"enum","name":"E","symbols":["A"],"symbols":["A"]}', '{"type":"array","items":"int","items":"int"}',
           '{"type":"map","values":"int","values":"int"}', '{"type":"int","logicalType":"date","logicalType":"date"}',
           '{"type":"bytes","logicalType":"decimal","precision":4,"precision":4,"scale":1}', '{"type":"bytes","logicalType":"decimal","precision":4,"scale":1,"scale":1}',
           '{"type":"int","typ\\u0065":"int"}', '{"typ\\u0065":"int"}', '{"\\u0074ype":"int","type":"int"}', '{"type":"fixed","name":"F","\\u006eame":"F","size":1}',
           '{"type":"fixed","name":"F","siz\\u0065":1}', '{"type":"fixed","name":"F","size":1,"siz\\u0065":2}', '{"type":"record","name":"R","field\\u0073":[]}',
           '{"type":"record","name":"R","fields":[{"name":"a","name":"a","type":"int"}]}', '{"type":"record","name":"R","fields":[{"name":"a","type":"int","type":"int"}]}',
           '{"type":"record","name":"R","fields":[{"name":"a","type":"int","nam\\u0065":"b"}]}', '{"type":"record","name":"R","fields":[{"name":"a","type":"int","default":1,"default":2}]}',
           '{"":1,"type":"int"}', '{"type":"int","":""}', '{"":"int"}', '{"":{"":{"":[]}},"type":"int"}', '{"type":"record","name":"","fields":[]}', '{"type":"enum","name":"E","symbols":[""]}',
           '{"type":"record","name":"R","fields":[{"name":"","type":"int"}]}', '{"type":""}', '""', '[""]', '{"type":"fixed","name":"F","namespace":"","size":1}',
           '{"type":"int","logicalType":""}', '{"type":null}', '{"type":"int","name":null,"namespace":null,"fields":null,"symbols":null,"items":null,"values":null,"size":null,"precision":null,"scale":null,"logicalType":null}',
           '{"type":"fixed","name":"F","size":null}', '{"type":"record","name":"R","fields":null}', '{"type":{"record":null},"name":"R","fields":[]}', '{"type":{"int":null}}',
           '{"type":{"int":[]}}', '{"type":{"int":{}}}', '{"type":{"int":1}}', '{"type":{"int":null,"long":null}}', '{"type":{}}', '{"type":["int"]}', '{"type":{"type":"int"}}',
           '{"type":"array","items":{"type":{"int":null}}}', '{"type":{"array":null},"items":"int"}', '{"type":{"nope":null}}', '{"type":{"Int":null}}',
           '{"type":true}', '{"type":1}', "null", "true", "false", "1", "1.5", "[null]", "[1]", '[["int"]]', '[[]]', '{"type":"fixed","name":"F","size":true}',
           '{"type":"fixed","name":"F","size":"4"}', '{"type":"fixed","name":"F","size":[4]}', '{"type":"fixed","name":"F","size":{"a":4}}', '{"type":"fixed","name":1,"size":4}',
           '{"type":"fixed","name":["F"],"size":4}', '{"type":"enum","name":"E","symbols":"A"}', '{"type":"enum","name":"E","symbols":[1]}', '{"type":"enum","name":"E","symbols":[null]}',
           '{"type":"enum","name":"E","symbols":{"A":1}}', '{"type":"record","name":"R","fields":{}}', '{"type":"record","name":"R","fields":[[]]}', '{"type":"record","name":"R","fields":["a"]}',
           '{"type":"record","name":"R","fields":[null]}', '{"type":"record","name":"R","fields":[{}]}', '{"type":"record","name":"R","fields":[{"name":"a"}]}',
           '{"type":"record","name":"R","fields":[{"type":"int"}]}', '{"type":"record","name":"R","fields":[{"name":"a","type":null}]}', '{"type":"array","items":null}',
           '{"type":"array","items":1}', '{"type":"array","items":true}', '{"type":"int","logicalType":1}', '{"type":"int","logicalType":["date"]}']

BASE_DOCS = [
    '{"type":"record","name":"ns.R\u00e9","doc":"a \\"q\\" \\\\ \u00e9\\u00e9\\ud83d\\ude00 \U0001F600","fields":[{"name":"a","type":["null","int"],"default":null},'
    '{"name":"b","type":{"type":"fixed","name":"F","size":16},"x":[1.50,-0,1e2,true]}]}',
    ' { "type" : "enum" , "name" : "E" , "namespace" : "a.b" , "symbols" : [ "A" , "B\\u0042" ] , "default" : "A" , "aliases" : [ "x.y" ] } ',
    '[{"type":"array","items":{"type":"map","values":"\\u0069nt"}},"null",{"type":"bytes","logicalType":"decimal","precision":10,"scale":2}]',
    '"\\u0069nt"',
]

def nest(kind, d, inner=b"1"):
    """d levels of arrays / objects / both alternately around `inner`"""
    if kind == "arr":
        return b"[" * d + inner + b"]" * d
    if kind == "obj":
        return b'{"a":' * d + inner + b"}" * d
    if kind == "mixed":
        o = [b"[" if i % 2 == 0 else b'{"a":' for i in range(d)]
        c = [b"]" if i % 2 == 0 else b"}" for i in range(d)]
        return b"".join(o) + inner + b"".join(reversed(c))
    if kind == "mixed2":
        o = [b'{"k":[' for _ in range(d // 2)] + ([b"["] if d % 2 else [])
        c = [b"]}" for _ in range(d // 2)] + ([b"]"] if d % 2 else [])
        return b"".join(o) + inner + b"".join(reversed(c))
    if kind == "wide":
        # the limit is about depth, not about size: many siblings at each of d levels
        return b"[" * d + inner + b",[[1],[2],{}]]" * d
    raise ValueError(kind)

def wrap(w, v):
    return w[1] + v + w[2]

def reader_cases(rng, quick):
    """-> [(label, text as bytes)]"""
    out = []
    def add(label, v, wrappers=WRAPPERS):
        for w in wrappers:
            out.append((label + "/" + w[0], wrap(w, b(v))))
    # ---- strings: every escape kind, in free positions and in the positions the parser interprets
    for e in ESCAPES:
        for s in ('"%s"' % e, '"a%sb"' % e, '"%s%s"' % (e, e)):
            add("escape", s)
        add("escape", '"x%s"' % e, STRING_WRAPPERS)
    for e in TYPE_SPELLINGS:
        add("type-spelling", '"%s"' % e, STRING_WRAPPERS + WRAPPERS[:2])
    for c in range(0x20):
        add("control", b'"a' + bytes([c]) + b'b"', WRAPPERS[:2] + STRING_WRAPPERS[2:4])
        add("control", '"a\\u%04x"' % c, WRAPPERS[:2] + STRING_WRAPPERS[2:4])
    # ---- UTF-8: ill-formed sequences in strings (values, keys) and outside strings; boundary code points written directly
    for u in BAD_UTF8 + GOOD_UTF8:
        lab = "utf8-bad" if u in BAD_UTF8 else "utf8-boundary"
        add(lab, b'"' + u + b'"')
        add(lab, b'"a' + u + b'z"', WRAPPERS[:2] + STRING_WRAPPERS)
        add(lab, b'"' + u, WRAPPERS[:1])
        add(lab, u, WRAPPERS[:2])
        add(lab, b'"int"' + u, WRAPPERS[:2])
        add(lab, b'{' + b'"k' + u + b'":1,"type":"int"}', WRAPPERS[:1])
        add(lab, b'"\\' + u + b'"', WRAPPERS[:1])
    # ---- numbers
    for t in NUMBERS:
        add("number", t)
        add("number", "[%s]" % t, WRAPPERS[:3])
        add("number", "-" + t if not t.startswith("-") else t[1:], WRAPPERS[:2])
        add("number", t, NUMBER_WRAPPERS)
    # ---- whitespace and what is not whitespace, at every place of a document
    marks = WS_DOC.count(b"@")
    for w in WHITESPACE:
        out.append(("whitespace/everywhere", WS_DOC.replace(b"@", w)))
        for k in range(marks):
            parts = WS_DOC.split(b"@")
            out.append(("whitespace/one-place", b"".join(p + (w if i == k else b"") for i, p in enumerate(parts))))
        add("whitespace", w + b'"int"')
        add("whitespace", b'"int"' + w)
        add("whitespace", b'[1' + w + b',' + w + b'2' + w + b']')
    # ---- commas, garbage, truncation, duplicate keys, empty keys, NUL, wrong kinds
    for g in GARBAGE:
        add("structure", g, WRAPPERS[:4])
    # ---- nesting depth around serde_json's limit (128 levels), whole documents and inside free positions
    for kind in ("arr", "obj", "mixed", "mixed2", "wide"):
        for d in range(119, 133):
            for inner in (b"1", b'"int"', b"", b"{}", b"[]"):
                if kind == "wide" and inner == b"":
                    continue
                add("depth/" + kind, nest(kind, d, inner), WRAPPERS[:4] if inner in (b"1", b"") else WRAPPERS[:1])
        for d in (1000, 5000, 30000):
            add("depth/" + kind, nest(kind, d), WRAPPERS[:2])
            out.append(("depth/unclosed", nest(kind, d)[:d * (6 if kind in ("obj",) else 3)]))
    for d in range(122, 131):
        # as schemas: d levels of array / map / record / union nesting (every level costs one or two JSON levels)
        out.append(("depth/schema-array", b'{"type":"array","items":' * d + b'"int"' + b"}" * d))
        out.append(("depth/schema-map", b'{"type":"map","values":' * d + b'"int"' + b"}" * d))
        out.append(("depth/schema-union-array", b'[{"type":"array","items":' * (d // 2) + b'"int"' + b"}]" * (d // 2)))
        out.append(("depth/schema-record", b"".join(b'{"type":"record","name":"R%d","fields":[{"name":"f","type":' % i for i in range(d // 3)) + b'"int"' + b"}]}" * (d // 3)))
        out.append(("depth/schema-array+free", b'{"type":"array","items":' * (d - 10) + b'{"type":"int","x":' + nest("arr", 9) + b"}" + b"}" * (d - 10)))
        out.append(("depth/schema-array+free", b'{"type":"array","items":' * (d - 10) + b'{"type":"int","x":' + nest("mixed", 10) + b"}" + b"}" * (d - 10)))
    # ---- truncation at every byte
    for doc in BASE_DOCS:
        t = b(doc)
        for i in range(len(t) + 1):
            out.append(("truncated", t[:i]))
        for i in range(len(t)):
            out.append(("one-byte-dropped", t[:i] + t[i + 1:]))
    # ---- random: byte-level damage of valid documents, and token soups
    alphabet = [b'"', b"\\", b"{", b"}", b"[", b"]", b",", b":", b"0", b"1", b"-", b"+", b".", b"e", b"E", b" ", b"\n", b"\t", b"\x00", b"\x0c", b"\x1f", b"\x7f", b"\x80", b"\xc3",
                b"\xa9", b"\xe2", b"\xed\xa0\x80", b"\xef\xbb\xbf", b"\xf4\x90", b"\xff", b"u", b"\\u", b"\\ud800", b"\\udc00", b"\\u0000", b"null", b"true", b"false", b"n", b"t", b"f",
                b"\\\"", b"\\\\", b"1e999", b"00", b"\"type\"", b"\"int\"", b"/", b"\\/", b"'", b"a"]
    n_rand = 1500 if quick else 60000
    tokens = [b"{", b"}", b"[", b"]", b",", b":", b'"type"', b'"int"', b'"name"', b'"a"', b'"fields"', b'"record"', b'"array"', b'"items"', b'"x"', b"null", b"true", b"false",
              b"0", b"1", b"-1", b"1.5", b"1e2", b"1e999", b"01", b'"\\u0069nt"', b'"\\ud83d\\ude00"', b'"\\ud800"', b'"\xc3\xa9"', b'"\xc3"', b" ", b"\n", b"\x0c", b'""', b'"\\', b"-", b"\xef\xbb\xbf"]
    import gen as G
    for k in range(n_rand):
        r = rng.random()
        if r < 0.25:
            t = b"".join(rng.choice(tokens) for _ in range(rng.randint(1, 14)))
            out.append(("random/token-soup", t))
            continue
        if r < 0.45:
            base = b(rng.choice(BASE_DOCS))
        elif r < 0.6:
            base = wrap(rng.choice(WRAPPERS + STRING_WRAPPERS), b('"%s"' % "".join(rng.choice(ESCAPES + ["a", "é", " ", "int"]) for _ in range(rng.randint(1, 4)))))
        elif r < 0.7:
            base = wrap(rng.choice(WRAPPERS + NUMBER_WRAPPERS), b(rng.choice(NUMBERS)))
        else:
            nodes = G.SchemaGen(rng, max_nodes=rng.choice([2, 5, 9]), max_depth=3, namespaces=rng.choice([("", "a"), ("\u00e9", "x.\u00e9\u00e9.y\u00e9")])).build()
            try:
                base = b(D.to_text(D.DocGen(rng, nodes, rich=rng.choice([0.0, 0.6])).gen(0, None), rng))
            except D.Unspellable:
                continue
        t = bytearray(base)
        for _ in range(rng.choice([0, 1, 1, 1, 2, 3])):
            i = rng.randrange(len(t) + 1)
            c = rng.random()
            if c < 0.3 and t:
                del t[i:i + rng.choice([1, 1, 2, 4])]
            elif c < 0.7:
                t[i:i] = rng.choice(alphabet)
            elif c < 0.85 and i < len(t):
                t[i] = rng.randrange(256)
            else:
                del t[i:]
        out.append(("random/damaged-document", bytes(t)))
    return out
