"""Object container files written by hand (null codec): header + blocks of already encoded datums, for the families
that need exact control over what each block holds (sizes of blocks, lengths written in the data, truncation).
The schemas are given twice, as JSON text (goes into the file) and as node vector (goes to the model)."""
import gen as G

MAGIC = b"Obj\x01"
N = G.Node

def lp(b):
    return G.varint(len(b)) + b

def header(schema_json, sync, codec=b"null"):
    meta = [(b"avro.schema", schema_json), (b"avro.codec", codec)]
    return MAGIC + G.varint(len(meta)) + b"".join(lp(k) + lp(v) for k, v in meta) + G.varint(0) + sync

def block(datums, sync, count=None, size=None):
    data = b"".join(datums)
    return G.varint(len(datums) if count is None else count) + G.varint(len(data) if size is None else size) + data + sync

def file(schema_json, blocks, sync=None):
    """blocks: list of lists of encoded datums"""
    sync = sync or bytes(range(0xA0, 0xB0))
    return header(schema_json, sync) + b"".join(block(b, sync) for b in blocks)

# (label, json text, nodes, encoder of one datum holding a length-delimited / fixed field of n payload bytes [given as the
#  length to claim and the bytes actually present], can the length be chosen)
def _str(n, body):
    return G.varint(n) + body

SCHEMAS = [
    ("string", b'"string"', [N("string")], lambda n, body: _str(n, body), True),
    ("bytes", b'"bytes"', [N("bytes")], lambda n, body: _str(n, body), True),
    ("record", b'{"type":"record","name":"R","fields":[{"name":"n","type":"long"},{"name":"s","type":"string"},{"name":"t","type":"int"}]}',
     [N("record", name="R", fields=[("n", 1), ("s", 2), ("t", 3)]), N("long"), N("string"), N("int")],
     lambda n, body: G.varint(-77) + _str(n, body) + (G.varint(5) if len(body) == n else b""), True),
    ("array", b'{"type":"array","items":"bytes"}', [N("array", items=1), N("bytes")],
     lambda n, body: G.varint(2) + _str(1, b"z") + _str(n, body) + (G.varint(0) if len(body) == n else b""), True),
    ("map", b'{"type":"map","values":"string"}', [N("map", values=1), N("string")],
     lambda n, body: G.varint(1) + _str(2, b"kk") + _str(n, body) + (G.varint(0) if len(body) == n else b""), True),
    ("union", b'["null","string"]', [N("union", variants=[1, 2]), N("null"), N("string")],
     lambda n, body: G.varint(1) + _str(n, body), True),
]

def fixed_schema(size):
    """[fixed(size), string]: the encoder writes the fixed branch when n == size, the string branch otherwise"""
    return ("fixed-%d" % size, b'[{"type":"fixed","name":"F","size":%d},"string"]' % size,
            [N("union", variants=[1, 2]), N("fixed", name="F", size=size), N("string")],
            lambda n, body: (G.varint(0) + body) if n == size else (G.varint(1) + _str(n, body)), False)
