"""Embedding a schema/value inside wrappers (record{ignored: S, sentinel}, array<S> then sentinel, ...)."""
import gen as G

def shift(nodes, k):
    out = []
    for n in nodes:
        m = G.Node(n.t, name=n.name, fields=[(f, fk + k) for f, fk in n.fields] if n.fields is not None else None,
                   symbols=n.symbols, size=n.size, items=(n.items + k) if n.items is not None else None,
                   values=(n.values + k) if n.values is not None else None,
                   variants=[v + k for v in n.variants] if n.variants is not None else None, lt=n.lt)
        out.append(m)
    return out

def record_with_sentinel(nodes, value_sx, sentinel):
    """W {x: S, s: long} ; S's root is node 2"""
    new = [G.Node("record", name="W__", fields=[("x", 2), ("s", 1)]), G.Node("long")] + shift(nodes, 2)
    return new, "(record %s (long %d))" % (value_sx, sentinel)

def array_then_sentinel(nodes, values_blocks_sx, sentinel):
    """W {a: array<S>, s: long}"""
    new = [G.Node("record", name="W__", fields=[("a", 2), ("s", 1)]), G.Node("long"), G.Node("array", items=3)] + shift(nodes, 3)
    return new, "(record (array%s) (long %d))" % (values_blocks_sx, sentinel)

def map_then_sentinel(nodes, entries_blocks_sx, sentinel):
    new = [G.Node("record", name="W__", fields=[("m", 2), ("s", 1)]), G.Node("long"), G.Node("map", values=3)] + shift(nodes, 3)
    return new, "(record (map%s) (long %d))" % (entries_blocks_sx, sentinel)

def union_branch_then_sentinel(nodes, value_sx, sentinel):
    """W {u: [null, S...], s: long}; if S's root is itself a union or null, it is wrapped in an array first"""
    root = nodes[0]
    if root.t in ("union", "null"):
        new = [G.Node("record", name="W__", fields=[("u", 2), ("s", 1)]), G.Node("long"), G.Node("union", variants=[3, 4]), G.Node("null"),
               G.Node("array", items=5)] + shift(nodes, 5)
        return new, "(record (union 1 (array (blk 0 %s))) (long %d))" % (value_sx, sentinel), "Array"
    new = [G.Node("record", name="W__", fields=[("u", 2), ("s", 1)]), G.Node("long"), G.Node("union", variants=[3, 4]), G.Node("null")] + shift(nodes, 4)
    return new, "(record (union 1 %s) (long %d))" % (value_sx, sentinel), None
