"""Embedding a schema/value inside wrappers (record{ignored: S, sentinel}, array<S> then sentinel, ...)."""
import gen as G

def shift(nodes, k):
    out = []
    for n in nodes:
        m = G.Node(n.t, name=n.name, fields=[(f, fk + k) for f, fk in n.fields] if n.fields is not None else None,
                   symbols=n.symbols, size=n.size, items=(n.items + k) if n.items is not None else None,
                   values=(n.values + k) if n.values is not None else None,
                   variants=[v + k for v in n.variants] if n.variants is not None else None, lt=n.lt)
        out.append(m)
    return out

def record_with_sentinel(nodes, value_sx, sentinel):
    """W {x: S, s: long} ; S's root is node 2"""
    new = [G.Node("record", name="W__", fields=[("x", 2), ("s", 1)]), G.Node("long")] + shift(nodes, 2)
    return new, "(record %s (long %d))" % (value_sx, sentinel)

def array_then_sentinel(nodes, values_blocks_sx, sentinel):
    """W {a: array<S>, s: long}"""
    new = [G.Node("record", name="W__", fields=[("a", 2), ("s", 1)]), G.Node("long"), G.Node("array", items=3)] + shift(nodes, 3)
    return new, "(record (array%s) (long %d))" % (values_blocks_sx, sentinel)

def map_then_sentinel(nodes, entries_blocks_sx, sentinel):
    new = [G.Node("record", name="W__", fields=[("m", 2), ("s", 1)]), G.Node("long"), G.Node("map", values=3)] + shift(nodes, 3)
    return new, "(record (map%s) (long %d))" % (entries_blocks_sx, sentinel)

def union_branch_then_sentinel(nodes, value_sx, sentinel):
    """W {u: [null, S...], s: long}; if S's root is itself a union or null, it is wrapped in an array first"""
    root = nodes[0]
    if root.t in ("union", "null"):
        new = [G.Node("record", name="W__", fields=[("u", 2), ("s", 1)]), G.Node("long"), G.Node("union", variants=[3, 4]), G.Node("null"),
               G.Node("array", items=5)] + shift(nodes, 5)
        return new, "(record (union 1 (array (blk 0 %s))) (long %d))" % (value_sx, sentinel), "Array"
    new = [G.Node("record", name="W__", fields=[("u", 2), ("s", 1)]), G.Node("long"), G.Node("union", variants=[3, 4]), G.Node("null")] + shift(nodes, 4)
    return new, "(record (union 1 %s) (long %d))" % (value_sx, sentinel), None

def rename(nodes, suffix):
    """the same node vector with every named type renamed (so that two generated schemas can live in one)"""
    out = shift(nodes, 0)
    for n in out:
        if n.name is not None:
            n.name = n.name + suffix
    return out

def ignored_then_container(nodes_s, value_sx, nodes_t, blocks_sx, is_map, sentinel):
    """W {x: S, c: array<T> | map<T>, s: long}: x is what the target ignores, c and s are READ afterwards"""
    base = 3
    s_nodes = shift(nodes_s, base)
    t_at = base + len(s_nodes)
    cont = G.Node("map", values=t_at) if is_map else G.Node("array", items=t_at)
    new = [G.Node("record", name="W__", fields=[("x", base), ("c", 2), ("s", 1)]), G.Node("long"), cont] + s_nodes + shift(rename(nodes_t, "_t"), t_at)
    return new, "(record %s (%s%s) (long %d))" % (value_sx, "map" if is_map else "array", blocks_sx, sentinel)

def ignoring_forms(rng, nodes, v, vg, sent):
    """every way the target can ignore a value of schema `nodes`, each followed by a sentinel long that IS read:
    -> [(wrapped nodes, evalue, target, expected value text, kind)] ; the expected text follows from the format alone (the
    sentinel is the specification's reading of a long; what is ignored is reported as `ignored` / `unit`)"""
    from common import hx
    from present import type_name
    W, S = hx("W__"), hx("s")
    out = []
    w, e = record_with_sentinel(nodes, v, sent)
    out.append((w, e, "(struct %s (%s i64))" % (W, S), "(struct (%s (i64 %d)))" % (S, sent), "record-field-unknown"))
    out.append((w, e, "(struct %s (%s ignored) (%s i64))" % (W, hx("x"), S), "(struct (%s ignored) (%s (i64 %d)))" % (hx("x"), S, sent), "record-field-ignored"))
    items = [x for x in (vg.gen(0) for _ in range(rng.randint(0, 4))) if x is not None]
    w, e = array_then_sentinel(nodes, vg.blocks(items), sent)
    out.append((w, e, "(struct %s (%s i64))" % (W, S), "(struct (%s (i64 %d)))" % (S, sent), "array-unknown"))
    out.append((w, e, "(struct %s (%s (seq ignored)) (%s i64))" % (W, hx("a"), S),
                "(struct (%s (seq%s)) (%s (i64 %d)))" % (hx("a"), " ignored" * len(items), S, sent), "array-items-ignored"))
    keys = ["k%d" % i for i in range(len(items))]
    w, e = map_then_sentinel(nodes, vg.blocks(["(%s %s)" % (hx(k), x) for k, x in zip(keys, items)]), sent)
    out.append((w, e, "(struct %s (%s (map str ignored)) (%s i64))" % (W, hx("m"), S),
                "(struct (%s (map%s)) (%s (i64 %d)))" % (hx("m"), "".join(" ((str %s) ignored)" % hx(k) for k in keys), S, sent), "map-values-ignored"))
    w, e, forced = union_branch_then_sentinel(nodes, v, sent)
    vn = forced or type_name(w, w[2].variants[1])
    out.append((w, e, "(struct %s (%s (enum %s (unit %s) (unit %s))) (%s i64))" % (W, hx("u"), hx("U"), hx("Null"), hx(vn), S),
                "(struct (%s (enum %s unit)) (%s (i64 %d)))" % (hx("u"), hx(vn), S, sent), "union-unit-variant"))
    return out
