"""C10 -- no undefined behaviour from the self-referential schema / container reader.

Proved (Coq, coq/props/C10.v over coq/model/Ownership.v): the index/ownership LOGIC -- references created by freeze are
in bounds, nothing is dereferenced before pass 1 has written every slot (nothing at all on the error path), and in every
reachable state of the handle machine every reference held by a live object points into a live allocation.
Tested (this runner): histories generated from the handle machine are replayed on the real crate natively and UNDER MIRI
(harness_miri/, `cargo +nightly miri run`); Miri is a DETECTOR used to validate the model against the code (aliasing
model, Send/Sync, allocator are outside the Coq model) -- it is not part of the proof.  A Miri error report, or a
difference between the native run, the Miri run and the model-predicted outcomes, is a violation."""
import os, random, re, subprocess, time
from concurrent.futures import ThreadPoolExecutor
import common as C

MODEL_TARGETS = ["model/Ownership.vo", "model/Freeze.vo"]
COQ_TARGETS = ["props/C10.vo"]
THEOREMS = [("C10", ["C10_refs_in_bounds", "C10_init_before_deref", "C10_live", "C10_reader_keeps_alive",
                     "C10_use_readonly", "C10_nonvacuous_freeze", "C10_nonvacuous_machine"])]
PROOF_FILES = ["proofs/OwnershipProofs.v", "props/C10.v"]
TRUSTED_BASE = [
    "`hde` ops (hostile bytes under Option<_> / IgnoredAny): the expected token is computed by the deserializer model coq/model/De.v (driver `de` on the same graph, target, bytes, depth budget); the handle machine treats them as plain uses; which delivered event the visitor of the Rust type (String / i64 / () / IgnoredAny) accepts is a Python-side rule (serde's invalid_type)",
    "Coq 8.16.1 kernel; no axioms (Print Assumptions: closed)",
    "hand-written model/Ownership.v: index-level model of TryFrom<SchemaMut> for Schema (self_referential.rs l.249-438) and of the "
    "handle discipline Schema / Arc<Schema> / Reader / borrows; tied to the code by the Miri replay (a detector, not a proof)",
    "Miri (nightly) as the detector of memory-safety violations on the replayed histories; pure-Rust codecs only (null, deflate/miniz_oxide, snappy)",
    "extraction (ExtrOcamlBasic) + ocaml/driver.ml `own`; harness_miri (no unsafe code: #![forbid(unsafe_code)])",
]
ASSUMPTIONS = [
    "PARTIAL: the Rust aliasing model (Stacked/Tree Borrows), the soundness of `unsafe impl Send/Sync for NodeRef`, data races and the "
    "allocator (a Vec buffer keeps its address when the Vec value is moved) are NOT modelled in Coq; they are only exercised by Miri on the "
    "generated histories",
    "the borrow checker is modelled as preconditions of the handle machine (a borrowed handle cannot be dropped, moved or used mutably): "
    "the theorem is about programs that compile",
    "that deserialized values never borrow from the schema or a decompression buffer is enforced by Rust lifetimes ('s and 'de are unrelated); "
    "it is tested (values kept after every schema/reader is dropped; enum symbols / field names requested as &str fail), not proved",
]

MIRI_DIR = os.path.join(C.VERIF, "harness_miri")
NATIVE = os.path.join(MIRI_DIR, "target", "release", "avromiri")


def hx(s):
    return "x" + s.encode().hex()


# ---------------------------------------------------------------- catalogue (must agree with harness_miri/src/cat.rs)
def N(t):
    return t

CAT = {
    0: [("record", "R0", [("a", 1), ("s", 2), ("e", 3), ("u", 4), ("l", 6)]), "long", "string", ("enum", "E0", ["A", "B", "C"]),
        ("union", [5, 2]), "null", ("array", 7), "int"],
    1: [("record", "N1", [("v", 1), ("next", 2)]), "int", ("union", [3, 0]), "null"],
    2: [("map", 1), ("union", [2, 3, 4]), "null", "long", "string"],
}


def node_sx(n):
    if isinstance(n, str):
        t = n
    elif n[0] in ("array", "map"):
        t = "(%s %d)" % (n[0], n[1])
    elif n[0] == "union":
        t = "(union%s)" % "".join(" %d" % k for k in n[1])
    elif n[0] == "record":
        t = "(record %s%s)" % (hx(n[1]), "".join(" (%s %d)" % (hx(f), k) for f, k in n[2]))
    elif n[0] == "enum":
        t = "(enum %s%s)" % (hx(n[1]), "".join(" " + hx(s) for s in n[2]))
    elif n[0] == "fixed":
        t = "(fixed %s %d)" % (hx(n[1]), n[2])
    else:
        raise ValueError(n)
    return "(node %s none)" % t


def graph_sx(g):
    return "(schema %s)" % " ".join(node_sx(n) for n in g)


def keys_of(n):
    if isinstance(n, str):
        return []
    if n[0] in ("array", "map"):
        return [n[1]]
    if n[0] == "union":
        return list(n[1])
    if n[0] == "record":
        return [k for _, k in n[2]]
    return []


def with_key(n, j, k):
    """node n with its j-th key replaced by k"""
    if n[0] in ("array", "map"):
        return (n[0], k)
    if n[0] == "union":
        v = list(n[1]); v[j] = k
        return ("union", v)
    if n[0] == "record":
        f = list(n[2]); f[j] = (f[j][0], k)
        return ("record", n[1], f)
    raise ValueError(n)


# ---------------------------------------------------------------- histories
class Hist:
    """A history under construction: concrete ops for the replay binary, the abstract ops of the handle machine
    (coq/model/Ownership.v) and per-op strict expectations on the implementation's result token."""
    def __init__(self, hid, cls):
        self.id, self.cls = hid, cls
        self.pre, self.files, self.datums = [], [], []
        self.ops = []       # (concrete text, kind, [abstract texts], strict regex or None)
        self.tmp = 100
        self.scopes = []    # temp ids of open `with` scopes
        self.has_threads = False
        self.model_de = []  # (op index, model `de` line) of the hde ops
        self.same = {}      # group -> op indices whose result tokens must be equal

    def file(self, k, codec, n, perblock, corrupt="none"):
        self.pre.append("(file %d %s %d %d %s)" % (k, codec, n, perblock, corrupt))
        self.files.append((k, codec, n, corrupt))
        return len(self.files) - 1

    def datum(self, k, i):
        self.pre.append("(datum %d %d)" % (k, i))
        self.datums.append((k, i))
        return len(self.datums) - 1

    def _t(self):
        self.tmp += 1
        return self.tmp

    def add(self, text, kind, abstract, strict=None):
        self.ops.append((text, kind, abstract, strict))

    # structural ops: the model predicts ok / err / rejected exactly
    def build(self, d, g):
        self.add("(build %d %s)" % (d, graph_sx(g)), "struct", ["(build %d %s)" % (d, graph_sx(g))])
    def parse(self, d, k):
        self.add("(parse %d %d)" % (d, k), "struct", ["(parse %d %d)" % (d, len(CAT[k]))])
    def freeze(self, s, d):
        self.add("(freeze %d %d)" % (s, d), "struct", ["(freeze %d %d)" % (s, d)])
    def move(self, s, d, how):
        self.add("(move %d %d %s)" % (s, d, how), "struct", ["(move %d %d)" % (s, d)])
    def arc(self, s, d):
        self.add("(arc %d %d)" % (s, d), "struct", ["(arc %d %d)" % (s, d)])
    def clone(self, s, d):
        self.add("(clone %d %d)" % (s, d), "struct", ["(clone %d %d)" % (s, d)])
    def drop(self, s):
        self.add("(drop %d)" % s, "struct", ["(drop %d)" % s])
    def open(self, d, f, mode):
        k, codec, n, corrupt = self.files[f]
        how = "after" if corrupt == "cut-header" else "ok"
        self.add("(open %d %d %s)" % (d, f, mode), "struct", ["(open %d %d %s)" % (d, len(CAT[k]), how)])
    # data ops: the model predicts done / rejected; strict = expected token when the data is known to fit
    def read(self, s, how, strict=None):
        self.add("(read %d %s)" % (s, how), "read", ["(read %d OK BREAKS)" % s], strict)
    def _through(self, s, text, strict):
        t = self._t()
        self.add(text, "data", ["(borrow %d %d)" % (s, t), "(use %d)" % t, "(drop %d)" % t], strict)
    def ser(self, s, k, i, fits=True):
        self._through(s, "(ser %d %d %d)" % (s, k, i), r"\(ok eq\)" if fits else None)
    def de(self, s, j, how, fits=True):
        self._through(s, "(de %d %d %s)" % (s, j, how), r"\(ok eq\)" if fits else None)
    def info(self, s):
        self._through(s, "(info %d)" % s, r"\(info \d+ x[0-9a-f]{16}\)")
    def debug(self, s):
        # `{:?}` of the frozen schema (twice) and the message of a failing serialization (renders a schema node): terminates, same text
        self._through(s, "(debug %d)" % s, r"\(debug \d{1,5} \d{1,5} x[0-9a-f]{16}\)")
    def debugpar(self, s):
        # the same renderings while another thread is parked INSIDE a rendering of the same schema: texts = those of sequential use
        t = self._t()
        self.add("(debugpar %d)" % s, "data", ["(borrow %d %d)" % (s, t), "(use %d)" % t, "(use %d)" % t, "(drop %d)" % t], r"\(debugpar eq \d{1,5}\)")
        # (the interleaving is forced through channels: no need for the additional Miri schedules that free-running `threads` ops get)
    def hde(self, s, g, target, data, depth=64):
        # hostile datum bytes under an Option<_> / IgnoredAny target: the expected token is the MODEL's (coq/model/De.v through the
        # driver's `de` on the same graph, target, bytes and depth budget): Ok or a clean Err
        mt = {"optignored": "(option ignored)", "optstring": "(option string)", "optlong": "(option i64)", "optunit": "(option unit)", "ignored": "ignored"}[target]
        self.model_de.append((len(self.ops), "de %s %s x%s slice (cfg 1000000000 %d)" % (graph_sx(g), mt, data.hex(), depth)))
        self._through(s, "(hde %d %s x%s %d)" % (s, target, data.hex(), depth), r"\(hde (none|some|ok|err)\)")
    def debug_same(self, s, group):
        # `{:?}` of one schema VALUE observed at several points of its life (before / after moves): the same text every time
        self.same.setdefault(group, []).append(len(self.ops))
        self.debug(s)
    def symborrow(self, s):
        self._through(s, "(symborrow %d)" % s, r"\(symborrow err err\)")
    def threads(self, s, n, m, k, fits=True):
        ts = [self._t() for _ in range(n)]
        ab = ["(borrow %d %d)" % (s, t) for t in ts] + ["(use %d)" % t for t in ts] + ["(use %d)" % t for t in reversed(ts)] + \
             ["(drop %d)" % t for t in ts]
        self.add("(threads %d %d %d %d)" % (s, n, m, k), "data", ab, r"\(ok equal %d\)" % (n * m) if fits else None)
        self.has_threads = True
    def with_(self, s, kind):
        t = self._t()
        self.scopes.append((t, kind))
        self.add("(with %d %s)" % (s, kind), "struct", ["(borrow %d %d)" % (s, t)])
    def end(self):
        t, _ = self.scopes.pop()
        self.add("(end)", "struct", ["(drop %d)" % t])
    def cser(self, k, i, fits=True):
        t0 = self.scopes[-1][0]; t = self._t()
        self.add("(cser %d %d)" % (k, i), "data", ["(borrow %d %d)" % (t0, t), "(use %d)" % t, "(drop %d)" % t], r"\(ok eq\)" if fits else None)
    def cde(self, j, how, fits=True):
        t0 = self.scopes[-1][0]; t = self._t()
        self.add("(cde %d %s)" % (j, how), "data", ["(borrow %d %d)" % (t0, t), "(use %d)" % t, "(drop %d)" % t], r"\(ok eq\)" if fits else None)

    def line(self):
        return "hist %s (pre%s) %s" % (self.id, "".join(" " + p for p in self.pre), " ".join(o[0] for o in self.ops))


def gen_freeze_histories(rng, tier):
    """graphs with a dangling key at each position (reachable: caught by the canonical-form pass; unreachable: only these
    reach key_to_ref's error path), idx == len and idx > len, unions in unreachable nodes, error at node k for every k"""
    out = []
    # 1. every key position of the catalogue graphs replaced by len / len+2 (reachable dangling keys)
    for k in (1, 2, 0):
        g = CAT[k]
        h = Hist("frz-reach-%d" % k, "freeze-reachable-dangling")
        slot = 0
        positions = [(i, j) for i, n in enumerate(g) for j in range(len(keys_of(n)))]
        if tier == "quick" and len(positions) > 5:
            positions = rng.sample(positions, 5)
        for (i, j) in positions:
            bad = len(g) + rng.choice([0, 2])
            g2 = list(g); g2[i] = with_key(g[i], j, bad)
            h.build(slot, g2); h.freeze(slot, slot); h.drop(slot)        # freeze errs, the drop is rejected (slot empty)
            slot = (slot + 1) % 16
        out.append(h)
    # 2. unreachable extra nodes: valid ones (incl. unions over every node), then one bad node at every position k
    for k in (1, 2, 0):
        g = CAT[k]
        base = len(g)
        n_extra = 4
        total = base + n_extra
        def extras(bad_at, bad_idx, shape):
            ex = []
            for e in range(n_extra):
                pos = base + e
                valid = [rng.randrange(total) for _ in range(3)]
                if shape[e] == "array": n = ("array", valid[0])
                elif shape[e] == "map": n = ("map", valid[0])
                elif shape[e] == "union": n = ("union", [x for x in valid if x != pos] or [0])   # a union listing itself: see KF (separate history)
                else: n = ("record", "X%d" % e, [("p", valid[0]), ("q", valid[1])])
                if pos == bad_at:
                    ks = keys_of(n); j = rng.randrange(len(ks))
                    n = with_key(n, j, bad_idx)
                ex.append(n)
            return ex
        h = Hist("frz-unreach-%d" % k, "freeze-unreachable")
        dj = h.datum(k, 2)
        shapes = ["union", "array", "record", "map"]
        rng.shuffle(shapes)
        h.build(0, g + extras(None, None, shapes)); h.freeze(0, 0); h.ser(0, k, 1); h.de(0, dj, "owned"); h.move(0, 9, "box"); h.ser(9, k, 3); h.drop(9)
        slot = 1
        for bad_at in range(base, total):                     # freeze error at node k for every unreachable k
            for bad_idx in ([total, total + 3] if tier != "quick" else [rng.choice([total, total + 3])]):
                h.build(slot, g + extras(bad_at, bad_idx, shapes)); h.freeze(slot, slot)
                slot = slot % 8 + 1
        out.append(h)
    # 3. empty graph, graph whose root is a dangling array, a single self-contained record cycle
    h = Hist("frz-misc", "freeze-misc")
    h.build(0, []); h.freeze(0, 0)
    h.build(1, [("array", 1)]); h.freeze(1, 1)
    h.build(2, [("array", 0)]); h.freeze(2, 2)                 # unnamed cycle: rejected by the canonical form pass
    h.build(3, ["int", ("union", [0, 2]), ("union", [0, 1])]); h.freeze(3, 3); h.info(3); h.debug(3)   # two unreachable unions referring to each other
    h.build(4, ["int", ("map", 1)]); h.freeze(4, 4); h.info(4); h.debug(4)                              # unreachable self-referential map
    # cyclic schemas (through records) of several shapes, debug-formatted: the rendering must terminate with a bounded text
    h.build(5, [("record", "A", [("b", 1), ("l", 3)]), ("record", "B", [("a", 2)]), ("union", [4, 0]), ("array", 0), "null"]); h.freeze(5, 5); h.debug(5); h.debugpar(5)
    h.build(6, [("map", 1), ("record", "M", [("m", 0), ("u", 2)]), ("union", [3, 1, 0]), "null"]); h.freeze(6, 6); h.debug(6); h.move(6, 7, "box"); h.debug(7)
    out.append(h)
    return out


def gen_known_finding():
    """regression case of the fixed defect 2da7dbc (formerly KF-C10-1): a union that lists ITSELF as a variant, in a node unreachable from the root (a reachable one is rejected by the
    canonical-form pass): pass 2 holds `ref mut per_type_lookup` of the node while PerTypeLookup::new creates a `&SchemaNode`
    to the whole same node -> Stacked Borrows violation reported by Miri (Tree Borrows: clean)."""
    h = Hist("kf-self-union", "self-variant-union")
    h.build(0, ["int", ("union", [1, 0])]); h.freeze(0, 0); h.info(0)
    return h


def gen_handle_histories(rng, tier):
    out = []
    codecs = ["null", "snappy", "deflate"]
    # moves of a frozen schema (Box, Vec), Arc clones dropped in every order, values outliving the schema
    for k in (0, 1, 2):
        h = Hist("mv-%d" % k, "move-arc")
        d0 = h.datum(k, 3); d1 = h.datum(k, 5)
        if k == 1: h.parse(0, k)
        else: h.build(0, CAT[k]); h.freeze(0, 0)
        h.ser(0, k, 2); h.move(0, 1, "box"); h.de(1, d0, "borrowed"); h.move(1, 2, "vec"); h.ser(2, k, 4); h.move(2, 2, "plain")
        if k == 0: h.symborrow(2)
        h.debug(2)
        h.arc(2, 3); h.clone(3, 4); h.clone(4, 5); h.drop(3); h.de(4, d1, "owned"); h.move(4, 6, "vec"); h.drop(5); h.ser(6, k, 6); h.info(6); h.debug(6)
        h.drop(2)                                  # moved-from slot: rejected
        h.drop(6)
        out.append(h)
    # container readers: Arc cloned/dropped before/after/while reading, reader moved between reads, reader dropped before the clone and after
    plans = [(c, m, (i + j) % 3) for i, c in enumerate(codecs) for j, m in enumerate(("slice", "cursor", "bufread"))]
    if tier != "quick":
        plans = [(c, m, k) for c in codecs for m in ("slice", "cursor", "bufread") for k in (0, 1, 2)]
    for idx, (codec, mode, k) in enumerate(plans):
        h = Hist("rd-%d-%s-%s-%d" % (idx, codec, mode, k), "reader")
        n = 4
        f = h.file(k, codec, n, 2)
        how = "borrowed" if (codec == "null" and mode == "slice") else "owned"
        h.open(0, f, mode)
        h.clone(0, 1)                               # caller clones the reader's Arc before reading
        h.read(0, how, r"\(some 0 eq\)")
        h.drop(1)                                   # and drops it while the reader is in a block
        h.read(0, how, r"\(some 1 eq\)")
        h.move(0, 2, rng.choice(["box", "vec"]))    # reader moved between reads (inside / between blocks)
        h.clone(2, 3)
        h.read(2, "owned", r"\(some 2 eq\)")
        h.with_(3, "ser"); h.cser(k, 1); h.read(2, "owned", r"\(some 3 eq\)")
        if idx % 2 == 0:
            h.read(2, "owned", r"none"); h.drop(2); h.cser(k, 2); h.end(); h.ser(3, k, 0); h.info(3); h.drop(3)     # reader dropped before the schema clone
        else:
            h.end(); h.drop(3); h.read(2, "owned", r"none"); h.read(2, "owned", r"none"); h.ser(2, k, 1); h.drop(2)  # clone dropped before the reader
        out.append(h)
    # failing opens and breaking reads; reader dropped in the middle of a block; empty file
    h = Hist("rd-corrupt", "reader-corrupt")
    f0 = h.file(0, "null", 3, 2, "cut-header"); f1 = h.file(0, "null", 3, 2, "(trunc 7)"); f2 = h.file(1, "snappy", 3, 1, "(flip 20)"); f3 = h.file(2, "null", 0, 1)
    h.open(0, f0, "slice"); h.open(0, f0, "cursor")
    h.open(1, f1, "slice"); h.read(1, "borrowed", r"\(some 0 eq\)"); h.read(1, "owned"); h.read(1, "owned"); h.read(1, "owned"); h.read(1, "owned"); h.clone(1, 4); h.drop(1); h.ser(4, 0, 2)
    h.open(2, f2, "cursor"); h.read(2, "owned"); h.read(2, "owned"); h.read(2, "owned"); h.drop(2)
    h.open(3, f3, "bufread"); h.read(3, "owned", r"none"); h.read(3, "owned", r"none"); h.drop(3); h.drop(4)
    out.append(h)
    # configs alive while other handles on the same allocation come and go; rejected operations
    h = Hist("scope", "borrow-scope")
    d0 = h.datum(0, 1); d1 = h.datum(0, 4)
    h.parse(0, 0); h.arc(0, 1); h.clone(1, 2)
    h.with_(1, "de"); h.cde(d0, "borrowed"); h.drop(2); h.drop(1)    # the second drop is rejected: slot 1 is borrowed
    h.clone(1, 5); h.with_(5, "ser"); h.cser(0, 3); h.move(5, 6, "box")   # rejected
    h.end(); h.cde(d1, "owned"); h.end(); h.drop(1); h.ser(5, 0, 0); h.drop(5); h.ser(5, 0, 0)   # last: slot empty, rejected
    out.append(h)
    # scoped threads through one &Schema (Schema by value, Arc, the reader's schema while the reader is alive)
    for k, via in ((0, "schema"), (1, "arc"), (2, "reader")):
        h = Hist("thr-%d-%s" % (k, via), "threads")
        if via == "reader":
            f = h.file(k, "null", 2, 1)
            h.open(0, f, "slice"); h.read(0, "borrowed", r"\(some 0 eq\)"); h.threads(0, 3, 2, k); h.debugpar(0); h.read(0, "borrowed", r"\(some 1 eq\)"); h.drop(0)
        else:
            h.build(0, CAT[k]); h.freeze(0, 0)
            if via == "arc":
                h.arc(0, 1); h.clone(1, 0); h.threads(0, 3, 2, k); h.debugpar(1); h.drop(1); h.threads(0, 2, 1, k); h.debugpar(0)
            else:
                h.debugpar(0); h.threads(0, 3, 2, k); h.move(0, 1, "vec"); h.threads(1, 2, 2, k); h.debugpar(1)
        out.append(h)
    return out


def gen_boundary_histories(rng, tier):
    """container readers that hit an error EXACTLY at a block boundary (the end-of-block transition: decompressor closed,
    16-byte sync marker read and compared) and are then used again / moved / outlived by a schema clone / dropped:
    corrupt sync marker of a middle or of the last block, file cut inside a sync marker (I/O error), a block announcing one
    object less than it holds (data left in the block when it is closed) -- over readers that OWN something with drop glue:
    Cursor<Vec<u8>>, std::io::BufReader over it, a drop-counting BufRead (counted: the harness reports how many times each
    was dropped: exactly once), and the compressed codecs (the streaming decompressor owns heap state). A double drop or a
    use of moved-out state is a drop count != 1 natively and a Miri report."""
    out = []
    codecs = ["deflate", "snappy", "null"]
    modes = ["counted", "stdbuf", "cursor", "bufread", "slice"]
    n, per = 4, 2
    def corruptions():
        return [("flipsync-mid", "(flipsync 0 %d)" % rng.randrange(16), 2), ("flipsync-last", "(flipsync 1 %d)" % rng.randrange(16), 4),
                ("truncsync-mid", "(truncsync 0 %d)" % rng.randrange(16), 2), ("truncsync-last", "(truncsync 1 %d)" % rng.randrange(1, 16), 4),
                ("lesscount-mid", "(lesscount 0)", 1), ("lesscount-last", "(lesscount 1)", 3),
                ("flip-tail", "(flip %d)" % rng.randrange(16), 4), ("trunc-tail", "(trunc %d)" % rng.randrange(1, 16), 4)]
    conts = ["drop", "read-again", "clone-outlives", "move-read", "leave", "read-again-clone"]
    plans = []
    if tier == "quick":
        k = rng.randrange(100)
        for ci, codec in enumerate(codecs):
            for (ck, csx, nread) in corruptions():
                k += 1
                # the owning readers get most of the plans; every (codec, mode) pair and every continuation comes up
                mode = modes[k % 3] if (k // 3) % 3 else modes[k % 5]
                plans.append((codec, mode, ck, csx, nread, conts[k % len(conts)], k % 3))
    else:
        for codec in codecs:
            for mode in modes:
                for (ck, csx, nread) in corruptions():
                    for cont_ in conts:
                        plans.append((codec, mode, ck, csx, nread, cont_, rng.randrange(3)))
    for idx, (codec, mode, ck, csx, nread, cont_, k) in enumerate(plans):
        h = Hist("bnd-%d-%s-%s-%s-%s" % (idx, codec, mode, ck, cont_), "reader-error-at-block-boundary")
        f = h.file(k, codec, n, per, csx)
        h.open(0, f, mode)
        for i in range(nread):
            h.read(0, "owned", r"\(some %d eq\)" % i)
        h.read(0, "owned", r"err")                      # the error at the end-of-block transition
        s = 0
        if cont_ == "drop":
            h.drop(0)
        elif cont_ == "read-again":
            h.read(0, "owned", r"none|err"); h.read(0, "owned", r"none|err"); h.drop(0)
        elif cont_ == "clone-outlives":
            h.clone(0, 1); h.drop(0); h.ser(1, k, 2); h.info(1); h.drop(1)
        elif cont_ == "move-read":
            h.move(0, 2, rng.choice(["box", "vec"])); h.read(2, "owned", r"none|err"); h.drop(2)
        elif cont_ == "read-again-clone":
            h.read(0, "owned", r"none|err"); h.clone(0, 3); h.read(0, "owned", r"none|err"); h.drop(0); h.ser(3, k, 1); h.drop(3)
        else:
            h.ser(0, k, 1)                              # the reader is dropped with the slot table at the end of the history
        out.append(h)
    return out


def gen_random_history(rng, idx):
    """random walk over the handle machine (valid operations, now and then one the borrow checker would reject)"""
    h = Hist("rnd-%d" % idx, "random")
    slots = {}            # slot -> ("schema"|"arc"|"reader", k, state)
    locked = []           # slots borrowed by open scopes
    datums = {}
    nops = rng.randint(10, 18)
    files = 0
    def free():
        c = [s for s in range(12) if s not in slots]
        return rng.choice(c) if c else None
    for _ in range(nops):
        have = [s for s in slots if s not in locked]
        r = rng.random()
        d = free()
        if (not slots or r < 0.15) and d is not None:
            k = rng.choice([0, 1, 2])
            if rng.random() < 0.5: h.parse(d, k)
            else: h.build(d, CAT[k]); h.freeze(d, d)
            slots[d] = ("schema", k, None)
        elif r < 0.27 and d is not None and files < 2:
            k = rng.choice([0, 1, 2]); codec = rng.choice(["null", "null", "snappy"]); files += 1
            f = h.file(k, codec, 3, 2)
            mode = rng.choice(["slice", "cursor", "bufread"])
            h.open(d, f, mode); slots[d] = ("reader", k, [0, 3])
        elif r < 0.40 and have and d is not None:
            s = rng.choice(have); h.move(s, d, rng.choice(["plain", "box", "vec"])); slots[d] = slots.pop(s)
        elif r < 0.50 and d is not None and [s for s in have if slots[s][0] == "schema"]:
            s = rng.choice([s for s in have if slots[s][0] == "schema"]); h.arc(s, d); slots[d] = ("arc", slots.pop(s)[1], None)
        elif r < 0.62 and d is not None and [s for s in slots if slots[s][0] in ("arc", "reader")]:
            s = rng.choice([s for s in slots if slots[s][0] in ("arc", "reader")]); h.clone(s, d); slots[d] = ("arc", slots[s][1], None)
        elif r < 0.74 and have:
            s = rng.choice(have); h.drop(s); slots.pop(s)
        elif r < 0.86 and [s for s in have if slots[s][0] == "reader"]:
            s = rng.choice([s for s in have if slots[s][0] == "reader"]); st = slots[s][2]
            h.read(s, "owned", r"\(some %d eq\)" % st[0] if st[0] < st[1] else r"none")
            if st[0] < st[1]: st[0] += 1
        elif r < 0.90 and locked:
            s = locked[-1]; h.drop(s)                # rejected: borrowed by the open scope
        elif r < 0.95 and slots and len(locked) < 2:
            s = rng.choice(list(slots)); kind = rng.choice(["ser", "de"])
            h.with_(s, kind); locked.append(s)
            k = slots[s][1]
            if kind == "ser": h.cser(k, rng.randrange(6))
            else:
                if k not in datums: datums[k] = h.datum(k, rng.randrange(6))
                h.cde(datums[k], "owned")
        elif slots:
            s = rng.choice(list(slots)); k = slots[s][1]
            c = rng.random()
            if c < 0.6: h.ser(s, k, rng.randrange(8))
            elif c < 0.85: h.debug(s)
            else: h.debugpar(s)
        if locked and rng.random() < 0.3:
            h.end(); locked.pop()
    while locked:
        h.end(); locked.pop()
    return h


def varint(n):
    z = (n << 1) ^ (n >> 63)
    out = bytearray()
    while True:
        b = z & 0x7F
        z >>= 7
        if z:
            out.append(b | 0x80)
        else:
            out.append(b)
            return bytes(out)


SMALL_UNIONS = [
    [("union", [])], [("union", [1]), "string"], [("union", [1]), "null"], [("union", [1]), "long"],
    [("union", [1]), ("record", "Only", [("a", 2)]), "long"], [("union", [1]), ("array", 2), "long"],
    [("union", [1, 2]), "null", "string"], [("union", [1, 2]), "string", "null"], [("union", [1, 2]), "long", "string"],
    [("union", [1, 2, 3]), "null", "long", "string"],
]


def gen_small_union_histories(rng, tier):
    """unions of 0, 1, 2 and 3 branches decoded into Option<_> (the hint with its own branch lookup) and IgnoredAny from hostile
    bytes: every discriminant around the branch count (0, 1, 2, 3, -1, 63, 64, huge) followed by a payload that fits a string /
    a long / nothing; the schema used in place, moved and shared. Ok / Err as the model says, never a fault."""
    out = []
    targets = ["optignored", "optstring", "optlong", "optunit", "ignored"]
    for gi, g in enumerate(SMALL_UNIONS):
        h = Hist("small-union-%d" % gi, "small-union-option")
        h.build(0, g); h.freeze(0, 0)
        discs = [0, 1, 2, 3, -1, 63, 64, 2**40]
        if tier == "quick":
            discs = [0, 1, 2, -1] + rng.sample([3, 63, 64, 2**40], 1)
        slot = 0
        for i, d in enumerate(discs):
            for t in (targets if tier != "quick" else rng.sample(targets[:4], 2) + [targets[4]]):
                h.hde(slot, g, t, varint(d) + rng.choice([b"\x06abc", b"\x06abc", b"", b"\x00"]))
            if i == 1:
                h.move(slot, slot + 1, "box"); slot += 1
            elif i == 2:
                h.arc(slot, slot + 1); slot += 1
        h.drop(slot)
        out.append(h)
    return out


def gen_self_record_histories(rng, tier):
    """graphs whose frozen form is as small as can be -- ONE node that refers to itself (a record whose field is the record:
    only buildable by hand), one-node leaves, the two-node cycle next to it -- frozen and then MOVED (returned, boxed, pushed in
    a reallocating Vec, put behind an Arc) and used after every move: `{:?}` (the same text as before the move), a decode under
    a small depth budget (the model's clean recursion-limit error), a rendering while another thread is inside one."""
    out = []
    graphs = [("self1", [("record", "S", [("inner", 0)])]),
              ("self1b", [("record", "ns.S", [("a", 0), ("b", 0)])]),
              ("leaf1", ["long"]), ("enum1", [("enum", "E", ["A", "B"])]),
              ("self2", [("record", "S", [("inner", 1)]), ("record", "T", [("back", 0)])])]
    for name, g in graphs:
        h = Hist("single-%s" % name, "single-node-self-reference")
        h.build(0, g); h.freeze(0, 0)
        cyc = name.startswith("self")
        def use(slot):
            h.debug_same(slot, "d"); h.info(slot)
            h.hde(slot, g, "ignored", b"" if cyc else b"\x02", rng.choice([1, 3, 8]))
            h.hde(slot, g, "optignored", b"" if cyc else b"\x02", rng.choice([2, 5]))
        use(0)
        h.move(0, 1, "box"); use(1)
        h.move(1, 2, "vec"); use(2); h.debugpar(2)
        h.move(2, 3, "plain"); use(3)
        h.arc(3, 4); h.clone(4, 5); h.drop(4); use(5); h.move(5, 6, "vec"); use(6); h.debugpar(6)
        h.drop(6)
        out.append(h)
    return out


def generate(ctx):
    rng = random.Random(ctx["seed"] * 1000003 + 10)
    tier = "thorough" if ctx.get("focus") else ctx["tier"]
    hs = gen_freeze_histories(rng, tier) + gen_handle_histories(rng, tier) + gen_boundary_histories(rng, tier)
    hs += gen_small_union_histories(rng, tier) + gen_self_record_histories(rng, tier)
    n_random = 40 if tier == "quick" else 1500
    hs += [gen_random_history(rng, i) for i in range(n_random)]
    hs.append(gen_known_finding())
    return hs


# ---------------------------------------------------------------- running
def split_results(line):
    """result tokens of one output line `hist ID R1 .. Rn (kept ..)` -> (id, [tokens], kept)"""
    p = C.parse_sx(line)
    if len(p) < 2 or p[0] != "hist":
        return None, [], None
    toks = [C.show_sx(x) for x in p[2:]]
    kept = None
    if toks and toks[-1].startswith("(kept"):
        kept = toks.pop()
    if toks and toks[-1].startswith("(drops"):
        kept = toks.pop() + " " + (kept or "")      # drop counts of the `counted` readers (see drop_counts)
    return p[1], toks, kept


def drop_counts(kept):
    """-> the drop counts the harness reports for the drop-counting readers of a history ([] if there was none)"""
    m = re.match(r"\(drops([ \d]*)\)", kept or "")
    return [int(x) for x in m.group(1).split()] if m else []


def build_native():
    lock = os.path.join(MIRI_DIR, "Cargo.lock")
    src = os.path.join(C.REPO, "Cargo.lock")
    if os.path.exists(src) and (not os.path.exists(lock) or open(lock).read() != open(src).read()):
        open(lock, "w").write(open(src).read())
    rc, so, se = C.sh(["cargo", "build", "--release", "--offline"], cwd=MIRI_DIR, timeout=1800)
    return rc == 0, so + se


def drop_foreign_miri_job():
    """`cargo miri run` interprets the crate from the directory recorded in target/miri/<triple>/debug/avromiri (a job file,
    not a binary). A target directory that was copied along with the framework still names the directory it was built in,
    and cargo, finding its fingerprints fresh, would keep replaying THAT harness_miri: such a job file is removed (with its
    fingerprint), so that the warm build writes it again for this directory."""
    import glob, json, shutil
    for job in glob.glob(os.path.join(MIRI_DIR, "target", "miri", "*", "debug", "avromiri")):
        try:
            cd = json.load(open(job))["RunWith"]["current_dir"]
            cd = bytes(cd["Unix"]).decode() if isinstance(cd, dict) else str(cd)
        except Exception:
            continue
        if os.path.realpath(cd) != os.path.realpath(MIRI_DIR):
            dbg = os.path.dirname(job)
            for f in glob.glob(os.path.join(dbg, ".fingerprint", "avromiri-*")) + glob.glob(os.path.join(dbg, "incremental", "avromiri-*")):
                shutil.rmtree(f, ignore_errors=True)
            for f in glob.glob(os.path.join(dbg, "avromiri*")) + glob.glob(os.path.join(dbg, "deps", "avromiri-*")):
                try:
                    os.remove(f)
                except OSError:
                    pass


def miri_env(seed=None):
    flags = "-Zmiri-disable-isolation"
    if seed is not None:
        flags += " -Zmiri-seed=%d" % seed
    return {"MIRIFLAGS": flags, "CARGO_NET_OFFLINE": "true"}


MIRI_ERR = re.compile(r"^error(\[[A-Z0-9]+\])?: (.*)$", re.M)


def run_miri(lines, seed=None, timeout=1500):
    """-> ({id: output line}, [(history line, kind, message)]) ; restarts after the history on which Miri aborts"""
    outs, reports = {}, []
    todo = list(lines)
    while todo:
        e = dict(os.environ); e.update(miri_env(seed))
        try:
            p = subprocess.run(["cargo", "+nightly", "miri", "run", "--offline", "-q"], cwd=MIRI_DIR, input="\n".join(todo) + "\n",
                               capture_output=True, text=True, timeout=timeout, env=e)
            so, se, rc = p.stdout, p.stderr, p.returncode
        except subprocess.TimeoutExpired as ex:
            so = ex.stdout.decode() if isinstance(ex.stdout, bytes) else (ex.stdout or "")
            se, rc = "timeout", "timeout"
        got = [l for l in so.split("\n") if l.startswith("hist ")]
        for l in got:
            hid = l.split(" ", 2)[1]
            outs[hid] = l
        if len(got) >= len(todo):
            break
        culprit = todo[len(got)]
        m = None
        for m_ in MIRI_ERR.finditer(se):
            if "aborting due to" in m_.group(2) or "could not compile" in m_.group(2):
                continue
            m = m_
            break
        msg = m.group(2) if m else ("process ended rc=%s without a report: %s" % (rc, se[-300:]))
        kind = "ub" if "Undefined Behavior" in msg else ("unsupported" if "unsupported operation" in msg else
                                                         ("timeout" if rc == "timeout" else "error"))
        ctxt = ""
        if m:
            tail = se[m.start():]
            fr = re.findall(r"^\s+\d+: (.*)$", tail, re.M)[:4]
            ctxt = " | ".join(x.strip() for x in fr)
        reports.append((culprit, kind, msg + ((" [" + ctxt + "]") if ctxt else "")))
        todo = todo[len(got) + 1:]
    return outs, reports


def run_miri_parallel(lines, jobs, seed=None):
    if not lines:
        return {}, []
    k = max(1, min(jobs, len(lines)))
    shards = [lines[i::k] for i in range(k)]
    with ThreadPoolExecutor(max_workers=k) as ex:
        res = list(ex.map(lambda s: run_miri(s, seed), shards))
    outs, reports = {}, []
    for o, r in res:
        outs.update(o); reports.extend(r)
    return outs, reports


def tok_class(t):
    if t == "(rejected)":
        return "rejected"
    if t == "err":
        return "err"
    return "ok"


def model_outcomes(hist, native_toks):
    """abstract ops of the history (read oracles filled from the native results) -> model outcome tokens per concrete op"""
    ab, owner = [], []
    # a read `breaks` the reader when it errs and every later read of the same reader object yields none (pretend-EOF)
    for i, (text, kind, abstract, strict) in enumerate(hist.ops):
        for a in abstract:
            if kind == "read":
                t = native_toks[i] if i < len(native_toks) else "err"
                ok = "0" if t == "err" else "1"
                a = a.replace("OK", ok).replace("BREAKS", "0")
            ab.append(a); owner.append(i)
    res = C.run_lines(C.AVROMODEL, ["own " + " ".join(ab)])[0]
    p = C.parse_sx(res)
    if not p or not isinstance(p[0], list) or p[0][0] != "own":
        return None, res
    toks = p[0][1:]
    per = [[] for _ in hist.ops]
    for t, i in zip(toks, owner):
        per[i].append(t)
    return per, res


def run(ctx):
    t0 = time.time()
    tier = "thorough" if ctx.get("focus") else ctx["tier"]
    hists = generate(ctx)
    lines = [h.line() for h in hists]
    by_id = {h.id: h for h in hists}
    violations, diffs, notes = [], [], []
    from collections import Counter
    dist = Counter(h.cls for h in hists)
    okb, outb = build_native()
    if not okb:
        return {"evaluations": 0, "distinct_nontrivial": 0, "rule": "harness_miri did not build", "samples": [],
                "violations": [], "model_diffs": [{"what": "harness_miri does not build against /repo", "log": outb[-1500:]}], "distribution": {}}
    native = C.run_lines(NATIVE, lines)
    nat = {}
    for h, l in zip(hists, native):
        hid, toks, kept = split_results(l)
        nat[h.id] = (l, toks, kept)
        if hid != h.id or len(toks) != len(h.ops):
            violations.append({"impl_case": h.line(), "what": "native replay: malformed / panicking result", "impl": l[:400], "class": h.cls})
        elif any(c != 1 for c in drop_counts(kept)):
            violations.append({"impl_case": h.line(), "what": "a BufRead given to Reader::from_reader was dropped %s times (every reader handed over must be dropped exactly once, "
                               "whatever errors the history went through)" % drop_counts(kept), "impl": l[:400], "class": h.cls})
    # model predictions
    n_model_ops = 0
    for h in hists:
        l, toks, kept = nat[h.id]
        if len(toks) != len(h.ops):
            continue
        per, raw = model_outcomes(h, toks)
        if per is None:
            diffs.append({"model_case": "own ...", "what": "model driver failed", "model": raw[:300], "impl_case": h.line()})
            continue
        for i, ((text, kind, abstract, strict), t, ms) in enumerate(zip(h.ops, toks, per)):
            n_model_ops += len(ms)
            bad = [m for m in ms if "!" in m or m == "FAULT"]
            if bad:
                violations.append({"impl_case": h.line(), "what": "MODEL: %s at op %d %s (the handle machine reached a state the theorem excludes)" % (bad, i, text), "class": h.cls})
                continue
            ic = tok_class(t)
            if kind == "struct":
                mc = ms[0]
                if mc != ic:
                    diffs.append({"impl_case": h.line(), "what": "op %d %s: model %s, implementation %s" % (i, text, mc, t), "class": h.cls})
            else:
                mrej = ms[0] == "rejected"
                if mrej != (ic == "rejected"):
                    diffs.append({"impl_case": h.line(), "what": "op %d %s: model %s, implementation %s" % (i, text, ms, t), "class": h.cls})
            if strict is not None and ic != "rejected" and not re.fullmatch(strict, t):
                violations.append({"impl_case": h.line(), "what": "op %d %s: expected %s, got %s (native)" % (i, text, strict, t), "class": h.cls})
    # hostile decodes: the token the MODEL of the deserializer gives (De.v); one schema value rendered at several points: same text
    for h in hists:
        l, toks, kept = nat[h.id]
        if len(toks) != len(h.ops):
            continue
        if h.model_de:
            for (i, mline), rm in zip(h.model_de, C.run_lines(C.AVROMODEL, [ml for _, ml in h.model_de])):
                if rm.startswith("(err"):
                    want = "(hde err)"
                elif rm.startswith("(ok (some"):
                    # the event the deserializer delivers must also be one the Rust type's visitor takes (String: a string; i64: an
                    # integer; (): unit; IgnoredAny: anything) -- otherwise serde's invalid_type error
                    tname = h.ops[i][0].split(" ")[2]
                    fits = {"optstring": ("(str ", "(bstr ", "(string "), "optunit": ("unit",), "optignored": None,
                            "optlong": ("(i8 ", "(i16 ", "(i32 ", "(i64 ", "(u8 ", "(u16 ", "(u32 ", "(u64 ")}[tname]
                    payload = rm[len("(ok (some "):]
                    want = "(hde some)" if fits is None or payload.startswith(fits) else "(hde err)"
                elif rm.startswith("(ok none"):
                    want = "(hde none)"
                elif rm.startswith("(ok ignored"):
                    want = "(hde ok)"
                else:
                    continue
                if toks[i] != "(rejected)" and toks[i] != want:
                    violations.append({"impl_case": h.line(), "what": "op %d %s: expected %s (model: %s), got %s (native)" % (i, h.ops[i][0], want, mline[:200], toks[i]), "class": h.cls})
        for grp, idxs in h.same.items():
            vals = set(toks[i] for i in idxs if toks[i] != "(rejected)")
            if len(vals) > 1:
                violations.append({"impl_case": h.line(), "what": "`{:?}` of one frozen schema differs between points of its life (before / after moves): %s" % sorted(vals)[:4], "class": h.cls})
    # Miri
    t1 = time.time()
    drop_foreign_miri_job()
    C.sh(["cargo", "+nightly", "miri", "run", "--offline", "-q"], cwd=MIRI_DIR, env=miri_env(), inp="", timeout=1800)   # warm build
    jobs = 12
    mouts, reports = run_miri_parallel(lines, jobs)
    thr = [h.line() for h in hists if h.has_threads]
    seeds = [1, 2, 3] if tier == "quick" else list(range(1, 17))
    seeded = {}
    for sd in seeds:
        o, r = run_miri_parallel(thr, jobs, seed=sd)
        seeded[sd] = o
        reports.extend(r)
    miri_s = time.time() - t1
    n_miri = len(lines) + len(thr) * len(seeds)
    for h in hists:
        ml = mouts.get(h.id)
        if ml is not None and ml != nat[h.id][0]:
            violations.append({"impl_case": h.line(), "what": "Miri run and native run print different results", "native": nat[h.id][0][:400],
                               "miri": ml[:400], "class": h.cls})
        if h.has_threads:
            for sd in seeds:
                ml = seeded[sd].get(h.id)
                if ml is not None and ml != nat[h.id][0]:
                    violations.append({"impl_case": h.line(), "what": "Miri run (seed %d) and native run print different results" % sd,
                                       "native": nat[h.id][0][:400], "miri": ml[:400], "class": h.cls})
    for culprit, kind, msg in reports:
        hid = culprit.split(" ", 2)[1]
        cls = by_id[hid].cls if hid in by_id else "?"
        if kind == "unsupported":
            notes.append("Miri: unsupported operation on %s: %s" % (hid, msg[:200]))
            continue
        v = {"impl_case": culprit, "what": "Miri report: %s" % msg[:600], "class": cls, "miri": kind}
        violations.append(v)
    missing = [h.id for h in hists if h.id not in mouts and not any(c.split(" ", 2)[1] == h.id for c, _, _ in reports)]
    if missing:
        diffs.append({"what": "Miri produced no result for %s" % missing[:5]})
    samples = []
    for h in hists[:3] + hists[-3:-1]:
        samples.append({"history": h.line()[:300], "native": nat[h.id][0][:200], "miri": (mouts.get(h.id) or "")[:200]})
    notes.append("Miri is a detector used to validate the index/ownership model against the code; it is not part of the proof. "
                 "%d Miri history runs in %.0f s (%d parallel processes); pure-Rust codecs only (null, deflate, snappy)." % (n_miri, miri_s, jobs))
    return {"evaluations": len(lines) + n_miri, "distinct_nontrivial": len(set(lines)),
            "rule": "histories of the handle machine (graphs with dangling keys at every position incl. unreachable nodes, idx = len / > len, "
                    "freeze error at every node, unions in unreachable nodes; frozen schema moved through Box / Vec; Arc cloned / dropped before, "
                    "while and after a container Reader (null, deflate, snappy; slice, Cursor, BufRead) reads; reader moved between reads; "
                    "reader dropped before / after the schema clone; corrupt files; readers failing exactly at a block boundary (corrupt sync marker of a middle / the "
                    "last block, file cut inside a sync marker, a block announcing one object less than it holds; null / deflate / snappy) over owning sources "
                    "(Cursor<Vec<u8>>, std BufReader, a drop-counting BufRead: dropped exactly once) then read again / moved / outlived by a schema clone / dropped; "
                    "configs alive across other handles' drops; scoped threads "
                    "through one &Schema vs sequential (round trips, `{:?}` of the schema, messages of failing serializations), several Miri seeds; "
                    "unions of 0..3 branches decoded into Option<_> / IgnoredAny from hostile bytes with every discriminant around the branch count "
                    "(token = the deserializer model's); one-node graphs incl. the record that refers to itself, frozen then moved (Box, reallocating Vec, Arc) "
                    "and rendered / decoded under a small depth budget / rendered in parallel after every move (same `{:?}` text at every point); "
                    "`{:?}` of frozen schemas incl. cyclic ones (terminates, bounded, stable) and the same while another thread is parked inside a rendering; values kept after all schemas are dropped; enum symbols / field "
                    "names requested as &str) replayed natively and under Miri; native = Miri = model-predicted outcomes "
                    "(%d model steps, each visited state checked with live_okb)" % n_model_ops,
            "samples": samples, "violations": violations, "model_diffs": diffs, "distribution": dict(dist), "notes": notes}


def replay_case(case):
    line = case.get("impl_case")
    if not line or not line.startswith("hist "):
        return True
    okb, outb = build_native()
    n = C.run_lines(NATIVE, [line])[0]
    print("native now: %s" % n[:1000])
    o, r = run_miri([line])
    for c, kind, msg in r:
        print("miri now: %s: %s" % (kind, msg[:1000]))
    for l in o.values():
        print("miri now: %s" % l[:1000])
    return not [x for x in r if x[1] != "unsupported"] and all(l == n for l in o.values())
