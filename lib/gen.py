"""Generators shared by the property runners: schema node graphs, conforming
values, serde presentations, deserialization targets. All randomness comes from
the random.Random handed in (seeded from VERIF_SEED)."""
import struct
from common import hx

PRIMS = ["null", "boolean", "int", "long", "float", "double", "bytes", "string"]
LOGICALS_FOR = {
    "int": ["date", "time-millis"],
    "long": ["time-micros", "timestamp-millis", "timestamp-micros"],
    "string": ["uuid"],
    "bytes": ["decimal", "big-decimal"],
}

class Node:
    __slots__ = ("t", "name", "fields", "symbols", "size", "items", "values", "variants", "lt")
    def __init__(self, t, **kw):
        self.t = t
        self.name = kw.get("name")
        self.fields = kw.get("fields")
        self.symbols = kw.get("symbols")
        self.size = kw.get("size")
        self.items = kw.get("items")
        self.values = kw.get("values")
        self.variants = kw.get("variants")
        self.lt = kw.get("lt")  # None | "uuid" | ("decimal", scale, precision) | ("unknown", name)

    def kind(self):
        """frozen node kind, mirroring TryFrom<SchemaMut> for Schema"""
        lt = self.lt
        if isinstance(lt, tuple) and lt[0] == "decimal" and self.t in ("bytes", "fixed"):
            return "decimal"
        if lt == "uuid" and self.t == "string":
            return "uuid"
        if lt == "date" and self.t == "int":
            return "date"
        if lt == "time-millis" and self.t == "int":
            return "time-millis"
        if lt == "time-micros" and self.t == "long":
            return "time-micros"
        if lt == "timestamp-millis" and self.t == "long":
            return "timestamp-millis"
        if lt == "timestamp-micros" and self.t == "long":
            return "timestamp-micros"
        if lt == "duration" and self.t == "fixed" and self.size == 12:
            return "duration"
        if lt == "big-decimal" and self.t == "bytes":
            return "big-decimal"
        return self.t

def node_sx(n):
    if n.t in PRIMS:
        ty = n.t
    elif n.t == "array":
        ty = "(array %d)" % n.items
    elif n.t == "map":
        ty = "(map %d)" % n.values
    elif n.t == "union":
        ty = "(union%s)" % "".join(" %d" % k for k in n.variants)
    elif n.t == "record":
        ty = "(record %s%s)" % (hx(n.name), "".join(" (%s %d)" % (hx(f), k) for f, k in n.fields))
    elif n.t == "enum":
        ty = "(enum %s%s)" % (hx(n.name), "".join(" " + hx(s) for s in n.symbols))
    elif n.t == "fixed":
        ty = "(fixed %s %d)" % (hx(n.name), n.size)
    else:
        raise ValueError(n.t)
    if n.lt is None:
        lt = "none"
    elif isinstance(n.lt, tuple) and n.lt[0] == "decimal":
        lt = "(decimal %d %d)" % (n.lt[1], n.lt[2])
    elif isinstance(n.lt, tuple) and n.lt[0] == "unknown":
        lt = "(unknown %s)" % hx(n.lt[1])
    else:
        lt = n.lt
    return "(node %s %s)" % (ty, lt)

def schema_sx(nodes):
    return "(schema " + " ".join(node_sx(n) for n in nodes) + ")"

class SchemaGen:
    """Builds valid Avro schemas as node vectors (root = node 0)."""
    def __init__(self, rng, max_nodes=12, max_depth=4, namespaces=("", "ns", "ns.sub"), logical=True,
                 names_pool=None, ref_prob=0.2, special_names=0.0, big_fixed_decimals=False):
        self.rng = rng
        self.nodes = []
        self.named = []          # indices of named nodes available for reference
        self.counter = 0
        self.max_nodes = max_nodes
        self.max_depth = max_depth
        self.namespaces = namespaces
        self.logical = logical
        self.open_records = []   # records being defined (referencing them unconditionally is a cycle)
        self.ref_prob = ref_prob
        # special_names (probability; 0 = the historical generator, same random stream): names that collide with the
        # names the serializer's union lookup registers -- enum symbols called Null / String / Int / ... or like a named
        # type of the schema, and named types sharing their SHORT name with another one of another namespace (siblings
        # in one union in particular)
        self.special_names = special_names
        self.big_fixed_decimals = big_fixed_decimals
        self.used_full = set()
        self.pending_short = None    # short name the next named type must take (under another namespace)

    SPECIAL_SYMBOLS = ["Null", "Null", "Null", "String", "Int", "Long", "Boolean", "Bytes", "Float", "Double", "Array", "Map",
                       "None", "Some", "Duration", "Decimal", "Uuid"]

    def fresh_name(self, prefix):
        self.counter += 1
        if not self.special_names:
            ns = self.rng.choice(self.namespaces)
            base = "%s%d" % (prefix, self.counter)
            return (ns + "." + base) if ns else base
        rng = self.rng
        base = "%s%d" % (prefix, self.counter)
        shorts = sorted(set(f.split(".")[-1] for f in self.used_full))
        if self.pending_short is not None:
            base, self.pending_short = self.pending_short, None
        elif shorts and rng.random() < self.special_names * 0.5:
            base = rng.choice(shorts)
        nss = list(self.namespaces)
        rng.shuffle(nss)
        for ns in nss:
            full = (ns + "." + base) if ns else base
            if full not in self.used_full:
                self.used_full.add(full)
                return full
        full = "q%d.%s" % (self.counter, base)
        self.used_full.add(full)
        return full

    def symbols(self, n, in_union=False):
        syms = ["S%d" % i for i in range(n)]
        rng = self.rng
        if self.special_names and rng.random() < self.special_names * (3 if in_union else 1):
            pool = list(self.SPECIAL_SYMBOLS) + [f.split(".")[-1] for f in sorted(self.used_full)]
            for i in rng.sample(range(n), rng.randint(1, n)):
                c = rng.choice(pool)
                if c not in syms:
                    syms[i] = c
        return syms

    def build(self):
        self.gen(0, in_union=False, conditional=False)
        return self.nodes

    def reserve(self):
        self.nodes.append(None)
        return len(self.nodes) - 1

    def gen(self, depth, in_union, conditional, exclude_kinds=()):
        """returns the key of a node for this position (new or a reference to a named node)"""
        rng = self.rng
        # reference to an existing named type
        if self.named and rng.random() < self.ref_prob:
            cands = [k for k in self.named
                     if (conditional or k not in self.open_records) and self.branch_kind(k) not in exclude_kinds]
            if cands:
                return rng.choice(cands)
        room = len(self.nodes) < self.max_nodes and depth < self.max_depth
        choices = list(PRIMS) + ["enum", "fixed"]
        if self.logical:
            choices += ["decimal-bytes", "decimal-fixed", "uuid", "date", "time-millis", "time-micros",
                        "timestamp-millis", "timestamp-micros", "duration", "big-decimal"]
        if room:
            choices += ["array", "map", "record", "record"] * 2
            if not in_union:
                choices += ["union"] * 3
        choices = [c for c in choices if self.kind_of_choice(c) not in exclude_kinds and not (c == "duration" and "duration" in exclude_kinds)]
        c = rng.choice(choices)
        if self.pending_short is not None:
            # the sibling of a named union branch: a named type with the same short name
            named = [x for x in ("enum", "fixed", "decimal-fixed") + (("record",) if room else ()) if x in choices]
            if named:
                c = rng.choice(named)
            else:
                self.pending_short = None
        k = self.reserve()
        if c in PRIMS:
            self.nodes[k] = Node(c)
        elif c == "enum":
            n = rng.randint(1, 4)
            self.nodes[k] = Node("enum", name=self.fresh_name("E"), symbols=self.symbols(n, in_union))
            self.named.append(k)
        elif c == "fixed":
            self.nodes[k] = Node("fixed", name=self.fresh_name("F"), size=rng.choice([0, 1, 2, 4, 12, 16]))
            self.named.append(k)
        elif c == "decimal-bytes":
            self.nodes[k] = Node("bytes", lt=("decimal", rng.choice([0, 1, 2, 5]), rng.randint(1, 30)))
        elif c == "decimal-fixed":
            self.nodes[k] = Node("fixed", name=self.fresh_name("D"),
                                 size=rng.choice([1, 2, 4, 8, 16, 17] + ([17, 18, 20, 24, 31, 32, 33, 40] if self.big_fixed_decimals else [])),
                                 lt=("decimal", rng.choice([0, 1, 3]), rng.randint(1, 30)))
            self.named.append(k)
        elif c == "uuid":
            self.nodes[k] = Node("string", lt="uuid")
        elif c in ("date", "time-millis"):
            self.nodes[k] = Node("int", lt=c)
        elif c in ("time-micros", "timestamp-millis", "timestamp-micros"):
            self.nodes[k] = Node("long", lt=c)
        elif c == "duration":
            self.nodes[k] = Node("fixed", name=self.fresh_name("Du"), size=12, lt="duration")
            self.named.append(k)
        elif c == "big-decimal":
            self.nodes[k] = Node("bytes", lt="big-decimal")
        elif c == "array":
            self.nodes[k] = Node("array", items=0)
            self.nodes[k].items = self.gen(depth + 1, False, True)
        elif c == "map":
            self.nodes[k] = Node("map", values=0)
            self.nodes[k].values = self.gen(depth + 1, False, True)
        elif c == "union":
            self.nodes[k] = Node("union", variants=[])
            n = rng.randint(1, 4)
            used = set()
            for _ in range(n):
                before = len(self.nodes)
                v = self.gen(depth + 1, True, True, exclude_kinds=tuple(used) + ("union",))
                bk = self.branch_kind(v)
                if bk in used:
                    continue
                used.add(bk)
                self.nodes[k].variants.append(v)
                if (self.special_names and v >= before and bk.startswith("named:") and rng.random() < self.special_names):
                    self.pending_short = self.nodes[v].name.split(".")[-1]
            self.pending_short = None
        elif c == "record":
            self.nodes[k] = Node("record", name=self.fresh_name("R"), fields=[])
            self.named.append(k)
            self.open_records.append(k)
            n = rng.randint(0, 4)
            for i in range(n):
                fk = self.gen(depth + 1, False, conditional=False)
                self.nodes[k].fields.append(("f%d" % i, fk))
            self.open_records.remove(k)
        return k

    def kind_of_choice(self, c):
        return {"decimal-bytes": "decimal", "decimal-fixed": "named"}.get(c, "named" if c in ("enum", "fixed", "record", "duration") else c)

    def branch_kind(self, k):
        """what must be distinct between union branches: the unnamed type, or the fullname"""
        n = self.nodes[k]
        if n is None:
            return "pending"
        if n.t == "fixed" and n.kind() == "duration":
            # the frozen schema keeps no name for a duration: every such branch is reported (and can
            # only be selected) as "Duration", so two of them in one union cannot be told apart by
            # name (known finding C01/KF1; the general generator keeps at most one per union)
            return "duration"
        if n.t in ("record", "enum", "fixed"):
            return "named:" + n.name
        return n.t if n.kind() == n.t else n.kind()

def zigzag(z):
    return (z << 1) ^ (z >> 63) if z >= 0 else ((-z) << 1) - 1

def varint(z):
    n = (z << 1) if z >= 0 else ((-z) << 1) - 1
    out = bytearray()
    while n >= 0x80:
        out.append(0x80 | (n & 0x7F))
        n >>= 7
    out.append(n)
    return bytes(out)

INT_BOUNDS = [0, 1, -1, 63, 64, -64, -65, 8191, 8192, -8192, -8193, 2**31 - 1, -2**31, 2**31, -2**31 - 1,
              2**63 - 1, -2**63, 2**20, -2**20 - 1, 2**27, 2**34, -2**34 - 1, 2**41, 2**48, 2**55, 2**62, -2**62 - 1]

def rand_int(rng, lo, hi):
    c = [b for b in INT_BOUNDS if lo <= b <= hi]
    if c and rng.random() < 0.5:
        return rng.choice(c)
    if rng.random() < 0.3:
        return rng.randint(max(lo, -200), min(hi, 200))
    return rng.randint(lo, hi)

def rand_str(rng, maxlen=12):
    r = rng.random()
    if r < 0.15:
        return ""
    n = rng.choice([1, 2, 3, 5, maxlen]) if r < 0.9 else rng.choice([63, 64, 127, 128, 200])
    alphabet = "abcXYZ019 _-." + "é中\U0001F600"
    return "".join(rng.choice(alphabet) for _ in range(n))

def rand_bytes(rng, n=None):
    if n is None:
        n = rng.choice([0, 1, 2, 3, 7, 16, 64])
    return bytes(rng.randrange(256) for _ in range(n))

def f32_bits(rng):
    r = rng.random()
    if r < 0.3:
        return rng.choice([0, 0x80000000, 0x7F800000, 0xFF800000, 0x7FC00000, 0x7FC00001, 0xFFC12345, 0x7F800001,
                           1, 0x007FFFFF, 0x00800000, 0x3F800000, 0x7F7FFFFF])
    return rng.getrandbits(32)

def f64_bits(rng):
    r = rng.random()
    if r < 0.3:
        return rng.choice([0, 1 << 63, 0x7FF0000000000000, 0xFFF0000000000000, 0x7FF8000000000000,
                           0x7FF8000000000001, 0xFFF8123456789ABC, 1, 0x3FF0000000000000, 0x7FEFFFFFFFFFFFFF])
    return rng.getrandbits(64)

# ---------------------------------------------------------------- values
class ValueGen:
    """Random conforming values (as evalue s-expressions: value + encoder layout choices)."""
    def __init__(self, rng, nodes, max_depth=6, big=False, layouts=True, decimal_limits=True):
        self.rng, self.nodes = rng, nodes
        self.max_depth = max_depth
        self.big = big
        self.layouts = layouts
        self.decimal_limits = decimal_limits
        self.big_fixed = False
        self.array_len = {}     # node key -> the number of items every value of that array node gets (directed families)

    def terminating(self, k, seen=()):
        """can a value of node k be finite without descending further than necessary"""
        return True

    def blocks(self, items):
        """split a list of item sexps into blocks with random signs"""
        rng = self.rng
        if not items:
            return ""
        if not self.layouts or rng.random() < 0.4:
            return " (blk 0 %s)" % " ".join(items)
        out, i = [], 0
        while i < len(items):
            n = rng.randint(1, max(1, len(items) - i))
            out.append("(blk %d %s)" % (rng.randint(0, 1), " ".join(items[i:i + n])))
            i += n
        return " " + " ".join(out)

    def gen(self, k, depth=0):
        rng = self.rng
        n = self.nodes[k]
        kind = n.kind()
        deep = depth >= self.max_depth
        if depth > self.max_depth + 8:
            return None
        if kind == "null":
            return "null"
        if kind == "boolean":
            return "(bool %d)" % rng.randint(0, 1)
        if kind in ("int", "date", "time-millis"):
            return "(int %d)" % rand_int(rng, -2**31, 2**31 - 1)
        if kind in ("long", "time-micros", "timestamp-millis", "timestamp-micros"):
            return "(long %d)" % rand_int(rng, -2**63, 2**63 - 1)
        if kind == "float":
            return "(float %d)" % f32_bits(rng)
        if kind == "double":
            return "(double %d)" % f64_bits(rng)
        if kind == "bytes":
            if self.big and rng.random() < 0.8:
                # long incompressible byte strings (container blocks that outgrow the codecs' buffers)
                return "(bytes %s)" % hx(rng.randbytes(rng.choice([300, 1500, 6000])))
            return "(bytes %s)" % hx(rand_bytes(rng))
        if kind in ("string", "uuid"):
            if self.big and kind == "string" and rng.random() < 0.8:
                return "(string %s)" % hx(bytes(0x20 + (x % 95) for x in rng.randbytes(rng.choice([300, 1500, 6000]))))
            return "(string %s)" % hx(rand_str(rng))
        if kind == "array":
            cnt = 0 if deep else rng.choice([0, 0, 1, 2, 3, 5])
            if k in self.array_len and (not deep or self.array_len[k] == 0):
                cnt = self.array_len[k]
            its = [self.gen(n.items, depth + 1) for _ in range(cnt)]
            if any(x is None for x in its):
                its = []
            return "(array%s)" % self.blocks(its)
        if kind == "map":
            cnt = 0 if deep else rng.choice([0, 0, 1, 2, 3])
            its = [self.gen(n.values, depth + 1) for _ in range(cnt)]
            if any(x is None for x in its):
                its = []
            return "(map%s)" % self.blocks(["(%s %s)" % (hx(rand_str(rng, 4)), x) for x in its])
        if kind == "union":
            idxs = list(range(len(n.variants)))
            if deep:
                # prefer branches that terminate quickly
                simple = [i for i in idxs if self.nodes[n.variants[i]].t not in ("record", "array", "map", "union")]
                if simple:
                    idxs = simple
            if not idxs:
                return None
            i = rng.choice(idxs)
            v = self.gen(n.variants[i], depth + 1)
            return None if v is None else "(union %d %s)" % (i, v)
        if kind == "record":
            fs = [self.gen(fk, depth + 1) for _, fk in n.fields]
            if any(f is None for f in fs):
                return None
            return "(record%s)" % "".join(" " + f for f in fs)
        if kind == "enum":
            return "(enum %d)" % rng.randrange(len(n.symbols))
        if kind == "fixed":
            return "(fixed %s)" % hx(rand_bytes(rng, n.size))
        if kind == "decimal":
            if n.t == "fixed":
                nb = min(n.size, 12 if self.decimal_limits else 16)
                if nb == 0:
                    return "(decimal 0 0)"
                lim = 2 ** (8 * nb - 1)
                m = rng.choice([0, 1, -1, lim - 1, -lim, rng.randint(-lim, lim - 1)])
                if n.size > 16:
                    if not self.big_fixed:
                        return None
                    # beyond the documented 16 bytes the serializer still writes the sign-extended number (str / Decimal path)
                    m = rng.choice([0, 1, -1, -128, 127, -lim, lim - 1, rng.randint(-lim, lim - 1), -rng.randint(1, 10**6)])
                return "(decimal %d 0)" % m
            lim = 2 ** 95 if self.decimal_limits else 2 ** 127
            m = rng.choice([0, 1, -1, 127, 128, -128, -129, 255, 256, 32767, 32768, -32768, -32769,
                            lim - 1, -lim, rng.randint(-lim, lim - 1), rng.randint(-10**6, 10**6)])
            pad = rng.choice([0, 0, 0, 1, 2]) if self.layouts else 0
            return "(decimal %d %d)" % (m, pad)
        if kind == "big-decimal":
            lim = 2 ** 95
            m = rng.choice([0, 1, -1, 128, -129, lim - 1, -lim, rng.randint(-lim, lim - 1), rng.randint(-10**6, 10**6)])
            return "(bigdecimal %d %d %d)" % (m, rng.choice([0, 0, 1, 2, 7, 28]), rng.choice([0, 0, 1]) if self.layouts else 0)
        if kind == "duration":
            return "(duration %d %d %d)" % tuple(rng.choice([0, 1, 2**32 - 1, rng.getrandbits(32)]) for _ in range(3))
        raise ValueError(kind)

def schema_and_value(rng, **kw):
    """a valid schema together with a conforming value (evalue sexp); retries until one exists"""
    for _ in range(50):
        g = SchemaGen(rng, max_nodes=kw.get("max_nodes", rng.choice([2, 5, 10, 16])),
                      max_depth=kw.get("max_depth", rng.choice([1, 3, 5])), logical=kw.get("logical", True),
                      special_names=kw.get("special_names", 0.0))
        nodes = g.build()
        vg = ValueGen(rng, nodes, layouts=kw.get("layouts", True))
        v = vg.gen(0)
        if v is not None:
            return nodes, v
    raise RuntimeError("no value")

def erase_borrow_text(s):
    import re
    s = re.sub(r"\(bstr -?\d+ \d+ (x[0-9a-f]*)\)", r"(str \1)", s)
    s = re.sub(r"\(bbytes -?\d+ \d+ (x[0-9a-f]*)\)", r"(bytes \1)", s)
    return s

# ---------------------------------------------------------------- arbitrary node vectors
class GraphGen:
    """Node vectors as the builder API allows them: arbitrary keys (sharing, cycles, optionally
    dangling), arbitrary namespace relations, logical annotations anywhere. Names unique unless
    dup_names."""
    def __init__(self, rng, n=None, dangling=0.0, dup_names=0.0, weird_names=0.0, logical=0.3):
        self.rng = rng
        self.n = n if n is not None else rng.choice([1, 2, 3, 4, 6, 9, 12])
        self.dangling, self.dup_names, self.weird_names, self.logical = dangling, dup_names, weird_names, logical

    def key(self):
        if self.rng.random() < self.dangling:
            return self.rng.choice([self.n, self.n + 3, 10**6, 2**40])
        return self.rng.randrange(self.n)

    def name(self, i):
        rng = self.rng
        if rng.random() < self.weird_names:
            return rng.choice(["", ".", "a..b", ".x", "x.", "has space", "q\"uote", "back\\slash", "é.ü", "a.b.c.d", "\n", "null", "int"])
        base = "N%d" % (i if rng.random() >= self.dup_names else rng.randrange(max(1, i)))
        ns = rng.choice(["", "", "a", "a.b", "c"])
        return ns + "." + base if ns else base

    def build(self):
        rng = self.rng
        nodes = []
        for i in range(self.n):
            t = rng.choice(PRIMS + ["array", "map", "union", "union", "record", "record", "enum", "fixed"])
            lt = None
            if rng.random() < self.logical:
                lt = rng.choice(["uuid", "date", "time-millis", "time-micros", "timestamp-millis", "timestamp-micros", "duration",
                                 "big-decimal", ("decimal", rng.choice([0, 2, 40]), rng.choice([1, 10])), ("unknown", rng.choice(["custom", "", "q\"x"]))])
            if t in PRIMS:
                nodes.append(Node(t, lt=lt))
            elif t == "array":
                nodes.append(Node("array", items=self.key(), lt=lt))
            elif t == "map":
                nodes.append(Node("map", values=self.key(), lt=lt))
            elif t == "union":
                nodes.append(Node("union", variants=[self.key() for _ in range(rng.randint(0, 4))], lt=lt if rng.random() < 0.1 else None))
            elif t == "record":
                nodes.append(Node("record", name=self.name(i), fields=[("f%d" % j, self.key()) for j in range(rng.randint(0, 3))], lt=lt))
            elif t == "enum":
                nodes.append(Node("enum", name=self.name(i), symbols=["S%d" % j for j in range(rng.randint(0, 3))], lt=lt))
            else:
                nodes.append(Node("fixed", name=self.name(i), size=rng.choice([0, 1, 12, 16, 17, 2**33]), lt=lt))
        return nodes

def reachable(nodes, root=0):
    seen, stack = set(), [root]
    while stack:
        k = stack.pop()
        if k in seen or k >= len(nodes):
            continue
        seen.add(k)
        n = nodes[k]
        if n.t == "array":
            stack.append(n.items)
        elif n.t == "map":
            stack.append(n.values)
        elif n.t == "union":
            stack += n.variants
        elif n.t == "record":
            stack += [fk for _, fk in n.fields]
    return seen

def has_cycle_through(nodes, only):
    """is there a cycle (among nodes reachable from the root) all of whose nodes satisfy `only`"""
    reach = reachable(nodes)
    color = {}
    def kids(k):
        n = nodes[k]
        if n.t == "array":
            return [n.items]
        if n.t == "map":
            return [n.values]
        if n.t == "union":
            return list(n.variants)
        if n.t == "record":
            return [fk for _, fk in n.fields]
        return []
    def dfs(k):
        color[k] = 1
        for c in kids(k):
            if c >= len(nodes) or not only(nodes[c]):
                continue
            if color.get(c) == 1:
                return True
            if color.get(c) is None and dfs(c):
                return True
        color[k] = 2
        return False
    for k in sorted(reach):
        if only(nodes[k]) and color.get(k) is None:
            if dfs(k):
                return True
    return False

def graph_class(nodes):
    """-> dict of facts used as oracles"""
    reach = reachable(nodes)
    dangling = any(k >= len(nodes) for k in
                   [x for i in reach for x in ([nodes[i].items] if nodes[i].t == "array" else [nodes[i].values] if nodes[i].t == "map" else
                                                nodes[i].variants if nodes[i].t == "union" else [fk for _, fk in nodes[i].fields] if nodes[i].t == "record" else [])])
    return {
        "reachable": reach,
        "dangling_reachable": dangling,
        "unnamed_cycle": has_cycle_through(nodes, lambda n: n.t in ("array", "map", "union")),
        "record_cycle": has_cycle_through(nodes, lambda n: n.t == "record"),
    }

def leaf_kind_schemas():
    """one single-node schema per kind of leaf the frozen schema distinguishes (every primitive, every logical type over each
    of its base types, fixed / decimal-over-fixed at several sizes, enums): [(label, nodes)]"""
    N = Node
    out = [(p, [N(p)]) for p in PRIMS]
    for lt in ("date", "time-millis"):
        out.append((lt, [N("int", lt=lt)]))
    for lt in ("time-micros", "timestamp-millis", "timestamp-micros"):
        out.append((lt, [N("long", lt=lt)]))
    out.append(("uuid", [N("string", lt="uuid")]))
    out.append(("big-decimal", [N("bytes", lt="big-decimal")]))
    for sc, pr in ((0, 5), (2, 20), (5, 28)):
        out.append(("decimal-bytes-%d" % sc, [N("bytes", lt=("decimal", sc, pr))]))
    for sz in (1, 2, 3, 4, 8, 12, 16):
        out.append(("decimal-fixed-%d" % sz, [N("fixed", name="DF%d" % sz, size=sz, lt=("decimal", sz % 3, min(2 * sz, 28)))]))
    for sz in (0, 1, 2, 5, 12, 16):
        out.append(("fixed-%d" % sz, [N("fixed", name="Fx%d" % sz, size=sz)]))
    out.append(("duration", [N("fixed", name="Du", size=12, lt="duration")]))
    out.append(("enum-1", [N("enum", name="E1", symbols=["A"])]))
    out.append(("enum-4", [N("enum", name="ns.E4", symbols=["A", "B", "C", "D"])]))
    for base in ("bytes", "string", "long"):
        out.append(("unknown-logical-" + base, [N(base, lt=("unknown", "custom"))]))
    out.append(("unknown-logical-fixed", [N("fixed", name="Fu", size=3, lt=("unknown", "custom"))]))
    return out
