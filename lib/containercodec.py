"""C05 / C11 / C17: model/ContainerCodec.v -- the reader of WHOLE files with compressed blocks (`ccr_file`: header, then per
block count / size / BufReader(cap) over the streaming decoder over Take(size) / end-of-block check / sync marker; snappy
blocks) -- run against the crate on the same file.

For every run of the crate (harness `crt`: BufReader capacity through hook H4, slice or chunked source) the extracted
`ccr_file` (OCaml command `ccr`) reads the same bytes from the same kind of source with
  * the value decoder `cc_vdec` for the schema text found in the header (the text itself, read by the model's own JSON reader JsonRead.json_of_text, then Parse.parse_schema),
  * the codec named in the header (as Container.header_meta reads it),
  * a REPLAY streaming decoder (model/ContainerReplay.v): the reads hook H4 recorded for each block the crate entered --
    bytes produced (or Err) and compressed bytes consumed (difference of the Take limits) -- where the BYTES of each read are
    the block's data as decoded by the compression library on its own (harness `decode`: the library's decoder over the
    whole block, one read_to_end; cross-checked against Python's zlib / bz2 / lzma when the block is one complete stream),
    sliced by the produced counts; snappy: the raw decoder's result for each block (`decode snappy`) and zlib.crc32 as tables,
and the two runs are compared: schema text, user metadata, the values delivered before the first error (borrows erased),
and how the run ends (end of stream / class of the first error). Differences are model differences (they break the tie).

What the crate's error is mapped to (first error only; the model stops there, the crate reports it and then, for I/O errors and
a broken reader, end of stream):
    eof            no error: Ok(None)                                            <-> CEof
    neg            "Invalid container file block object count / size"           <-> CNeg
    open           slice Take beyond the input, snappy size < 4 / raw / CRC      <-> COpen
    decoder-err / leftover / take-left   the three messages of the end check     <-> CBlock (BEndErr _)
    sync-mismatch  "Incorrect sync marker at end of block"                       <-> CBlock BSyncMismatch
    other          any other message (a value error, a count / size varint that cannot be read, fewer than 16 bytes where the
                   marker should be, a snappy block the source does not hold)    <-> CHead _ | CBlock BValueErr | CBlock BSyncShort | COpen
One tolerance (counted in notes.read_ahead): when the streaming decoder's Err reaches the crate's deserializer in the middle of a
value (an I/O error), the crate fails that value even if all of its bytes had been produced (read_slice calls fill_buf first, also for
0 bytes); the model delivers such values and meets the same recorded Err afterwards. Accepted iff the crate's values are a prefix of
the model's and the model ends with that Err (in a value or in the end-of-block check).
"""
import zlib
import common as C
import gen as G
import cont

STREAM = ("deflate", "bzip2", "xz", "zstandard")
POLICIES = ("fill", "direct")
MODEL_BUDGET = 10 ** 8

CRATE_MSG = [
    ("Invalid container file block object count", "neg"),
    ("Invalid container file block size in bytes", "neg"),
    ("Read block size larger than original slice", "open"),
    ("Incorrect block size for Snappy compression", "open"),
    ("Snappy decompression error", "open"),
    ("Incorrect extra CRC32 of decompressed data", "open"),
    ("Decompression error when driving decompressor to end", "decoder-err"),
    ("There's decompressed data left in the", "leftover"),
    ("There's data left in the block after deserializing it entirely", "take-left"),
    ("Incorrect sync marker at end of block", "sync-mismatch"),
]
OTHER = ("head", "value", "sync-short", "open")

def read_zz(b, pos):
    v = shift = 0
    while True:
        x = b[pos]
        pos += 1
        v |= (x & 0x7f) << shift
        shift += 7
        if x < 0x80:
            break
        if shift > 70:
            raise IndexError("varint")
    return (v >> 1) ^ -(v & 1), pos

def walk(f):
    """the layout of a file, read independently of model and crate: -> None | dict(hdr, codec, json, blocks=[dict(count, size, data_at)])
    (blocks: as far as counts and sizes can be read; a block's data may reach beyond the end of the file)"""
    if f[:4] != b"Obj\x01":
        return None
    pos, meta = 4, []
    try:
        while True:
            n, pos = read_zz(f, pos)
            if n == 0:
                break
            if n < 0:
                n = -n
                _, pos = read_zz(f, pos)
            if n > 100000:
                return None
            for _ in range(n):
                kv = []
                for _ in range(2):
                    l, pos = read_zz(f, pos)
                    if l < 0 or pos + l > len(f):
                        return None
                    kv.append(f[pos:pos + l])
                    pos += l
                meta.append(tuple(kv))
    except IndexError:
        return None
    pos += 16
    if pos > len(f):
        return None
    md = dict(meta)
    out = {"hdr": pos, "codec": md.get(b"avro.codec", b"null").decode("latin-1"), "json": md.get(b"avro.schema"), "blocks": []}
    while pos < len(f):
        try:
            cnt, p1 = read_zz(f, pos)
            size, p2 = read_zz(f, p1)
        except IndexError:
            break
        if cnt < 0 or size < 0:
            break
        out["blocks"].append({"count": cnt, "size": size, "data_at": p2})
        pos = p2 + size + 16
    return out

def chunk_key(mode, off):
    """the state of the source's chunk plan at offset `off` (chunk boundaries are at fixed offsets of the input, harness
    io.rs ChunkedReader = Reader.chunkst): `none` for a slice, else (bytes left in the current chunk, planned chunks behind it)"""
    if mode == "slice":
        return "none"
    plan = [int(x) for x in mode.strip("()").split()[1:] if int(x) > 0]
    if not plan:
        return "(%d 0)" % ((1 << 64) - off)
    start = 0
    for i, p in enumerate(plan):
        if i == len(plan) - 1:
            return "(%d 0)" % (p - ((off - start) % p))
        if off < start + p:
            return "(%d %d)" % (start + p - off, len(plan) - 1 - i)
        start += p

# ---------------------------------------------------------------- the crate's run
def parse_crt(res):
    """-> None | dict(open_err=kind) | dict(json, meta, calls=[dict(item, events)])"""
    p = C.parse_sx(res)
    if not p or not isinstance(p[0], list):
        return None
    p = p[0]
    if p[0] == "open-err":
        return {"open_err": p[1] if len(p) > 1 else True}
    if p[0] != "ok" or len(p) < 3:
        return None
    calls = []
    for c in p[3:]:
        if not isinstance(c, list) or c[0] != "call":
            return None
        it = c[1]
        if it == "eof":
            item = ("eof",)
        elif it[0] == "ok":
            item = ("ok", G.erase_borrow_text(C.show_sx(it[1])))
        elif it[0] == "err":
            item = ("err", it[1], C.unhex(it[2]).decode("utf-8", "replace") if len(it) > 2 else "")
        else:
            item = (C.show_sx(it),)
        evs = [(e[0],) + tuple(None if v == "err" else int(v) for v in e[1:]) for e in c[2:]]
        calls.append({"item": item, "events": evs})
    return {"json": C.unhex(p[1]), "meta": [(kv[0], kv[1]) for kv in p[2][1:]], "calls": calls}

def crate_class(msg):
    for k, v in CRATE_MSG:
        if k in msg:
            return v
    return "other"

def crate_outcome(t):
    """-> (values, end, io/data flag of the error, message, did a decoder read of the failing call return Err)
    end None: neither an error nor end of stream within the calls made"""
    vals = []
    for c in t["calls"]:
        it = c["item"]
        if it[0] == "ok":
            vals.append(it[1])
        elif it[0] == "eof":
            return vals, "eof", None, "", False
        elif it[0] == "err":
            return vals, crate_class(it[2]), it[1], it[2], any(e[0] == "read" and e[2] is None for e in c["events"])
        else:
            return vals, "?" + it[0], None, "", False
    return vals, None, None, "", False

def trace_blocks(t):
    """the blocks the crate entered with a streaming decoder: [dict(size, cap, reads=[(requested, produced|None, limit left)])]"""
    out, cur = [], None
    for c in t["calls"]:
        for e in c["events"]:
            if e[0] == "start":
                cur = {"size": e[1], "cap": e[2], "reads": []}
                out.append(cur)
            elif e[0] == "read" and cur is not None:
                cur["reads"].append(e[1:])
    return out

# ---------------------------------------------------------------- independent decompression
class Decomp:
    """block bytes -> (complete?, data): the compression library's own decoder over the whole block (harness `decode`), for
    deflate / bzip2 / xz cross-checked against Python's decoders when Python sees exactly one complete stream"""
    def __init__(self):
        self.cache = {}
        self.todo = []
        self.disagree = []
        self.py_checked = 0
    def want(self, fam, blk):
        if (fam, blk) not in self.cache:
            self.cache[(fam, blk)] = None
            self.todo.append((fam, blk))
    def flush(self):
        if not self.todo:
            return
        lines = ["decode %s %s" % (fam, C.hx(blk)) for fam, blk in self.todo]
        for (fam, blk), line, r in zip(self.todo, lines, C.run_parallel(C.AVRODRIVE, lines)):
            p = C.parse_sx(r)
            p = p[0] if p and isinstance(p[0], list) else ["bad"]
            if p[0] not in ("ok", "err"):
                self.cache[(fam, blk)] = (False, None)
                continue
            data = C.unhex(p[1])
            self.cache[(fam, blk)] = (p[0] == "ok", data)
            if fam in ("deflate", "bzip2", "xz"):
                try:
                    py = cont.py_block_decode(fam, blk)
                except Exception:
                    py = None
                if py is not None:
                    self.py_checked += 1
                    if p[0] != "ok" or py != data:
                        self.disagree.append({"impl_case": line[:3000], "what": "the %s library's decoder and Python's disagree on a block that Python reads as one complete stream (library: %s, %d bytes; Python: %d bytes)" % (fam, p[0], len(data), len(py))})
        self.todo = []
    def get(self, fam, blk):
        if self.cache.get((fam, blk)) is None:
            self.flush()
        return self.cache[(fam, blk)]

# ---------------------------------------------------------------- the comparison
def crt_line(cap, f, mode, ncalls):
    return "crt %d %s %s any %d" % (cap, C.hx(f), mode, ncalls)

def new_notes():
    return {"runs_compared": 0, "by_codec": {}, "by_end(model)": {}, "values_compared": 0, "blocks_replayed": 0, "decoder_reads_replayed": 0,
            "policies": {}, "skipped": {}, "capacities": {}, "sources": {}}

def compare(jobs, policies=None, want_notes=None):
    """jobs: [dict(file=bytes, cap=int, mode=str, ncalls=int, where=str, res=<result of the crt line> (optional))]
    -> dict(diffs, notes, evaluations). Every job is one run of the crate compared with one run of ccr_file per policy."""
    notes = want_notes if want_notes is not None else new_notes()
    diffs = []
    todo = [j for j in jobs if j.get("res") is None]
    for j, r in zip(todo, C.run_parallel(C.AVRODRIVE, [crt_line(j["cap"], j["file"], j["mode"], j["ncalls"]) for j in todo])):
        j["res"] = r
    evaluations = len(todo)
    dec = Decomp()
    prepared = []
    def skip(why):
        notes["skipped"][why] = notes["skipped"].get(why, 0) + 1
    for j in jobs:
        j["line"] = crt_line(j["cap"], j["file"], j["mode"], j["ncalls"])[:40000]
        t = parse_crt(j["res"])
        if t is None:
            skip("the crate's run did not give a result (reported by the property check)")
            continue
        w = walk(j["file"])
        j["t"], j["w"] = t, w
        if w is not None and w["codec"] in STREAM + ("snappy",):
            for b in w["blocks"]:
                blk = j["file"][b["data_at"]:b["data_at"] + b["size"]]
                if w["codec"] != "snappy" or (len(blk) == b["size"] and b["size"] >= 4):
                    dec.want(w["codec"], blk)
        prepared.append(j)
    dec.flush()
    diffs.extend(dec.disagree)
    mlines, mmeta = [], []
    for j in prepared:
        t, w, f = j["t"], j["w"], j["file"]
        # the schema of the header reaches the model as the TEXT found in the file, read by the model's own reader
        # (`(text x..)`: JsonRead.json_of_text, then Parse.parse_schema); a text the reader rejects is a schema error, as in the crate
        if t.get("open_err"):
            src = "(text %s)" % C.hx(w["json"]) if w is not None and w["json"] is not None else "(json null)"
            items = []
        else:
            src = "(text %s)" % C.hx(t["json"])
            items = []
            fam = w["codec"] if w is not None else None
            if w is None:
                diffs.append({"impl_case": j["line"], "what": "%s: the crate opened a file whose header the runner's own walk cannot read" % j["where"]})
                continue
            if fam == "null":
                skip("null codec (Container.cr_run is the model of that reader)")
                continue
            if fam in STREAM:
                tb = trace_blocks(t)
                bad = None
                groups = {}
                # the extracted model works on lists: a lookahead costs (decoder reads x compressed bytes) per value
                if sum(len(b["reads"]) * max(1, b["size"]) for b in tb) * (1 + sum(1 for c in t["calls"] if c["item"][0] == "ok")) > MODEL_BUDGET:
                    skip("too long for the list-based model at this capacity (run at the larger capacities)")
                    continue
                for i, b in enumerate(tb):
                    if i >= len(w["blocks"]):
                        bad = "the crate entered %d blocks, the runner's walk of the file finds %d" % (len(tb), len(w["blocks"]))
                        break
                    wb = w["blocks"][i]
                    if wb["size"] != b["size"]:
                        bad = "block %d: the crate entered a block of %d bytes, the runner's walk of the file finds %d" % (i, b["size"], wb["size"])
                        break
                    if j["cap"] not in (0, b["cap"]):
                        bad = "block %d: BufReader capacity %d, asked for %d" % (i, b["cap"], j["cap"])
                        break
                    blk = f[wb["data_at"]:wb["data_at"] + wb["size"]]
                    complete, data = dec.get(fam, blk)
                    if data is None:
                        bad = "block %d: the library's decoder did not run" % i
                        break
                    ans, at, prev, stream = [], 0, b["size"], None
                    for req, prod, left in b["reads"]:
                        if prod is None:
                            ans.append("err")
                            if stream is None:
                                stream = data[:at]
                        else:
                            if at + prod > len(data):
                                bad = "block %d: the crate's decoder produced %d bytes so far, the library's decoder over the whole block gives %d (%s)" % (
                                    i, at + prod, len(data), "complete" if complete else "then fails")
                                break
                            ans.append("(%s %d)" % (C.hx(data[at:at + prod]), max(0, prev - left)))
                            at += prod
                        prev = left
                    if bad:
                        break
                    groups.setdefault((blk, chunk_key(j["mode"], wb["data_at"])), []).append((len(ans), wb["data_at"], wb["size"], ans, data[:at] if stream is None else stream))
                    notes["blocks_replayed"] += 1
                    notes["decoder_reads_replayed"] += len(ans)
                if bad:
                    diffs.append({"impl_case": j["line"], "what": "%s: the recorded reads cannot be replayed: %s" % (j["where"], bad)})
                    continue
                # blocks with the same key (same bytes at the same place of the chunk plan) are the same input to the decoder: their reads
                # (made with different requests when the object counts differ) must show the same stream; the longest trace stands for all
                for (blk, key), g in groups.items():
                    g.sort(key=lambda x: (-x[0], x[1]))
                    n, at, size, ans, stream = g[0]
                    for n2, at2, size2, ans2, stream2 in g[1:]:
                        if not (stream.startswith(stream2) or stream2.startswith(stream)):
                            diffs.append({"impl_case": j["line"], "what": "%s: two blocks with the same bytes at the same place of the chunk plan (offsets %d, %d) decompressed differently" % (j["where"], at, at2)})
                        if ans2 != ans:
                            notes["identical_blocks_read_with_different_requests(longest trace replayed for all)"] = notes.get("identical_blocks_read_with_different_requests(longest trace replayed for all)", 0) + 1
                    items.append("(blk %d %d %s%s)" % (at, size, key, "".join(" " + a for a in ans)))
            elif fam == "snappy":
                ent = []
                for b in w["blocks"]:
                    blk = f[b["data_at"]:b["data_at"] + b["size"]]
                    if len(blk) == b["size"] and b["size"] >= 4:
                        ok, data = dec.get("snappy", blk)
                        if ok and data is not None:
                            ent.append("(%s %s %d)" % (C.hx(blk[:-4]), C.hx(data), zlib.crc32(data) & 0xffffffff))
                        else:
                            ent.append("(%s none)" % C.hx(blk[:-4]))
                items.append("(snappy%s)" % "".join(" " + e for e in sorted(set(ent))))
            else:
                skip("codec %s" % fam)
                continue
        for pol in (policies or POLICIES):
            mlines.append("ccr %d %s %s %s %s%s" % (j["cap"], C.hx(f), j["mode"], pol, src, "".join(" " + i for i in items)))
            mmeta.append((j, pol))
    mres = cont.run_model(mlines) if mlines else []
    evaluations += len(mlines)
    for (j, pol), ml, mr in zip(mmeta, mlines, mres):
        t, where = j["t"], j["where"]
        def diff(what, **kw):
            d = {"impl_case": j["line"], "model_case": ml[:60000], "what": "%s [whole file, policy %s]: %s" % (where, pol, what), "impl": j["res"][:400], "model": mr[:400]}
            d.update(kw)
            diffs.append(d)
        pm = C.parse_sx(mr)
        pm = pm[0] if pm and isinstance(pm[0], list) else ["bad", mr[:100]]
        if t.get("open_err"):
            notes["runs_compared"] += 1
            notes["by_end(model)"]["open-err"] = notes["by_end(model)"].get("open-err", 0) + 1
            if pm[0] != "open-err":
                diff("the crate does not open the file (%s), the model gives %s" % (t["open_err"], C.show_sx(pm)[:120]))
            continue
        if pm[0] == "unmodelled":
            skip("unmodelled by ccr_file")
            continue
        if pm[0] != "ok":
            diff("the crate opens the file, the model gives %s" % C.show_sx(pm)[:160])
            continue
        notes["runs_compared"] += 1
        notes["policies"][pol] = notes["policies"].get(pol, 0) + 1
        fam = j["w"]["codec"]
        notes["by_codec"][fam] = notes["by_codec"].get(fam, 0) + 1
        notes["capacities"][str(j["cap"])] = notes["capacities"].get(str(j["cap"]), 0) + 1
        src_kind = "slice" if j["mode"] == "slice" else ("chunks/irregular" if len(j["mode"].split()) > 2 else j["mode"])
        notes["sources"][src_kind] = notes["sources"].get(src_kind, 0) + 1
        mjson, mcodec, mmeta_, msync, mvals, mend = C.unhex(pm[1]), C.unhex(pm[2]), pm[3][1:], pm[4], pm[5][1:], pm[6]
        if mjson != t["json"]:
            diff("schema text: the model finds %r, the crate %r" % (mjson[:80], t["json"][:80]))
        if mcodec.decode("latin-1") != fam:
            diff("codec: the model finds %r, the runner's walk %r" % (mcodec, fam))
        if [tuple(kv) for kv in mmeta_] != [tuple(kv) for kv in t["meta"]]:
            diff("user metadata differ")
        cvals, cend, cflag, cmsg, cdecerr = crate_outcome(t)
        mv = [C.show_sx(v) for v in mvals]
        notes["values_compared"] += min(len(mv), len(cvals))
        if isinstance(mend, list):
            mclass = mend[1] if mend[0] == "block" else mend[0]
        else:
            mclass = mend
        notes["by_end(model)"][mclass] = notes["by_end(model)"].get(mclass, 0) + 1
        if cend is None:
            # the calls made did not reach an error or the end: the values so far must be the model's first ones
            if mv[:len(cvals)] != cvals:
                diff("values: the first %d of the crate are not the model's" % len(cvals))
            skip("no end within the calls made (values compared)")
            continue
        same = (mclass == cend) or (cend == "other" and mclass in OTHER)
        if mv == cvals and same:
            if mclass == "head" and isinstance(mend, list) and isinstance(mend[1], list) and mend[1][0] == "err" and cflag in ("io", "data") and mend[1][1] != cflag:
                diff("the count / size varint fails with an %s error in the crate, with %s in the model" % (cflag, mend[1][1]))
            continue
        if cend == "other" and cflag == "io" and cdecerr and mclass in ("decoder-err", "value") and mv[:len(cvals)] == cvals:
            # READ-AHEAD: the decoder's Err reached the crate's deserializer inside a value (ReaderRead::read_slice calls fill_buf
            # before looking at the length, also for a length of 0 and when the value's bytes are all buffered): the crate fails
            # that value; the model (values = De.de on the decompressed bytes to come, DecodeLoop.v) delivers every value whose
            # bytes came out before the Err and meets the same Err afterwards -- in a later value or in the end-of-block check
            key = "decoder_Err_met_by_the_crate_inside_a_value_whose_bytes_were_all_out(model: %d more value(s), then the same Err in %s)" % (
                len(mv) - len(cvals), "the end-of-block check" if mclass == "decoder-err" else "a value")
            notes.setdefault("read_ahead", {})
            notes["read_ahead"][key] = notes["read_ahead"].get(key, 0) + 1
            continue
        if mv != cvals:
            k = 0
            while k < min(len(mv), len(cvals)) and mv[k] == cvals[k]:
                k += 1
            diff("values before the first error / the end: the crate delivers %d, the model %d; first difference at index %d" % (len(cvals), len(mv), k))
            continue
        diff("the run ends differently: crate %s (%s), model %s" % (cend, cmsg[:90], C.show_sx(mend)))
    return {"diffs": diffs, "notes": notes, "evaluations": evaluations}

# ---------------------------------------------------------------- damage of whole files (C17)
def cuts(rng, f, w, k=6):
    """truncations of a file: inside the sync marker of the last and of the first block, inside block data, inside the count / size
    varints, at block boundaries, inside the header -> sorted offsets"""
    out = set()
    n = len(f)
    for d in (1, 8, 15, 16):
        if n - d > 0:
            out.add(n - d)
    for b in w["blocks"][:3]:
        end = b["data_at"] + b["size"]
        out.update(x for x in (b["data_at"] - 1, b["data_at"], b["data_at"] + b["size"] // 2, end - 1, end, end + 1, end + 9, end + 16) if 0 < x < n)
    out.add(w["hdr"])
    out.add(max(1, w["hdr"] - 5))
    out = sorted(out)
    if len(out) > k:
        keep = set(rng.sample(out, k))
        keep.add(n - 8 if n - 8 in out else out[-1])
        out = sorted(keep)
    return out

def truncation_jobs(rng, f, ncalls, where, k=6):
    """a file cut at up to k of the offsets of `cuts`, each read through a random source and BufReader capacity"""
    w = walk(f)
    if w is None or w["codec"] == "null":
        return []
    jobs = []
    for cut in cuts(rng, f, w, k):
        mode = rng.choice(["slice", "slice", "(chunks 1)", "(chunks 3)", "(chunks %d %d %d)" % (rng.randint(1, 9), rng.randint(1, 40), rng.randint(1, 9))])
        cap = 0 if w["codec"] == "snappy" else rng.choice([1, 2, 7, 64, 0])
        jobs.append({"file": f[:cut], "cap": cap, "mode": mode, "ncalls": ncalls, "where": "%s cut at %d of %d capacity %d %s" % (where, cut, len(f), cap, mode)})
    return jobs

def merge_notes(a, b):
    """sums the counters of two notes dicts (in place, into a)"""
    for k, v in b.items():
        if isinstance(v, dict):
            merge_notes(a.setdefault(k, {}), v)
        elif isinstance(v, int):
            a[k] = a.get(k, 0) + v
        else:
            a[k] = v
    return a
