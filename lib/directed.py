"""Directed families for the serializer-side properties (C01, C02, C13, C18): classes of inputs that the random
schema/value generators of gen.py reach too rarely to count as covered.

 * nullable_record_case: records of 3..7 fields most of which may be omitted (null, unions with null in any position),
   holding null more often than not -- for the enumeration of omission subsets x presentation orders;
 * RecCase: the presentations of ONE record value: every order, every subset of omitted nullable fields, duplicates at
   every pair of positions, unknown fields, omitted required fields, in the struct / struct-variant / map forms;
   and the failing first steps of a history on a shared configuration;
 * name_clash_case: unions whose branch / symbol names collide with the names the serializer's union lookup registers:
   enums with a symbol called Null (String, Int, ...) next to a null branch, named types sharing their short name across
   namespaces (the un-namespaced one first or last), unnamed branches designated by their type name (Long, Date, String ...)
   next to a named type whose unqualified name is that same word;
 * decimal_case: decimals over bytes and over fixed of every size 0..40, boundary and negative values.

Every expectation attached to these inputs comes from the extracted model / specification (codec.spec_batch, the model's
`ser` / `hist`) or is the property's own statement (duplicate / unknown / missing-required => Err)."""
import itertools
import common as C
import gen as G
from present import Presenter, dec_str

N = G.Node


class Builder:
    def __init__(self):
        self.nodes = [None]

    def add(self, node):
        self.nodes.append(node)
        return len(self.nodes) - 1

    def root(self, node):
        self.nodes[0] = node
        return self.nodes


def wrap_root(rng, b, k, wrapper):
    """puts node k at the root position behind a wrapper: itself (copied to 0), array, map, a record field (with
    neighbours), array of records"""
    nodes = b.nodes
    if wrapper == "root":
        # node k is the last one added and nobody refers to it yet: it becomes node 0
        assert k == len(nodes) - 1
        nodes[0] = nodes.pop()
        return nodes
    if wrapper == "array":
        nodes[0] = N("array", items=k)
    elif wrapper == "map":
        nodes[0] = N("map", values=k)
    elif wrapper == "record":
        i = b.add(N("int"))
        s = b.add(N("string"))
        fields = [("head", i), ("u", k), ("tail", s)]
        if rng.random() < 0.5:
            fields.append(("again", k))
        nodes[0] = N("record", name="Wrap", fields=fields)
    else:
        i = b.add(N("long"))
        r = b.add(N("record", name="ns.Row", fields=[("u", k), ("n", i), ("v", k)]))
        nodes[0] = N("array", items=r)
    return nodes


SPECIAL = ["Null", "String", "Int", "Long", "Boolean", "Bytes", "None", "Some", "Array", "Map"]


def name_clash_case(rng):
    """-> nodes (root = node 0)"""
    b = Builder()
    r = rng.random()
    branches = []
    if r >= 0.8:
        # an unnamed branch, designated by its TYPE NAME (Long, String, Date, Decimal, Array ...: the name the union lookup registers
        # for it and the deserializer reports), next to a named type whose UNQUALIFIED name is that same word in some namespace
        # (the lookup also registers unqualified names of named branches as a convenience -- which must only fill gaps)
        TYPE_NAMED = [("long", None, "Long"), ("int", None, "Int"), ("string", None, "String"), ("bytes", None, "Bytes"), ("boolean", None, "Boolean"),
                      ("double", None, "Double"), ("float", None, "Float"), ("int", "date", "Date"), ("long", "timestamp-millis", "TimestampMillis"),
                      ("long", "time-micros", "TimeMicros"), ("string", "uuid", "Uuid"), ("bytes", ("decimal", 1, 6), "Decimal"),
                      ("bytes", "big-decimal", "BigDecimal"), ("array", None, "Array"), ("map", None, "Map")]
        used_t = set()
        for _ in range(rng.choice([1, 1, 2])):
            t, lt, word = rng.choice(TYPE_NAMED)
            if t in used_t:
                continue
            used_t.add(t)
            if t == "array":
                un = b.add(N("array", items=b.add(N("int"))))
            elif t == "map":
                un = b.add(N("map", values=b.add(N("string"))))
            else:
                un = b.add(N(t, lt=lt))
            full = rng.choice(["wide", "calendar", "a.b", "ns"]) + "." + word
            kind = rng.choice(["record", "record", "enum", "fixed"])
            if kind == "record":
                i = b.add(N(rng.choice(["long", "int", "string", "bytes"])))
                nm = b.add(N("record", name=full, fields=[("value", i)]))
            elif kind == "enum":
                nm = b.add(N("enum", name=full, symbols=rng.choice([["A", "B"], ["Null", "B"], [word, "B"]])))
            else:
                nm = b.add(N("fixed", name=full, size=rng.choice([1, 2, 8])))
            branches += [un, nm] if rng.random() < 0.5 else [nm, un]
        extra = rng.choice([[], [], ["null"], ["null"], ["boolean"] if "boolean" not in used_t else []])
    elif r < 0.45:
        # a null branch and an enum with symbols called like the names the lookup registers
        n = rng.randint(1, 4)
        syms = ["Yes", "No", "Maybe", "S0"][:n]
        for i in rng.sample(range(n), rng.randint(1, n)):
            c = rng.choice(SPECIAL)
            if c not in syms:
                syms[i] = c
        if rng.random() < 0.75 and "Null" not in syms:
            syms[rng.randrange(n)] = "Null"
        e = b.add(N("enum", name=rng.choice(["Tri", "ns.Tri", "a.b.Answer", "E"]), symbols=syms))
        branches = [b.add(N("null")), e]
        extra = rng.choice([[], [], [], ["int"], ["string"], ["bytes"], ["record"], ["int", "record"]])
    else:
        # two named types with the same short name in different namespaces
        short = rng.choice(["Reading", "Key", "Item", "Tri"])
        ns_a, ns_b = rng.choice([("", "old"), ("", "a.b"), ("old", ""), ("a", "b"), ("a.b", "a")])
        def named(full, kind):
            if kind == "record":
                i = b.add(N(rng.choice(["long", "int", "string"])))
                return b.add(N("record", name=full, fields=[("value", i)]))
            if kind == "enum":
                return b.add(N("enum", name=full, symbols=rng.choice([["A", "B"], ["Null", "B"], ["B", "A", "C"]])))
            if kind == "fixed":
                return b.add(N("fixed", name=full, size=rng.choice([1, 2, 4])))
            return b.add(N("fixed", name=full, size=rng.choice([2, 4, 8]), lt=("decimal", rng.choice([0, 1]), 4)))
        ka = rng.choice(["record", "record", "enum", "fixed", "decimal"])
        kb = ka if rng.random() < 0.6 else rng.choice(["record", "enum", "fixed"])
        branches = [named((ns_a + "." + short) if ns_a else short, ka), named((ns_b + "." + short) if ns_b else short, kb)]
        extra = rng.choice([[], [], ["null"], ["int"], ["null", "string"]])
    for x in extra:
        if x == "record":
            i = b.add(N("int"))
            branches.append(b.add(N("record", name="Other", fields=[("x", i)])))
        else:
            branches.append(b.add(N(x)))
    if rng.random() < 0.6:
        rng.shuffle(branches)
    u = b.add(N("union", variants=branches))
    return wrap_root(rng, b, u, rng.choice(["root", "root", "array", "map", "record", "rows"]))


FIELD_POOL = ["null", "opt-int", "opt-int", "opt-int", "str-opt", "str-opt", "opt-rec", "opt-two", "opt-arr", "int", "int", "string",
              "string", "arr", "bytes", "long"]


def nullable_record_case(rng, nfields=None):
    """-> nodes of a record (root) with 3..7 fields, most of them omittable"""
    b = Builder()
    n = nfields or rng.choice([3, 3, 4, 4, 5, 6, 7])
    fields = []
    inner = None
    for i in range(n):
        c = rng.choice(FIELD_POOL)
        if c == "null":
            k = b.add(N("null"))
        elif c == "opt-int":
            k = b.add(N("union", variants=[b.add(N("null")), b.add(N("int"))]))
        elif c == "str-opt":
            k = b.add(N("union", variants=[b.add(N("string")), b.add(N("null"))]))
        elif c == "opt-rec":
            if inner is None:
                inner = b.add(N("record", name="ns.Inner", fields=[("x", b.add(N("int"))), ("y", b.add(N("union", variants=[b.add(N("null")), b.add(N("string"))])))]))
            k = b.add(N("union", variants=[b.add(N("null")), inner]))
        elif c == "opt-two":
            k = b.add(N("union", variants=[b.add(N("long")), b.add(N("null")), b.add(N("string"))]))
        elif c == "opt-arr":
            k = b.add(N("union", variants=[b.add(N("null")), b.add(N("array", items=b.add(N("string"))))]))
        elif c == "arr":
            k = b.add(N("array", items=b.add(N("int"))))
        else:
            k = b.add(N(c))
        fields.append(("f%d" % i, k))
    return b.root(N("record", name=rng.choice(["R", "ns.Rec"]), fields=fields))


def value_with_nulls(rng, nodes, tries=4):
    """a conforming value of the root record in which many nullable fields hold null"""
    best, score = None, -1
    for _ in range(tries):
        v = G.ValueGen(rng, nodes, layouts=False).gen(0)
        if v is None:
            continue
        sc = v.count("(union 0 null)") + v.count("(union 1 null)") + v.count(" null")
        sc = sc + rng.random() * 2.5
        if sc > score:
            best, score = v, sc
    return best


class RecCase:
    """the presentations of one record value (root of the schema); `spec` is an entry of codec.spec_batch"""
    def __init__(self, rng, spec):
        self.rng, self.spec = rng, spec
        nodes = spec["nodes"]
        self.rec = rec = nodes[0]
        e = C.parse_sx(spec["evalue"])[0]
        pr = Presenter(rng, nodes, break_prob=0.0, by_type_prob=0.0, canonical_layout=True)
        self.fields = []      # (name, sval, holds an omittable null, may be omitted at all)
        for (fname, fk), fe in zip(rec.fields, e[1:]):
            fn = nodes[fk]
            nullable_null = (fn.kind() == "null") or (fn.kind() == "union" and nodes[fn.variants[int(fe[1])]].kind() == "null"
                                                     and pr.first_null_is(fn, int(fe[1])))
            self.fields.append((fname, pr.pres(fk, fe), nullable_null, fn.kind() in ("null", "union")))
        self.slow = " slow" if pr.needs_slow else ""
        self.idxs = list(range(len(self.fields)))
        self.nullable = [i for i in self.idxs if self.fields[i][2]]
        self.required = [i for i in self.idxs if not self.fields[i][3]]

    def render(self, order, form, extra=None):
        """order: field indexes (repetitions allowed); extra: (position, name, sval) of an additional field"""
        rng, rec = self.rng, self.rec
        fs = [(self.fields[i][0], self.fields[i][1]) for i in order]
        if extra is not None:
            fs.insert(extra[0], (extra[1], extra[2]))
        hx = C.hx
        if form == "struct":
            return "(struct %s %d%s)" % (hx(rng.choice([rec.name, "X"])), len(fs), "".join(" (%s %s)" % (hx(f), v) for f, v in fs))
        if form == "variant":
            return "(struct_variant %s 1 %s %d%s)" % (hx("E"), hx(rec.name), len(fs), "".join(" (%s %s)" % (hx(f), v) for f, v in fs))
        if form == "map":
            return "(map %s%s)" % (rng.choice(["none", str(len(fs))]), "".join(" (entry (str %s) %s)" % (hx(f), v) for f, v in fs))
        return "(map none%s)" % "".join(" (key (str %s)) (value %s)" % (hx(f), v) for f, v in fs)

    FORMS = ["struct", "struct", "variant", "map", "keyvalue"]

    def orders(self, limit):
        """identity, reverse, rotations, then all / random permutations up to `limit`"""
        idxs = self.idxs
        n = len(idxs)
        out = [tuple(idxs), tuple(reversed(idxs))] + [tuple(idxs[k:] + idxs[:k]) for k in range(1, n)]
        if n <= 4:
            out += list(itertools.permutations(idxs))
        else:
            out += [tuple(self.rng.sample(idxs, n)) for _ in range(limit)]
        seen, res = set(), []
        for o in out:
            if o not in seen:
                seen.add(o)
                res.append(o)
        return res[:limit]

    def omit_subsets(self, limit):
        nl = self.nullable
        subs = [()] + [tuple(c) for r in range(1, len(nl) + 1) for c in itertools.combinations(nl, r)]
        if len(subs) > limit:
            subs = subs[:1] + self.rng.sample(subs[1:], limit - 1)
        return subs

    def omission_lines(self, max_orders, max_subsets, sink=None):
        """-> [(line, order, omitted, form)]: every order x every subset of omitted nullable fields"""
        out = []
        for perm in self.orders(max_orders):
            for sub in self.omit_subsets(max_subsets):
                order = [i for i in perm if i not in sub]
                form = self.rng.choice(self.FORMS)
                out.append(("ser %s %s%s%s" % (self.spec["schema"], self.render(order, form), self.slow, (" " + sink) if sink else ""),
                            perm, sub, form))
        return out

    def render_skips(self, order, skips, form):
        """struct / struct variant presentation with skip events: `skips` = [(position in the field list, field index)] --
        `(skipfield xF)` = SerializeStruct::skip_field(F), what a derived Serialize impl calls at the DECLARED position of a
        field left out by #[serde(skip_serializing_if)]; the announced length counts the presented fields only (as derive does)"""
        hx = C.hx
        evs = [" (%s %s)" % (hx(self.fields[i][0]), self.fields[i][1]) for i in order]
        for pos, i in sorted(skips, key=lambda x: -x[0]):
            evs.insert(pos, " (skipfield %s)" % hx(self.fields[i][0]))
        if form == "variant":
            return "(struct_variant %s 1 %s %d%s)" % (hx("E"), hx(self.rec.name), len(order), "".join(evs))
        return "(struct %s %d%s)" % (hx(self.rng.choice([self.rec.name, "X"])), len(order), "".join(evs))

    def skip_lines(self, max_orders, max_subsets, max_lines=400):
        """derived structs whose declared field order is any permutation of the schema's and whose null-holding fields are
        skipped (skip_field event at the declared position): every declared order x every non-empty subset of skipped nullable
        fields -- the declared order being a permutation of ALL fields, the skip event of each skipped field sits where the
        field is declared: before / between / after presented fields, next expected or not, successors buffered or not.
        -> [(line, declared order, skipped, form)]"""
        out = []
        subs = [s_ for s_ in self.omit_subsets(max_subsets + 1) if s_]
        for perm in self.orders(max_orders):
            for sub in subs:
                order, skips = [], []
                for i in perm:
                    if i in sub:
                        skips.append((len(order), i))
                    else:
                        order.append(i)
                form = self.rng.choice(["struct", "struct", "variant"])
                out.append(("ser %s %s%s" % (self.spec["schema"], self.render_skips(order, skips, form), self.slow), perm, sub, form + "+skip_field"))
        if len(out) > max_lines:
            out = self.rng.sample(out, max_lines)
        return out

    def duplicate_lines(self, max_orders):
        """a field presented twice, at every pair of positions of every order (so: before / after the field the
        serializer is waiting for, both occurrences buffered, one written and one buffered, both late), optionally
        with nullable fields omitted -> [(line, what)]"""
        out = []
        for perm in self.orders(max_orders):
            base = list(perm)
            if self.nullable and self.rng.random() < 0.3:
                drop = self.rng.choice(self.nullable)
                base = [i for i in base if i != drop]
            for f in base:
                for pos in range(len(base) + 1):
                    order = base[:pos] + [f] + base[pos:]
                    form = self.rng.choice(["struct", "map", "map", "keyvalue", "variant"])
                    out.append(("ser %s %s%s" % (self.spec["schema"], self.render(order, form), self.slow),
                                "field %d twice in presentation order %s (%s)" % (f, order, form)))
        seen, res = set(), []
        for l, w in out:
            key = l.split(" ", 1)[1]
            if key not in seen:
                seen.add(key)
                res.append((l, w))
        return res

    def failing_first_steps(self):
        """presentations of this record that must fail while at least one field sits in a reordering buffer
        -> [(kind, sval, budget)]"""
        idxs = self.idxs
        n = len(idxs)
        rev = list(reversed(idxs))
        out = []
        if n >= 2:
            # (the first field of the schema is presented last / never: everything before it is buffered)
            out.append(("duplicate-buffered", self.render([rev[0]] + rev, "struct"), "none"))
            out.append(("duplicate-buffered-map", self.render(rev[:1] + rev[:1] + rev[1:], "map"), "none"))
            out.append(("unknown-after-buffering", self.render(rev, "struct", extra=(1, "nope", "unit")), "none"))
            out.append(("value-fails-after-buffering", self.render(rev[:-1], "struct", extra=(n - 1, self.fields[0][0], "fail")), "none"))
            out.append(("value-fails-in-buffered-field", self.render(rev[:1], "keyvalue", extra=(1, self.fields[rev[1]][0], "fail")), "none"))
            if self.required:
                r0 = self.required[0]
                order = [i for i in rev if i != r0]
                if order and order[0] != 0 or len(order) > 1:
                    out.append(("missing-required-after-buffering", self.render(order, "struct"), "none"))
            for k in (0, 1, 3):
                out.append(("sink-fails-at-%d" % k, self.render(rev, "struct"), str(k)))
        return out


def decimal_cases(rng, n):
    """-> [(nodes, evalue sexp, [presentations (sval, preserves the value)])]"""
    out = []
    sizes = list(range(0, 41))
    for _ in range(n):
        scale = rng.choice([0, 0, 1, 2, 3, 5])
        if rng.random() < 0.8:
            size = rng.choice(sizes + [17, 18, 20, 24, 32, 33, 40] * 3)
            nodes = [N("fixed", name=rng.choice(["D", "ns.Dec"]), size=size, lt=("decimal", scale, rng.randint(1, 38)))]
            nb = min(size, 12)
        else:
            size = None
            nodes = [N("bytes", lt=("decimal", scale, rng.randint(1, 38)))]
            nb = 12
        if nb == 0:
            m = 0
        else:
            lim = 2 ** (8 * nb - 1)
            m = rng.choice([0, 1, -1, -2, 127, -128, -129, 128, 255, -256, 32767, -32768, -32769, lim - 1, -lim, -lim + 1,
                            rng.randint(-lim, lim - 1), -rng.randint(1, lim), rng.randint(-10**6, 10**6), -rng.randint(1, 10**4)])
        pres = [("(str %s)" % C.hx(dec_str(m, scale)), True)]
        if m % (10 ** scale) == 0:
            z = m // (10 ** scale)
            w = [t for t, a, b in (("i8", -2**7, 2**7 - 1), ("i16", -2**15, 2**15 - 1), ("i32", -2**31, 2**31 - 1), ("i64", -2**63, 2**63 - 1),
                                   ("i128", -2**127, 2**127 - 1), ("u64", 0, 2**64 - 1), ("u128", 0, 2**128 - 1)) if a <= z <= b]
            pres.append(("(%s %d)" % (rng.choice(w), z), True))
        # more fractional digits than the scale, all zero: the same number
        if abs(m * 100) < 2 ** 96:
            pres.append(("(str %s)" % C.hx(dec_str(m * 100, scale + 2)), True))
        if rng.random() < 0.3:
            pres.append(("(newtype_struct %s (str %s))" % (C.hx("Decimal"), C.hx(dec_str(m, scale))), True))
        out.append((nodes, "(decimal %d 0)" % m, pres))
    return out


def plain_union_case(rng, pair=None, wrapper=None):
    """Unions that are NOT of the shape [null,T] / [T,null] and that a Rust type may still hold as Option<enum>:
    two branches none of which is null (every pair of leaf kinds is reachable; `pair` = indices into
    G.leaf_kind_schemas() for the directed enumeration), one branch, three branches with or without null; at the
    root, in an array / map / record field / array of records. -> nodes (root = node 0)"""
    leaves = [(lab, ns[0]) for lab, ns in G.leaf_kind_schemas() if not lab.startswith("unknown-logical")]
    b = Builder()
    def leaf(i):
        lab, n = leaves[i]
        return N(n.t, name=n.name, symbols=n.symbols, size=n.size, lt=n.lt)
    def branch_kind(n):
        if n.t == "fixed" and n.kind() == "duration":
            return "duration"
        if n.t in ("record", "enum", "fixed"):
            return "named:" + n.name
        return n.t if n.kind() == n.t else n.kind()
    if pair is not None:
        cand = [leaf(pair[0]), leaf(pair[1])]
    else:
        r = rng.random()
        cnt = 2 if r < 0.6 else (1 if r < 0.7 else 3)
        cand = [leaf(rng.randrange(len(leaves))) for _ in range(cnt)]
        if cnt == 3 and rng.random() < 0.5:
            cand[rng.randrange(3)] = N("null")
        if rng.random() < 0.3:
            i = b.add(N("int"))
            cand[rng.randrange(len(cand))] = rng.choice([
                N("record", name="ns.Rec", fields=[("a", i)]), N("array", items=i), N("map", values=i)])
    seen, keys = set(), []
    for n in cand:
        bk = branch_kind(n)
        if bk in seen or (n.t == "null" and pair is not None):
            continue
        seen.add(bk)
        keys.append(b.add(n))
    if len(keys) == 2 and any(b.nodes[k].t == "null" for k in keys):
        keys = [k for k in keys if b.nodes[k].t != "null"]
    u = b.add(N("union", variants=keys))
    return wrap_root(rng, b, u, wrapper or rng.choice(["root", "root", "array", "map", "record", "rows"]))


def zero_byte_cases():
    """schemas whose every datum is ZERO bytes long (null, records without fields / of nulls / of such records, fixed of
    size 0 and records of them), with the value: a message or a block can then end exactly where its header ends.
    -> [(nodes, evalue)]"""
    return [
        ([N("null")], "null"),
        ([N("record", name="Empty", fields=[])], "(record)"),
        ([N("record", name="ns.Nulls", fields=[("a", 1), ("b", 1)]), N("null")], "(record null null)"),
        ([N("record", name="ns.Outer", fields=[("inner", 1), ("n", 2)]), N("record", name="ns.Inner", fields=[]), N("null")], "(record (record) null)"),
        ([N("fixed", name="F0", size=0)], "(fixed x)"),
        ([N("record", name="WithF0", fields=[("f", 1), ("g", 1), ("n", 2)]), N("fixed", name="ns.F0", size=0), N("null")], "(record (fixed x) (fixed x) null)"),
    ]


def variant_shape_case(rng):
    """Unions whose branches are containers a Rust enum may hold in a TUPLE variant (array) or a STRUCT variant (record)
    next to newtype / unit variants (leaves, null, map), always FOLLOWED by something in the datum: later fields of a
    record, the next element of an enclosing array / map, the next row. Every value of the array branch gets the same
    number of items (0..3), so that one tuple arity fits all the union values of the datum.
    -> (nodes (root = node 0), {array node key: item count})"""
    b = Builder()
    item = rng.choice(["int", "int", "string", "long", "record", "array", "union", "bytes"])
    if item == "record":
        x = b.add(N("int"))
        it = b.add(N("record", name="ns.Item", fields=[("x", x), ("y", b.add(N("string")))]))
    elif item == "array":
        it = b.add(N("array", items=b.add(N("int"))))
    elif item == "union":
        it = b.add(N("union", variants=[b.add(N("null")), b.add(N("string"))]))
    else:
        it = b.add(N(item))
    arr = b.add(N("array", items=it))
    branches = [arr]
    if rng.random() < 0.6:
        fs = [("a", b.add(N("int")))]
        if rng.random() < 0.6:
            fs.append(("b", b.add(N(rng.choice(["string", "bytes", "double"])))))
        if rng.random() < 0.3:
            fs.append(("c", b.add(N("array", items=b.add(N("long"))))))
        branches.append(b.add(N("record", name=rng.choice(["ns.Rec", "Rec", "a.b.Pair"]), fields=fs)))
    for x in rng.sample(["null", "int", "string", "map", "boolean", "double"], rng.randint(0, 2)):
        branches.append(b.add(N("map", values=b.add(N("int")))) if x == "map" else b.add(N(x)))
    rng.shuffle(branches)
    u = b.add(N("union", variants=branches))
    nodes = wrap_root(rng, b, u, rng.choice(["array", "map", "record", "record", "rows"]))
    return nodes, {arr: rng.choice([0, 1, 1, 2, 2, 3])}


def seq_stats(evalue):
    """evalue (text or parsed): -> (longest, total, n) over the arrays / maps of the value: the item count of the longest
    one, the sum of all item counts, the number of arrays / maps (the item count of a sequence = the sum over its blocks)"""
    t = C.parse_sx(evalue)[0] if isinstance(evalue, str) else evalue
    longest, total, n = 0, 0, 0
    def walk(x):
        nonlocal longest, total, n
        if not isinstance(x, list) or not x:
            return
        if x[0] in ("array", "map"):
            cnt = 0
            for blk in x[1:]:
                its = blk[2:]
                cnt += len(its)
                for it in its:
                    walk(it[1] if x[0] == "map" else it)
            longest, total, n = max(longest, cnt), total + cnt, n + 1
            return
        for y in x[1:]:
            walk(y)
    walk(t)
    return longest, total, n


def multi_seq_case(rng):
    """Schemas whose values hold SEVERAL sequences: sibling arrays / maps in a record, arrays nested in arrays, arrays of
    maps, maps of arrays, arrays of records that hold arrays, unions over arrays -- for the configurations in which
    max_seq_size is close to the length of the longest one. -> nodes (root = node 0)"""
    b = Builder()
    def leaf():
        return b.add(N(rng.choice(["int", "long", "string", "boolean", "bytes", "double"])))
    def seq(depth):
        r = rng.random()
        inner = leaf() if depth >= 2 or r < 0.5 else seq(depth + 1)
        if r > 0.85 and depth < 2:
            inner = b.add(N("record", name="ns.R%d" % len(b.nodes), fields=[("p", seq(depth + 1)), ("q", leaf()), ("r", seq(depth + 1))]))
        elif r > 0.78:
            inner = b.add(N("union", variants=[b.add(N("null")), b.add(N("array", items=leaf()))]))
        return b.add(N("array", items=inner) if rng.random() < 0.6 else N("map", values=inner))
    shape = rng.choice(["siblings", "siblings", "nested", "rows"])
    if shape == "siblings":
        fs = []
        for i in range(rng.randint(2, 5)):
            fs.append(("f%d" % i, seq(1) if rng.random() < 0.75 else leaf()))
        return b.root(N("record", name="Multi", fields=fs))
    if shape == "nested":
        k = seq(0)
        b.nodes[0] = b.nodes[k]
        # node k stays as an unused copy (keys of the others unchanged)
        return b.nodes
    row = b.add(N("record", name="ns.Row", fields=[("a", seq(1)), ("n", leaf()), ("b", seq(1))]))
    return b.root(N("array", items=row))
