"""C15 -- container writer: valid file at every quiescent point; failed values leave none."""
import random
import common as C
import gen as G
import cont

MODEL_TARGETS = ["model/Container.vo", "spec/FileSpec.vo"]
COQ_TARGETS = ["props/C15.vo", "proofs/ConstsTie.vo"]
THEOREMS = [("C15", ["C15_fail", "C15_built", "C15_inv", "C15_accounting", "C15_accounting_any_sink", "C15_flush", "C15_nopanic", "C15_parses"])]
PROOF_FILES = ["proofs/ContainerProofs.v", "proofs/ContainerFinal.v", "proofs/SerContractProofs.v", "proofs/VectoredWriteProofs.v", "props/C15.v"]
TRUSTED_BASE = [
    "sink refusals (lib/cont.py refusal_runs / judge_refusals): one zero-length write or hard error (plain or of a named std::io::ErrorKind -- harness sink answer (h KIND); the model has ONE hard answer, VectoredWrite.Hard, for all kinds other than Interrupted) at a call index of a block flush, then a working sink, under a caller that keeps using the writer. What every later call returns and what the sink holds is Container.wrun under the same schedule (flush_finished keeps w_pending and the buffer on the error path: the block is re-sent from its start) -- compared for the null codec. The verdict on a CLEAN refusal (no byte of the block accepted) is a Python-side reading of the property, stated here: every later call that returns Ok leaves a file the extracted reference parser accepts, whose blocks (independent decoders) hold exactly the encodings of the values they announce, a prefix of the values (all after finish_block / into_inner / drop); the value of the refused serialize call itself may or may not be counted (the model keeps it)",
    "Coq 8.16.1 kernel; no axioms (Print Assumptions: closed); no native_compute",
    "extraction (ExtrOcamlBasic only) + ocaml/driver.ml (parsing/printing); Rust harness avrodrive",
    "hand-written model/Container.v of writer/mod.rs (wstate: buffer, count, pending block, sink, schedule, pools) tied by the correspondence run (null codec: per-call outcomes, sink lengths, bytes; on the accept-everything sink and under partial-write / interruption schedules, the harness' scheduled sink being the machine of VectoredWrite.next_ans/available)",
    "spec/FileSpec.v reference parser (extracted) is the independent judge of every sink snapshot, for every codec; block data of compressed snapshots are decoded by decoders that are not the crate's reader: Python zlib/bz2/lzma for deflate/bzip2/xz (exactly one complete stream per block), the snap / zstd crates' own decoders (harness command blockdec) and Python's zlib.crc32 for snappy/zstandard; the crate's own reader also reads every snapshot for all codecs",
    "hook H3 (hooks/H3.diff, harness command cwh): the starting length of the encode loops' output buffer is set by the run (the crate's value 32768 is one of the values used)",
    "OCaml driver command cwraw: Container.v's writer (parametric in the block compressor) instantiated with the identity and the codec's name; lib/cont.py raw_view rebuilds the same view of a snapshot of the crate's sink from the reference parser's blocks and the independent decoders' payloads",
]
ASSUMPTIONS = [
    "compression libraries are outside the model: enc is an arbitrary function in the theorems; compressed snapshots are judged on the crate: reference parser + independent decoders (payload of every block = encodings of the values it announces) + the crate's reader, and compared call by call with the model instantiated with enc = identity",
    "the two contracts of ser used by the accounting and no-panic theorems (ser only appends; ser has no writer panic site) are proved for the real ser in proofs/SerContractProofs.v",
    "push_serialized(bytes, n) with n >= 2^63 or with n = 0 and non-empty bytes is a caller error outside the property (ContainerProofs.finish_leaves_uncounted_bytes, count_above_i64_not_in_grammar)"
]

def clip(line, n=1200000):
    """the whole harness line (it reproduces the case); only absurdly long ones are cut"""
    return line if len(line) <= n else line[:n]

def run(ctx):
    rng = random.Random(ctx["seed"] * 1000003 + 15)
    n = 250 if ctx["tier"] == "quick" else 6000
    nbigre = 40 if ctx["tier"] == "quick" else 600
    hs = []
    for k in range(n + nbigre):
        bigre = k >= n
        reorder = bigre or rng.random() < 0.5
        if bigre:
            # random presentations (fields out of order, failing values at some depth) of values carrying long byte strings / strings,
            # with deflate / bzip2 / xz and a small starting length of the encode loops' buffer (hook H3): every block grows it several times
            h = cont.History(rng, big=True, schema_kw={"max_nodes": rng.choice([3, 6, 10]), "max_depth": 3})
        else:
            h = cont.History(rng, schema_kw={"max_nodes": rng.choice([3, 6, 10]), "max_depth": 3}) if reorder else cont.History(rng)
        h.prepare()
        ops, expected = cont.make_ops(rng, h, reorder=reorder)
        if bigre:
            codec_sx = rng.choice([c for c in cont.CODECS if cont.codec_family(c) in cont.LOOP_FAMILIES])
            bsz = rng.choice([0, 64, 4096, 65536])
            start = rng.choice([1, 2, 64, 1024])
        else:
            codec_sx = rng.choice(cont.CODECS) if rng.random() < 0.5 else "null"
            bsz = rng.choice([0, 1, 2, 5, 16, 64, 65536])
            start = rng.choice([None, 1, 2, 64]) if cont.codec_family(codec_sx) in cont.LOOP_FAMILIES else None
        h.reorder = reorder
        hs.append((h, ops, expected, codec_sx, bsz, start))
    # blocks whose compressed form outgrows the encode loops' output buffer (several times): every codec setting x starting length
    bigs = []
    for (c, start, shape, content, far) in cont.big_plan(rng, ctx["tier"]):
        bigs.append((cont.BigHistory(rng, start, shape, content=content, want_far=far), c, start))
    cont.prepare_all([h for h, _, _ in bigs])
    for h, c, start in bigs:
        ops, expected = cont.make_ops(rng, h, allow_fail=rng.random() < 0.4)
        h.reorder = False
        hs.append((h, ops, expected, c, cont.big_block_size(rng, h), start))
    # schema json as the crate reports it (input of the model's header)
    fr = C.run_parallel(C.AVRODRIVE, ["freeze " + h.schema for h, *_ in hs])
    jsons = [C.unhex(C.parse_sx(r)[0][2]) for r in fr]
    impl_lines = [cont.with_start(st, cont.cw_line(h, c, b, "vec", [], ops)) for (h, ops, ex, c, b, st) in hs]
    impl = C.run_parallel(C.AVRODRIVE, impl_lines)
    # Container.v's writer; for a compressed codec with the identity as block compressor (cwraw): the sink before block compression
    model_lines = [cont.raw_model_line(cont.cw_line(h, c, b, "vec", [], ops, with_json=j)) for (h, ops, ex, c, b, st), j in zip(hs, jsons)]
    model = cont.run_model(model_lines)
    violations, diffs, samples = [], [], []
    snap_lines, snap_meta = [], []
    nontrivial = set()
    from collections import Counter
    dist = Counter()
    pis, pms = {}, {}
    cls = lambda ops_: [(r if r in ("ok", "gone") else "err") for r, l in ops_]
    for idx, ((h, ops, expected, c, b, st), li, ri, lm, rm) in enumerate(zip(hs, impl_lines, impl, model_lines, model)):
        li = clip(li)
        pi = cont.parse_cw(ri)
        if pi is None or pi.get("build_err"):
            violations.append({"impl_case": li, "what": "writer could not be built or crashed", "impl": ri[:300]})
            continue
        pis[idx] = pi
        if rm != "(unmodelled)":
            pm = cont.parse_cw(rm)
            same = pm and not pm.get("build_err") and pm["built"] == pi["built"] and cls(pi["ops"]) == cls(pm["ops"]) and \
                pm["sink"][:pm["built"]] == pi["sink"][:pi["built"]]
            if same and c == "null":
                same = pm["sink"] == pi["sink"] and [l for r, l in pi["ops"]] == [l for r, l in pm["ops"]]
            if not same:
                diffs.append({"impl_case": li, "model_case": clip(lm), "impl": ri[:600], "model": rm[:600]})
            else:
                pms[idx] = pm
        # expectations per op
        exp_texts = [h.spec[i]["dany"] for i in expected]
        done = 0
        snaps = [("built", pi["built"], 0, False, -1)]
        for oi, ((kind, _sx, *vals), (res, ln)) in enumerate(zip(ops, pi["ops"])):
            if kind == "fail":
                if res == "ok":
                    violations.append({"impl_case": li, "what": "a failing value was accepted"})
            elif kind in ("ser", "push"):
                if res != "ok":
                    violations.append({"impl_case": li, "what": "a conforming value was rejected: %s" % res})
                else:
                    done += 1
            if res == "ok":
                snaps.append((kind, ln, done, kind in ("finish", "into_inner", "drop"), oi))
            elif kind in ("finish", "into_inner", "drop"):
                violations.append({"impl_case": li, "what": "%s failed on a well-behaved sink: %s" % (kind, res)})
        seen = {}
        for kind, ln, done_k, flush, oi in snaps:
            # one reader run per distinct sink length (the sink only grows, `done` never decreases): the same bytes must be a prefix of
            # the values written when that length was FIRST seen, and hold all the values written at every flush point that left it there
            if ln in seen:
                m = snap_meta[seen[ln]]
                m["ois"].append(oi)
                if flush:
                    m["flush_done"] = max(m["flush_done"], done_k)
                    m["kind"] = kind
                continue
            seen[ln] = len(snap_lines)
            snap_lines.append("cr %s slice any %d" % (C.hx(pi["sink"][:ln]), max(200, len(exp_texts) + 3)))
            snap_meta.append({"idx": idx, "kind": kind, "ln": ln, "first_done": done_k, "flush_done": done_k if flush else -1,
                              "ois": [oi], "exp": exp_texts})
        nontrivial.add((h.schema, tuple(o[0] for o in ops), c, b, st))
        if len(samples) < 4:
            samples.append({"schema": h.schema[:200], "codec": c, "approx_block_size": b, "ops": [o[0] for o in ops], "start": st})
    snaps = C.run_parallel(C.AVRODRIVE, snap_lines)
    parse_lines = ["fileparse " + line.split()[1] for line in snap_lines]
    parses = cont.run_model(parse_lines)
    dec = cont.BlockDecoder()
    fps = []
    for m, res in zip(snap_meta, parses):
        fp = cont.parse_fileparse(res)
        fps.append(fp)
        for cnt, d in (fp["blocks"] if fp else []):
            dec.want(cont.codec_family(hs[m["idx"]][3]), d)
    dec.flush()
    for line, res, m, fp in zip(snap_lines, snaps, snap_meta, fps):
        idx, kind, ln = m["idx"], m["kind"], m["ln"]
        h, ops, expected, c, b, st = hs[idx]
        fam = cont.codec_family(c)
        exp_texts = m["exp"]
        pr = cont.parse_cr(res)
        li = clip(impl_lines[idx])
        if pr.get("open_err") or "items" not in pr:
            violations.append({"impl_case": li, "what": "sink contents after '%s' (first %d bytes) are not a readable file" % (kind, ln),
                               "reader": res[:300], "snapshot_case": line[:2000]})
        else:
            ok, k, why = cont.values_prefix_then_eof(pr["items"], exp_texts[:m["first_done"]], False)
            if ok and m["flush_done"] >= 0 and k != m["flush_done"]:
                ok, why = False, "only %d of %d values present after a flush point" % (k, m["flush_done"])
            if not ok:
                violations.append({"impl_case": li, "what": "after '%s' (%d bytes, %d values written): %s" % (kind, ln, max(m["first_done"], m["flush_done"]), why),
                                   "snapshot_case": line[:2000]})
        # independent judge of the same snapshot: the extracted reference parser, and for compressed codecs decoders that are not the crate's
        if fp is None:
            violations.append({"impl_case": li, "what": "reference parser rejects the sink contents after '%s' (first %d bytes)" % (kind, ln)})
            continue
        blocks = fp["blocks"]
        cnt = sum(bc for bc, _ in blocks)
        pls = []
        for bi, (bc, d) in enumerate(blocks):
            pl, why = dec.get(fam, d)
            pls.append(pl)
            if pl is None:
                violations.append({"impl_case": li, "what": "after '%s' (first %d bytes of the sink): data of block %d (%d bytes, %d objects) is not a %s stream an independent decoder accepts: %s" % (
                    kind, ln, bi, len(d), bc, fam, why)})
        if any(pl is None for pl in pls):
            dist["snapshots-undecodable/" + fam] += 1
            continue
        dist["snapshots-parsed+decoded/" + fam] += 1
        data = b"".join(pls)
        want = b"".join(C.unhex(h.spec[i]["canon"]) for i in expected[:cnt])
        if h.reorder:
            want = data      # random presentations may choose other (equally valid) block layouts for arrays / maps: bytes judged by the reader above and by the model below
        if cnt > m["first_done"] or data != want or (m["flush_done"] >= 0 and cnt != m["flush_done"]) or any(bc <= 0 for bc, _ in blocks):
            violations.append({"impl_case": li, "what": "block contents after '%s' (first %d bytes of the sink; counts %r, %d decoded bytes) are not the encodings of the first %d values (%d bytes)" % (
                kind, ln, [bc for bc, _ in blocks], len(data), cnt, len(want))})
        # model: the snapshot with its blocks decompressed = the model's sink at the same call
        pm = pms.get(idx)
        if pm is not None:
            pi = pis[idx]
            rv = cont.raw_view(pi["sink"][:pi["built"]], fp["sync"], list(zip([bc for bc, _ in blocks], pls)))
            for oi in m["ois"]:
                mlen = pm["built"] if oi < 0 else pm["ops"][oi][1]
                if rv != pm["sink"][:mlen]:
                    diffs.append({"impl_case": li, "model_case": clip(model_lines[idx]),
                                  "what": "after call %d ('%s'): the sink with its blocks decompressed (%d bytes, counts %r) is not the model's sink at that call (%d bytes)" % (
                                      oi, kind, len(rv), [bc for bc, _ in blocks], mlen)})
                    break
        if st is not None or isinstance(h, cont.BigHistory):
            g = max([cont.growth_steps(st or 32768, len(d)) for _, d in blocks] + [0]) if fam in cont.LOOP_FAMILIES else 0
            dist["snapshots/buffer-growth-steps/%s/%s%s" % (fam, "0" if g == 0 else "1-2" if g <= 2 else "3-6" if g <= 6 else "7+", "/reordered" if h.reorder else "")] += 1
    # ---- the same histories through sinks that take the file in pieces: partial writes (gathering / default write_vectored,
    # k bytes per call) and 'interrupted' at call indexes of block flushes are not failures -- every call must return what it
    # returns on the accept-everything sink and leave the same bytes behind (then the snapshot is the one judged above);
    # whatever differs is judged on its own: the snapshot after every call that returned Ok must be a valid file
    cand = [idx for idx in sorted(pis) if idx < n and not any(v.get("impl_case") == clip(impl_lines[idx]) for v in violations)]
    rng.shuffle(cand)
    cand = cand[:(70 if ctx["tier"] == "quick" else 1500)]
    cases = [{"h": hs[idx][0], "ops": hs[idx][1], "codec": hs[idx][3], "bsz": hs[idx][4], "meta": [], "start": hs[idx][5],
              "json": jsons[idx], "bp": pis[idx], "idx": idx} for idx in cand]
    sruns = cont.scheduled_runs(rng, cases, n_inject_bases=2, bad=False, singles=6, n_random=1)
    q_lines, q_meta = [], []
    for r in sruns:
        c = cases[r["ci"]]
        idx, bp, pi = c["idx"], c["bp"], r["pi"]
        h, ops, expected = hs[idx][0], hs[idx][1], hs[idx][2]
        sink_kind = "%s, %s write_vectored" % (r["tag"], "gathering" if r["vectored"] else "default")
        dist["scheduled-sink-runs/" + ("gathering" if r["vectored"] else "default-write_vectored")] += 1
        if pi is None or pi.get("build_err"):
            violations.append({"impl_case": clip(r["line"]), "what": "writer could not be built or crashed on a sink taking partial writes (%s)" % sink_kind, "impl": r["res"][:300]})
            continue
        d = cont.model_vs_run(r)
        if d:
            diffs.append(d)
        if cont.canon_ops(pi["ops"]) == cont.canon_ops(bp["ops"]) and pi["sink"] == bp["sink"]:
            continue
        done = 0
        queued = False
        for oi, ((kind, _sx, *vals), (res, ln), (bres, bln)) in enumerate(zip(ops, pi["ops"], bp["ops"])):
            if kind in ("ser", "push") and bres == "ok":
                done += 1
            if res != "ok" and bres == "ok":
                violations.append({"impl_case": clip(r["line"]), "what": "call %d ('%s') failed on a well-behaved sink (%s: partial writes and 'interrupted' are not failures) -- it succeeds on the accept-everything sink" % (oi, kind, sink_kind),
                                   "impl": r["res"][:400]})
                break
            if res == "ok" and pi["sink"][:ln] != bp["sink"][:bln] and not queued:
                queued = True
                q_lines.append("cr %s slice any %d" % (C.hx(pi["sink"][:ln]), max(200, len(expected) + 3)))
                q_meta.append((r, oi, kind, ln, done, [h.spec[i]["dany"] for i in expected], kind in ("finish", "into_inner", "drop")))
    q_res = C.run_parallel(C.AVRODRIVE, q_lines)
    q_fp = cont.run_model(["fileparse " + l.split()[1] for l in q_lines])
    for line, res, rfp, (r, oi, kind, ln, done, exp_texts, flush) in zip(q_lines, q_res, q_fp, q_meta):
        pr = cont.parse_cr(res)
        sink_kind = "%s, %s write_vectored" % (r["tag"], "gathering" if r["vectored"] else "default")
        if pr.get("open_err") or "items" not in pr:
            violations.append({"impl_case": clip(r["line"]), "what": "sink contents after call %d ('%s', first %d bytes) are not a readable file (sink: %s)" % (oi, kind, ln, sink_kind),
                               "reader": res[:300], "snapshot_case": line[:2000]})
            continue
        ok, k, why = cont.values_prefix_then_eof(pr["items"], exp_texts[:done], flush)
        if not ok:
            violations.append({"impl_case": clip(r["line"]), "what": "after call %d ('%s', %d bytes, %d values written; sink: %s): %s" % (oi, kind, ln, done, sink_kind, why),
                               "snapshot_case": line[:2000]})
        elif cont.parse_fileparse(rfp) is None:
            violations.append({"impl_case": clip(r["line"]), "what": "reference parser rejects the sink contents after call %d ('%s', first %d bytes; sink: %s)" % (oi, kind, ln, sink_kind)})
        else:
            diffs.append({"impl_case": clip(r["line"]), "what": "the sink after call %d differs from the accept-everything sink's at the same call (both valid files) under %s" % (oi, sink_kind)})
    n_sched = len(sruns) + sum(1 for r in sruns if r["rm"] is not None) + 2 * len(q_lines)
    # ---- a sink that refuses ONE write of a block flush (zero-length write / hard error of some kind) and then works again, under a
    # caller that goes on using the writer (finish_block retried, more values, into_inner / drop): the finished block stays pending
    # and is re-sent; after a clean refusal (no byte of the block accepted) every later call that returns Ok is a quiescent point
    rcases = []
    for _ in range(40 if ctx["tier"] == "quick" else 800):
        h = cont.History(rng, n_values=rng.choice([1, 2, 3, 5]))
        h.prepare()
        rops, rexp = cont.retry_ops(rng, h)
        c = rng.choice(cont.CODECS) if rng.random() < 0.4 else "null"
        rcases.append({"h": h, "ops": rops, "codec": c, "bsz": rng.choice([0, 0, 1, 5, 16, 64, 65536]), "meta": [],
                       "start": rng.choice([None, 1, 64]) if cont.codec_family(c) in cont.LOOP_FAMILIES else None})
    for c, r in zip(rcases, C.run_parallel(C.AVRODRIVE, ["freeze " + c["h"].schema for c in rcases])):
        c["json"] = C.unhex(C.parse_sx(r)[0][2])
    rbl = [cont.with_start(c["start"], cont.cw_line(c["h"], c["codec"], c["bsz"], "vec", [], c["ops"])) for c in rcases]
    for c, bl, r in zip(rcases, rbl, C.run_parallel(C.AVRODRIVE, rbl)):
        c["bp"] = cont.parse_cw(r)
        if c["bp"] is None or c["bp"].get("build_err") or any(res != "ok" for res, _ in c["bp"]["ops"]):
            violations.append({"impl_case": clip(bl), "what": "a history of conforming values failed on a Vec sink", "impl": r[:300]})
            c["bp"] = None
    rcases = [c for c in rcases if c["bp"] is not None]
    rruns = cont.refusal_runs(rng, rcases, n_bases=3)
    n_sched += len(rbl) + len(rruns) + sum(1 for r in rruns if r["rm"] is not None)
    n_sched += cont.judge_refusals(rruns, rcases, violations, diffs, dist, surfaces=False, clip=clip)
    violations.sort(key=lambda v: len(v.get("impl_case", "")))      # the smallest reproducing inputs first
    return {"evaluations": len(impl_lines) + len(model_lines) + len(snap_lines) + len(parse_lines) + n_sched, "distinct_nontrivial": len(nontrivial),
            "rule": "histories over {serialize ok, serialize failing at some depth, push pre-serialized, finish_block, into_inner, drop} x "
                    "approx_block_size {0,1,2,5,16,64,65536} x codecs x starting length of the encode loops' output buffer {crate's 32768, 1, 2, 64} (hook H3); "
                    "random presentations of values carrying 300..6000-byte strings / byte strings under deflate / bzip2 / xz with START in {1,2,64,1024}; a directed "
                    "enumeration codec setting x START {1,2,64,1024,4096,32768} x value shapes {bytes, string, fixed, record{long,bytes}, array of doubles, many medium "
                    "records per block} with incompressible / text / constant contents of START-1..40*START and 33000..200000 bytes (distribution: growth steps of "
                    "the buffer per snapshot); after every call that returned Ok the sink snapshot is read back by the crate's "
                    "reader (must yield a prefix of the written values, all of them after a flush point, then end of stream) and, for EVERY codec, "
                    "parsed by the extracted reference parser, every block's data decoded by a decoder that is not the crate's (Python zlib/bz2/lzma; snap / zstd crates "
                    "for snappy / zstandard): exactly one complete stream per block, block counts and payloads = the encodings of a prefix of the values; model vs crate: per-call "
                    "outcomes, header, and at every call the sink with its blocks decompressed = the sink of Container.v's writer run with the identity as block compressor "
                    "(null codec: sink lengths and bytes as they are); a sample of the histories again through sinks taking the file in pieces (lib/cont.py scheduled_runs: k bytes "
                    "per call, gathering or default write_vectored, k chosen against the blocks' header/data lengths, irregular sizes; 'interrupted' at call indexes of block "
                    "flushes -- first call, after partial progress, last, bursts up to 40, every call once / twice): every call's outcome and the sink after it = those on the "
                    "accept-everything sink (whose snapshots are the ones judged), and = the writer model under the same schedule (null codec); any snapshot that differs is read "
                    "back and parsed on its own; histories whose caller goes on after every call (finish_block retried, more values, into_inner / drop) under sinks that "
                    "refuse ONE write of a block flush (zero-length write or a hard error of some kind; first sink call of the flush, second, last, random) and then work again: "
                    "after a clean refusal (no byte of the block accepted) every later call that returns Ok leaves a valid file (reference parser + independent decoders + crate's "
                    "reader) holding a prefix of the values -- all of them after finish_block / into_inner / drop --, each block's data = the encodings of the values it announces; "
                    "writer model under the same schedule (null codec): every later call's outcome and the sink bytes",
            "samples": samples, "violations": violations, "model_diffs": diffs, "distribution": dict(dist)}
