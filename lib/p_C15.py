"""C15 -- container writer: valid file at every quiescent point; failed values leave none."""
import random
import common as C
import gen as G
import cont

MODEL_TARGETS = ["model/Container.vo", "spec/FileSpec.vo"]
COQ_TARGETS = ["props/C15.vo", "proofs/ConstsTie.vo"]
THEOREMS = [("C15", ["C15_fail", "C15_built", "C15_inv", "C15_accounting", "C15_accounting_any_sink", "C15_flush", "C15_nopanic", "C15_parses"])]
PROOF_FILES = ["proofs/ContainerProofs.v", "proofs/ContainerFinal.v", "proofs/SerContractProofs.v", "proofs/VectoredWriteProofs.v", "props/C15.v"]
TRUSTED_BASE = [
    "Coq 8.16.1 kernel; no axioms (Print Assumptions: closed); no native_compute",
    "extraction (ExtrOcamlBasic only) + ocaml/driver.ml (parsing/printing); Rust harness avrodrive",
    "hand-written model/Container.v of writer/mod.rs (wstate: buffer, count, pending block, sink, schedule, pools) tied by the correspondence run (null codec: per-call outcomes, sink lengths, bytes)",
    "spec/FileSpec.v reference parser (extracted) is the independent judge of every sink snapshot (null codec); the crate's own reader reads every snapshot for all codecs"
]
ASSUMPTIONS = [
    "compression libraries are outside the model: enc is an arbitrary function in the theorems; compressed snapshots are judged by reading them back with the crate's reader",
    "the two contracts of ser used by the accounting and no-panic theorems (ser only appends; ser has no writer panic site) are proved for the real ser in proofs/SerContractProofs.v",
    "push_serialized(bytes, n) with n >= 2^63 or with n = 0 and non-empty bytes is a caller error outside the property (ContainerProofs.finish_leaves_uncounted_bytes, count_above_i64_not_in_grammar)"
]

def run(ctx):
    rng = random.Random(ctx["seed"] * 1000003 + 15)
    n = 250 if ctx["tier"] == "quick" else 6000
    hs = []
    for _ in range(n):
        reorder = rng.random() < 0.5
        h = cont.History(rng, schema_kw={"max_nodes": rng.choice([3, 6, 10]), "max_depth": 3}) if reorder else cont.History(rng)
        h.prepare()
        ops, expected = cont.make_ops(rng, h, reorder=reorder)
        codec_sx = rng.choice(cont.CODECS) if rng.random() < 0.5 else "null"
        bsz = rng.choice([0, 1, 2, 5, 16, 64, 65536])
        h.reorder = reorder
        hs.append((h, ops, expected, codec_sx, bsz))
    # schema json as the crate reports it (input of the model's header)
    fr = C.run_parallel(C.AVRODRIVE, ["freeze " + h.schema for h, *_ in hs])
    jsons = [C.unhex(C.parse_sx(r)[0][2]) for r in fr]
    impl_lines = [cont.cw_line(h, c, b, "vec", [], ops) for (h, ops, ex, c, b) in hs]
    impl = C.run_parallel(C.AVRODRIVE, impl_lines)
    model_lines = [cont.cw_line(h, c, b, "vec", [], ops, with_json=j) for (h, ops, ex, c, b), j in zip(hs, jsons)]
    model = C.run_parallel(C.AVROMODEL, model_lines)
    violations, diffs, samples = [], [], []
    snap_lines, snap_meta = [], []
    nontrivial = set()
    for idx, ((h, ops, expected, c, b), li, ri, lm, rm) in enumerate(zip(hs, impl_lines, impl, model_lines, model)):
        pi = cont.parse_cw(ri)
        if pi is None or pi.get("build_err"):
            violations.append({"impl_case": li, "what": "writer could not be built or crashed", "impl": ri[:300]})
            continue
        if rm != "(unmodelled)":
            pm = cont.parse_cw(rm)
            same = pm and not pm.get("build_err") and pm["built"] == pi["built"] and pm["sink"] == pi["sink"] and \
                [(r if r in ("ok", "gone") else "err", l) for r, l in pi["ops"]] == [(r if r in ("ok", "gone") else "err", l) for r, l in pm["ops"]]
            if not same:
                diffs.append({"impl_case": li, "model_case": lm, "impl": ri[:600], "model": rm[:600]})
        # expectations per op
        exp_texts = [h.spec[i]["dany"] for i in expected]
        done = 0
        snaps = [("built", pi["built"], 0, False)]
        for (kind, _sx, *vals), (res, ln) in zip(ops, pi["ops"]):
            if kind == "fail":
                if res == "ok":
                    violations.append({"impl_case": li, "what": "a failing value was accepted"})
            elif kind in ("ser", "push"):
                if res != "ok":
                    violations.append({"impl_case": li, "what": "a conforming value was rejected: %s" % res})
                else:
                    done += 1
            if res == "ok":
                snaps.append((kind, ln, done, kind in ("finish", "into_inner", "drop")))
            elif kind in ("finish", "into_inner", "drop"):
                violations.append({"impl_case": li, "what": "%s failed on a well-behaved sink: %s" % (kind, res)})
        for kind, ln, done_k, flush in snaps:
            snap_lines.append("cr %s slice any 200" % C.hx(pi["sink"][:ln]))
            snap_meta.append((idx, kind, ln, done_k, flush, exp_texts))
        nontrivial.add((h.schema, tuple(o[0] for o in ops), c, b))
        if len(samples) < 4:
            samples.append({"schema": h.schema[:200], "codec": c, "approx_block_size": b, "ops": [o[0] for o in ops]})
    snaps = C.run_parallel(C.AVRODRIVE, snap_lines)
    null_parse_lines, null_parse_meta = [], []
    for line, res, (idx, kind, ln, done_k, flush, exp_texts) in zip(snap_lines, snaps, snap_meta):
        pr = cont.parse_cr(res)
        li = impl_lines[idx]
        if pr.get("open_err") or "items" not in pr:
            violations.append({"impl_case": li, "what": "sink contents after '%s' (first %d bytes) are not a readable file" % (kind, ln),
                               "reader": res[:300], "snapshot_case": line[:2000]})
            continue
        ok, k, why = cont.values_prefix_then_eof(pr["items"], exp_texts[:done_k], flush)
        if not ok:
            violations.append({"impl_case": li, "what": "after '%s' (%d bytes, %d values written): %s" % (kind, ln, done_k, why),
                               "snapshot_case": line[:2000]})
        if hs[idx][3] == "null":
            null_parse_lines.append("fileparse " + line.split()[1])
            null_parse_meta.append((idx, kind, ln, done_k, flush))
    # independent parse of the null-codec snapshots by the extracted reference parser
    for res, (idx, kind, ln, done_k, flush) in zip(C.run_parallel(C.AVROMODEL, null_parse_lines), null_parse_meta):
        h, ops, expected, c, b = hs[idx]
        p = C.parse_sx(res)[0]
        if p[0] != "ok":
            violations.append({"impl_case": impl_lines[idx], "what": "reference parser rejects the sink contents after '%s'" % kind})
            continue
        blocks = p[3:]
        cnt = sum(int(bk[1]) for bk in blocks)
        data = b"".join(C.unhex(bk[2]) for bk in blocks)
        want = b"".join(C.unhex(h.spec[i]["canon"]) for i in expected[:cnt])
        if h.reorder:
            want = data      # random presentations may choose other (equally valid) block layouts for arrays / maps: bytes judged by the reader above
        if cnt > done_k or data != want or (flush and cnt != done_k) or any(int(bk[1]) <= 0 for bk in blocks):
            violations.append({"impl_case": impl_lines[idx], "what": "block contents after '%s' are not the encodings of the first %d values" % (kind, cnt)})
    return {"evaluations": len(impl_lines) + len(snap_lines), "distinct_nontrivial": len(nontrivial),
            "rule": "histories over {serialize ok, serialize failing at some depth, push pre-serialized, finish_block, into_inner, drop} x "
                    "approx_block_size {0,1,2,5,16,64,65536} x codecs; after every call that returned Ok the sink snapshot is read back by the crate's "
                    "reader (must yield a prefix of the written values, all of them after a flush point, then end of stream) and, for the null codec, "
                    "parsed by the extracted reference parser (block counts and bytes must be the encodings of a prefix); model vs crate: per-call "
                    "outcomes, sink lengths and final bytes (null codec)",
            "samples": samples, "violations": violations, "model_diffs": diffs}
