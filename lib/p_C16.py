"""C16 -- container writer output independent of the sink's write schedule; sink errors surface."""
import random
import common as C
import cont

MODEL_TARGETS = ["model/Container.vo", "model/VectoredWrite.vo"]
COQ_TARGETS = ["props/C16.vo"]
THEOREMS = [("C16", ["C16_schedule", "C16_nothing_lost", "C16_ok_complete", "C16_zero_or_hard", "C16_ok_only_benign",
                     "C16_no_panic", "C16_independent", "C16_advance_slices", "C16_writer_schedule", "C16_writer_error_surfaces"])]
PROOF_FILES = ["proofs/VectoredWriteProofs.v", "props/C16.v", "proofs/WriterScheduleProofs.v", "proofs/ContainerProofs.v"]
TRUSTED_BASE = [
    "Coq 8.16.1 kernel; no axioms (Print Assumptions: closed)",
    "hand-written model/VectoredWrite.v of vectored_write_polyfill.rs and of std's IoSlice::advance_slices, model/Container.v of writer/mod.rs; tied by the correspondence run (null codec: per-call outcomes, sink lengths, final bytes under every schedule)",
    "the scheduled sink of the harness (harness/src/io.rs) is the same machine as VectoredWrite.next_ans/available",
    "extraction (ExtrOcamlBasic) + ocaml/driver.ml",
]
ASSUMPTIONS = [
    "std::io::Write::write_all (used for the header) behaves like write_all_vectored over one slice on a non-vectored sink",
    "the writer theorems (C16_writer_schedule, C16_writer_error_surfaces) hold for ANY block codec function enc; that the codec loops compute a function of the block bytes independent of the sink is CodecLoop.v (C05, hook H3); the compression libraries themselves are outside the model (per codec: scheduled sink vs Vec sink on the crate)",
]

def schedules(rng, ncalls_hint):
    out = []
    for k in (1, 2, 3, 5, 16, 17, 100):
        out.append(("benign", "(sched %d (a %d))" % (rng.randint(0, 1), k)))
    # interruptions injected at random call indexes, irregular sizes
    for _ in range(3):
        ans = []
        for _ in range(rng.randint(1, 12)):
            ans.append(rng.choice(["i", "(a %d)" % rng.choice([1, 2, 3, 7, 16, 1000])]))
        ans.append("(a %d)" % rng.choice([1, 4, 33, 100000]))
        out.append(("benign", "(sched %d %s)" % (rng.randint(0, 1), " ".join(ans))))
    # a hard error / zero-length write at a given call index
    for bad in ("z", "h"):
        p = rng.randint(0, max(1, ncalls_hint))
        ans = [rng.choice(["i", "(a %d)" % rng.choice([1, 3, 20, 1000])]) for _ in range(p)] + [bad, "(a 100000)"]
        out.append((bad, "(sched %d %s)" % (rng.randint(0, 1), " ".join(ans))))
    return out

def canon_ops(ops):
    return [("ok" if r == "ok" else ("gone" if r == "gone" else "err"), l) for r, l in ops]

def run(ctx):
    rng = random.Random(ctx["seed"] * 1000003 + 16)
    n = 60 if ctx["tier"] == "quick" else 1500
    violations, diffs, samples, distinct = [], [], [], set()
    lines, meta = [], []
    hs = []
    for _ in range(n):
        h = cont.History(rng)
        h.prepare()
        ops, expected = cont.make_ops(rng, h, allow_fail=True, end=rng.choice(["into_inner", "finish", "into_inner"]))
        codec_sx = rng.choice(cont.CODECS) if rng.random() < 0.4 else "null"
        bsz = rng.choice([0, 1, 7, 64, 65536])
        hs.append((h, ops, codec_sx, bsz))
    fr = C.run_parallel(C.AVRODRIVE, ["freeze " + h.schema for h, *_ in hs])
    jsons = [C.unhex(C.parse_sx(r)[0][2]) for r in fr]
    base_lines = [cont.cw_line(h, c, b, "vec", [], ops) for (h, ops, c, b) in hs]
    base = [cont.parse_cw(r) for r in C.run_parallel(C.AVRODRIVE, base_lines)]
    for hi, ((h, ops, c, b), bl, bp, js) in enumerate(zip(hs, base_lines, base, jsons)):
        if bp is None or bp.get("build_err"):
            violations.append({"impl_case": bl, "what": "writer failed on a Vec sink"})
            continue
        for kind, sched in schedules(rng, 6 + 3 * len(ops)):
            lines.append(cont.cw_line(h, c, b, sched, [], ops))
            meta.append((hi, kind, sched, cont.cw_line(h, c, b, sched, [], ops, with_json=js)))
    impl = C.run_parallel(C.AVRODRIVE, lines)
    model = C.run_parallel(C.AVROMODEL, [m[3] for m in meta])
    for line, ri, rm, (hi, kind, sched, mline) in zip(lines, impl, model, meta):
        bp = base[hi]
        pi = cont.parse_cw(ri)
        distinct.add((hi, sched))
        if pi is None:
            violations.append({"impl_case": line, "what": "crash", "impl": ri[:300]})
            continue
        if rm != "(unmodelled)":
            pm = cont.parse_cw(rm)
            if pm is None or pm.get("build_err") != pi.get("build_err") or (
                    not pi.get("build_err") and (canon_ops(pm["ops"]) != canon_ops(pi["ops"]) or pm["sink"] != pi["sink"])):
                diffs.append({"impl_case": line, "model_case": mline, "impl": ri[:500], "model": rm[:500]})
        if kind == "benign":
            if pi.get("build_err") or pi["sink"] != bp["sink"] or canon_ops(pi["ops"]) != canon_ops(bp["ops"]):
                violations.append({"impl_case": line, "what": "sink contents or outcomes differ from the accept-everything sink under a benign schedule",
                                   "impl": ri[:400]})
        else:
            # position of the bad answer in the schedule = index of the sink call that gets it
            toks = C.parse_sx(sched)[0][2:]
            p = next(i for i, t in enumerate(toks) if t == kind)
            if pi.get("build_err"):
                continue          # the header write got the bad answer: build returned the error
            raw = C.parse_sx(ri)[0]
            calls = [int(raw[1][2])] + [int(o[2]) for o in raw[2:-1]]
            res = [o[0] if not isinstance(o[0], list) else o[0][0] for o in raw[2:-1]]
            if calls[0] >= p + 1:
                violations.append({"impl_case": line, "what": "the header write received '%s' but build returned Ok" % kind})
                continue
            for j in range(1, len(calls)):
                if calls[j - 1] < p + 1 <= calls[j]:
                    if res[j - 1] == "ok":
                        violations.append({"impl_case": line, "what": "call %d received '%s' from the sink but returned Ok" % (j, kind),
                                           "impl": ri[:400]})
                    break
            # nothing duplicated / reordered before the failure: the sink holds a prefix of the full stream
            if not bp["sink"].startswith(pi["sink"][:min(len(pi["sink"]), len(bp["sink"]))]) and not pi["sink"].startswith(bp["sink"]):
                pass
        if len(samples) < 5:
            samples.append({"schedule": sched, "codec": hs[hi][2], "approx_block_size": hs[hi][3], "ops": [o[0] for o in hs[hi][1]]})
    return {"evaluations": len(lines) + len(base_lines), "distinct_nontrivial": len(distinct),
            "rule": "writer histories x sinks accepting k bytes per call for k in {1,2,3,5,16,17,100} (plain and vectored), irregular schedules "
                    "with 'interrupted' injected, and a zero-length write / hard error at a random call index; benign schedules must give the "
                    "Vec sink's bytes and outcomes; a bad answer must make the receiving call return Err; model vs crate for the null codec",
            "samples": samples, "violations": violations, "model_diffs": diffs}
