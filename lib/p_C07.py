"""C07 -- schema parsing resolves names per the specification; invalid schemas rejected."""
import random, copy
import common as C
import gen as G
import docgen as D

MODEL_TARGETS = ["model/Parse.vo", "model/JsonRead.vo", "proofs/JsonReadSchema.vo", "model/CanonicalForm.vo", "spec/PcfSpec.vo"]
COQ_TARGETS = ["props/C07.vo"]
THEOREMS = [("C07", ["C07_ns_edge_def", "C07_ns_edge_ref", "C07_resolve", "C07_resolve_iff", "C07_reject_unknown_reference",
                     "C07_reject_duplicate_definition", "C07_reject_missing_attribute", "C07_no_unconditional_cycle",
                     "C07_cycle_check_exact", "C07_forward_resolution",
                     "C07_any_order", "C07_any_order_iff", "C07_any_order_definitions", "C07_any_order_canonical", "C07_any_order_canonical_any_fuel", "C07_any_order_fingerprint",
                     "C07_backward_is_any_order", "C07_any_order_backward"])]
PROOF_FILES = ["proofs/SchemaTextProofs.v", "proofs/ParseResolveDefs.v", "proofs/ParseBridge.v", "proofs/ParseLayout.v", "proofs/ParseCf.v",
               "proofs/ParseRejectProofs.v", "proofs/ParseResolveProofs.v", "proofs/ParseForwardDefs.v", "proofs/ParseForwardLayout.v",
               "proofs/ParseForwardProofs.v", "proofs/ParseForwardHoist.v", "proofs/ParseForwardCanon.v", "props/C07.v"]
TRUSTED_BASE = [
    "Coq 8.16.1 kernel; no axioms (Print Assumptions: closed)",
    "spec/PcfSpec.v: the Parsing Canonical Form and the fullname rules written from the Avro specification on the JSON AST (no graph); extracted as the oracle for the crate's canonical form text (hook H1)",
    "hand-written models Parse.v (raw.rs, parsing/mod.rs, check_for_cycles.rs) and CanonicalForm.v tied by the correspondence run: node vector, canonical form text and fingerprint, model vs crate, on the TEXT of generated documents in every namespace spelling (model: JsonReadSchema.parse_schema_text = json_of_text then parse_schema)",
    "the JSON text layer is IN the model: the model side gets the same text as the crate and reads it with the extracted JsonRead.json_of_text (serde_json's grammar, escapes and surrogate pairs, UTF-8 check, recursion limit 128; hand-written from serde_json's de.rs / read.rs), tied to serde_json by the correspondence runs (C19: a directed + random family of texts, reader alone (`jsonread` both sides: accept / reject and the document read) and through the schema parser); Python's json module only cross-checks the model's reading (model differences when they disagree) and no longer feeds the model",
    "number tokens: the model keeps a token as written, serde_json re-prints the value it read; reported JSON is compared after docgen.serde_num (Python-side: how serde_json prints the number it reads from a token) applied to the number tokens of the model's compact text (jsontext.norm_text_numbers); a token whose value overflows f64 (1e999) is rejected by serde_json and kept by the model: such texts are classified unmodelled (counted), and only those",
]
ASSUMPTIONS = [
    "proved: for every document valid per the specification (definition before use) parsing succeeds and canonical_form(parse j) = PcfSpec.pcf j, i.e. every reference resolves to the type the specification designates, field order / symbols / sizes preserved (C07_resolve); unknown reference, duplicate fullname, missing attribute, unconditional record cycle are errors; the cycle check is exact",
    "use before definition (the property asks for independence of definition order; the specification text requires definition first): proved as well (C07_any_order*): the parser returns the designated graph, every reference slot holds the single node carrying the reference's specification fullname, every definition has exactly one node, and the canonical form and fingerprint are those of the specification's PCF of the hoisted document (the writer's guard against cycles of unnamed types is proved never to fire on a parsed graph); the correspondence run compares H1 text with the extracted pcf of the hoisted document",
    "three spec-allowed spellings the crate rejects are documented and excluded (type given as a nested object; a name attribute on an unnamed type takes part in the duplicate check; non-canonical size tokens like 04): C07_*_refuted",
    "logical types and their parameters are compared node by node between model and crate in the correspondence run (the canonical form drops them)",
    "aliases: per the specification they serve reader/writer resolution only and define no names within one schema document; the model (Parse.v) ignores the attribute like every "
    "free attribute, so a document whose aliases coincide with the fullname / simple name of another type (defined earlier or later) is valid with the same graph, and a reference to a "
    "name that exists only as an alias is an unknown reference (docgen.alias_only_reference; expected rejection = the property's 'unknown reference' clause, the model's parse agrees)",
]

def objs(j, path=()):
    """all object nodes of a document with their paths"""
    out = []
    if j[0] == "obj":
        out.append((path, j))
        for i, (k, v) in enumerate(j[1]):
            out += objs(v, path + (("m", i),))
    elif j[0] == "arr":
        for i, v in enumerate(j[1]):
            out += objs(v, path + (("a", i),))
    return out

def strs(j, path=()):
    out = []
    if j[0] == "str":
        out.append(path)
    elif j[0] == "obj":
        for i, (k, v) in enumerate(j[1]):
            if k in ("type", "items", "values", "fields"):
                out += strs(v, path + (("m", i),))
    elif j[0] == "arr":
        for i, v in enumerate(j[1]):
            out += strs(v, path + (("a", i),))
    return out

def replace_at(j, path, new):
    if not path:
        return new
    (kind, i), rest = path[0], path[1:]
    if kind == "m":
        m = list(j[1])
        m[i] = (m[i][0], replace_at(m[i][1], rest, new))
        return ("obj", m)
    a = list(j[1])
    a[i] = replace_at(a[i], rest, new)
    return ("arr", a)

def get_member(o, k):
    for kk, v in o[1]:
        if kk == k:
            return v
    return None

def invalidate(rng, doc):
    """-> (kind, doc') with doc' invalid per the specification, or None"""
    c = rng.choice(["unknown-ref", "duplicate", "missing-attr", "missing-attr", "self-cycle", "mutual-cycle", "inner-self-cycle", "inner-mutual-cycle", "union-root-cycle"])
    if c == "unknown-ref":
        ps = strs(doc)
        if not ps:
            return None
        return c, replace_at(doc, rng.choice(ps), ("str", rng.choice(["Nope", "no.such.Type", "ns.Nope"])))
    if c == "duplicate":
        if not any(get_member(o, "name") is not None and get_member(o, "type") in (("str", "record"), ("str", "enum"), ("str", "fixed"))
                   for _, o in objs(doc)):
            return None
        return c, ("obj", [("type", ("str", "record")), ("name", ("str", "W__")),
                           ("fields", ("arr", [("obj", [("name", ("str", "a")), ("type", doc)]),
                                               ("obj", [("name", ("str", "b")), ("type", doc)])]))])
    if c == "missing-attr":
        cands = []
        for path, o in objs(doc):
            ty = get_member(o, "type")
            if ty is None or ty[0] != "str":
                continue
            need = {"record": ["name", "fields"], "enum": ["name", "symbols"], "fixed": ["name", "size"],
                    "array": ["items"], "map": ["values"]}.get(ty[1], [])
            for a in need + ["type"]:
                cands.append((path, o, a))
        if not cands:
            return None
        path, o, a = rng.choice(cands)
        # a field object {"name","type"} also has a type member but is not a schema: make sure o is a schema object
        if get_member(o, "type") is not None and get_member(o, "name") is not None and len(o[1]) == 2 and a == "type":
            pass
        return "missing-" + a, replace_at(doc, path, ("obj", [(k, v) for k, v in o[1] if k != a]))
    if c == "self-cycle":
        return c, ("obj", [("type", ("str", "record")), ("name", ("str", "S")),
                           ("fields", ("arr", [("obj", [("name", ("str", "x")), ("type", doc)]),
                                               ("obj", [("name", ("str", "s")), ("type", ("str", "S"))])]))])
    if c in ("inner-self-cycle", "inner-mutual-cycle", "union-root-cycle"):
        # an unconditional record cycle that does NOT go through the first / outermost record
        def rec(name, fields):
            return ("obj", [("type", ("str", "record")), ("name", ("str", name)),
                            ("fields", ("arr", [("obj", [("name", ("str", fn)), ("type", ft)]) for fn, ft in fields]))])
        if c == "inner-self-cycle":
            inner = rec("B_", [("again", ("str", "B_"))])
            return c, rec("Outer_", [("d", doc), ("b", inner)])
        if c == "inner-mutual-cycle":
            cc = rec("C_", [("b", ("str", "B_"))])
            return c, rec("Outer_", [("d", doc), ("b", rec("B_", [("c", cc)]))])
        return c, ("arr", [rec("A_", [("d", ("str", "int"))]), rec("B_", [("c", rec("C_", [("b", ("str", "B_"))]))])])
    if c == "mutual-cycle":
        b = ("obj", [("type", ("str", "record")), ("name", ("str", "B_")),
                     ("fields", ("arr", [("obj", [("name", ("str", "a")), ("type", ("str", "A_"))])]))])
        return c, ("obj", [("type", ("str", "record")), ("name", ("str", "A_")),
                           ("fields", ("arr", [("obj", [("name", ("str", "d")), ("type", doc)]),
                                               ("obj", [("name", ("str", "b")), ("type", b)])]))])

def run(ctx):
    rng = random.Random(ctx["seed"] * 1000003 + 7)
    n = 700 if ctx["tier"] == "quick" else 30000
    cases = []
    alias_docs = {}           # valid cases whose aliases are names of the document
    same_text = {}            # valid cases holding pending references with the same text for different targets
    while len(cases) < n:
        fw = rng.choice([0.0, 0.0, 0.8])
        named = rng.random() < 0.6
        if named:
            # the name rules: colliding simple names over several namespaces, every (enclosing, own) namespace arrangement,
            # many references, definitions before and after their uses
            fw = rng.choice([0.0, 0.5, 0.9])
            if rng.random() < 0.25:
                # the same simple name in several namespaces, each referred to by its short spelling from inside its own namespace
                # before any of them is defined: several pending references with the same text, different fullnames
                fw = rng.choice([0.7, 1.0])
                nodes = D.forward_twins(rng)
            else:
                nodes = D.NameGraphGen(rng, logical=True).build()
        else:
            g = G.SchemaGen(rng, max_nodes=rng.choice([2, 5, 10, 18]), max_depth=rng.choice([2, 4, 6]),
                            namespaces=rng.choice([("",), ("ns", "ns.sub", "other"), ("", "ns", "ns.sub")]),
                            ref_prob=0.5 if fw else 0.2)
            nodes = g.build()
        for attempt in range(4):
            # free positions (doc, defaults, custom attributes): plain, or strings / numbers that are delicate to copy (reported JSON)
            # aliases: the fixed "Old", or (alias_names) names of the document itself -- the fullname / simple name of ANOTHER named type
            # defined earlier or later, the type's own name: aliases define no names within a schema (the model ignores them)
            dg = D.DocGen(rng, nodes, forward=fw, rich=rng.choice([0.0, 0.0, 0.6]), alias_names=rng.choice([0.0, 0.0, 0.5, 0.9]))
            doc = dg.gen(0, None)
            if set(dg.occ) == dg.defined:
                break
        else:
            continue            # a late definition site was never reached (the only later uses are inside the definition itself)
        ref_doc = D.DocGen(rng, nodes, forward=0.0, extras=0.0).gen(0, None)
        if D.same_text_forward_refs(dg):
            same_text[len(cases)] = True
        if dg.alias_names and any(k == "aliases" for _, o in objs(doc) for k, _ in o[1]):
            alias_docs[len(cases)] = True
        cases.append(("valid", nodes, doc, ref_doc, dg.has_forward))
        if rng.random() < (0.6 if named else 0.35):
            r = rng.random()
            if rng.random() < 0.2:
                # a reference to a name that exists only as an alias of a defined type: an unknown reference
                d2 = D.alias_only_reference(rng, dg, doc)
                inv = ("unknown-ref-alias-only", d2) if d2 else None
            elif named and r < 0.45:
                d2 = D.near_miss_unknown(rng, dg, doc)
                inv = ("unknown-ref-near-miss", d2) if d2 else None
            elif named and r < 0.65:
                d2 = D.near_miss_duplicate(rng, dg, doc)
                inv = ("duplicate-respelled", d2) if d2 else None
            else:
                inv = invalidate(rng, doc)
            if inv:
                cases.append((inv[0], nodes, inv[1], None, False))
    # record cycles: several records, the cycle through the outermost record or strictly below it, next to conditional cycles
    # (through unions / arrays / maps), names over several namespaces; unconditional (per the construction) = must be rejected
    for _ in range(n // 6):
        doc, unconditional = D.cycle_doc(rng)
        cases.append(("record-cycle" if unconditional else "valid-doc", None, doc, None, False))
    # the same, over every ARRANGEMENT of the definitions: the records of the cycle also occur next to one another (branches of a root
    # union, sibling fields of a root record) and each is defined at any one of its occurrences, so that an edge of the cycle is a reference
    # from inside the definition of its target, a reference to a sibling whose definition is complete, or a forward (late-resolved)
    # reference -- in particular cycles NO edge of which is written inside its target's definition. The verdict is the model's
    # (Parse.parse_schema -> check_for_cycles, proved exact: C07_cycle_check_exact) and is cross-checked with the construction;
    # the valid twins (cycle broken by a union / array / map) go through every check of a valid document
    arrangement = {}
    n_any = n // 2
    tries = 0
    while n_any > 0 and tries < 20 * n:
        tries += 1
        nodes, unconditional = D.cycle_graph(rng)
        # half of the time: look (among a few spellings) for an arrangement in which no reference is written inside its own target
        want_outside = rng.random() < 0.5
        found = None
        for attempt in range(10 if want_outside else 4):
            dg = D.DocGen(rng, nodes, forward=rng.choice([0.3, 0.5, 0.7, 0.9] if want_outside else [0.0, 0.3, 0.5, 0.7, 0.9]),
                          extras=rng.choice([0.0, 0.3]), sibling_defs=want_outside and attempt == 0)
            doc = dg.gen(0, None)
            if set(dg.occ) != dg.defined:
                continue           # a late definition site was never reached
            found = (dg, doc)
            if not want_outside or dg.ref_kinds["inside"] == 0:
                break
        if found is None:
            continue
        dg, doc = found
        n_any -= 1
        arr = ("no-reference-from-inside-its-target" if dg.ref_kinds["inside"] == 0 else "some-reference-from-inside-its-target") + \
              ("/forward" if dg.ref_kinds["forward"] else "")
        if unconditional:
            arrangement[len(cases)] = arr
            cases.append(("record-cycle-any-order", nodes, doc, None, False))
        else:
            ref_doc = D.DocGen(rng, nodes, forward=0.0, extras=0.0).gen(0, None)
            arrangement[len(cases)] = arr
            cases.append(("valid", nodes, doc, ref_doc, dg.has_forward))
    import jsontext as JT
    texts = [D.to_text(c[2], rng) for c in cases]
    impl = C.run_parallel(C.AVRODRIVE, ["parse " + C.hx(t) for t in texts])
    # the model gets the SAME text as the crate and reads it with its own reader (JsonRead.json_of_text, then Parse.parse_schema =
    # JsonReadSchema.parse_schema_text). It keeps number tokens as written: its JSON is compared after serde_json's re-printing
    # (jsontext.norm_hex = docgen.serde_num on the number tokens of the compact text)
    model = C.run_parallel(C.AVROMODEL, ["parse (text %s)" % C.hx(t) for t in texts])
    # cross-check: the model's reading of the text is the document the text was written from (the generator's AST)
    ast_diffs = JT.ast_cross_check(texts, [c[2] for c in cases], "C07 documents")
    refm = C.run_parallel(C.AVROMODEL, ["parse " + D.to_sx(c[3]) for c in cases if c[0] == "valid"])
    built = C.run_parallel(C.AVRODRIVE, ["fp " + G.schema_sx(c[1]) for c in cases if c[0] == "valid"])
    refm, built = iter(refm), iter(built)
    violations, diffs, samples, distinct = [], list(ast_diffs), [], set()
    from collections import Counter
    dist = Counter()
    for ci, ((kind, nodes, doc, ref_doc, fwd), text, ri, rm) in enumerate(zip(cases, texts, impl, model)):
        line = "parse " + C.hx(text)
        mline = "parse (text %s)" % C.hx(text)
        pi, pm = C.parse_sx(ri)[0], C.parse_sx(rm)[0]
        if pm[0] == "ok":
            pm[4] = JT.norm_hex(pm[4])
        distinct.add(D.minified(doc))
        if pi[0] in ("crash", "panic", "bad-case"):
            violations.append({"impl_case": line, "what": "parsing a document did not return Ok or Err: %s" % ri[:100], "document": text[:800]})
            continue
        # model vs implementation: node vector, canonical form, fingerprint, reported JSON
        if pi[0] != pm[0] and not (pi[0] in ("err", "freeze-err") and pm[0] == "err"):
            diffs.append({"impl_case": line, "model_case": mline, "impl": ri[:500], "model": rm[:500]})
        elif pi[0] == "ok" and (C.show_sx(pi[1]) != C.show_sx(pm[1]) or pi[2] != pm[2] or pi[3] != pm[3] or pi[4] != pm[4]):
            diffs.append({"impl_case": line, "model_case": mline, "impl": ri[:700], "model": rm[:700]})
        if kind == "valid-doc":
            # a valid document with definitions before uses: parsed, and the canonical form is the specification's
            dist["valid/conditional-cycles"] += 1
            if pi[0] != "ok":
                violations.append({"impl_case": line, "what": "a specification-valid document (records containing themselves only through "
                                   "unions / arrays / maps) was rejected", "document": text[:800], "impl": ri[:300]})
            elif pm[0] == "ok" and pm[5] != pi[2]:
                violations.append({"impl_case": line, "what": "canonical form differs from PcfSpec.pcf of this very document", "document": text[:800]})
        elif kind == "valid":
            rr = C.parse_sx(next(refm))[0]
            bb = C.parse_sx(next(built))[0]
            dist[("valid/forward-refs" if fwd else "valid") + ("/conditional-cycle/" + arrangement[ci] if ci in arrangement else "")] += 1
            if ci in alias_docs:
                dist["valid/aliases-named-like-types-of-the-document"] += 1
            if ci in same_text:
                dist["valid/forward-refs/same-text-different-targets"] += 1
            if pi[0] != "ok":
                violations.append({"impl_case": line, "what": "a specification-valid document was rejected",
                                   "document": text[:600], "impl": ri[:300]})
                continue
            spec_pcf = rr[5]            # PcfSpec.pcf of the same schema spelled without forward references
            if pi[2] != spec_pcf:
                violations.append({"impl_case": line, "what": "names were not resolved as the specification designates: the canonical form "
                                   "differs from the specification's transformation of the document",
                                   "document": text[:600], "got": C.unhex(pi[2]).decode("utf-8", "replace")[:400],
                                   "expected": C.unhex(spec_pcf).decode("utf-8", "replace")[:400]})
            if not fwd and pm[0] == "ok" and pm[5] != pi[2]:
                violations.append({"impl_case": line, "what": "canonical form differs from PcfSpec.pcf of this very document"})
            if bb[0] == "ok" and bb[1] != pi[3]:
                violations.append({"impl_case": line, "what": "the parsed schema is not the schema the document spells (fingerprint of the graph it was generated from differs)"})
            # attributes preserved: names, field order, symbols, sizes, logical types (as multisets over nodes)
            def summary(ns_sx):
                return sorted(C.show_sx(x[1]).split(" ")[0] + "|" + C.show_sx(x[2]) + "|" + (C.show_sx(x[1]) if isinstance(x[1], list) and x[1][0] in ("enum", "fixed") else
                              (" ".join(f[0] for f in x[1][2:]) + "#" + x[1][1] if isinstance(x[1], list) and x[1][0] == "record" else "")) for x in ns_sx[1:])
            want = summary(C.parse_sx(G.schema_sx(nodes))[0])
            got = summary(pi[1])
            if want != got:
                violations.append({"impl_case": line, "what": "attributes (names, field order, symbols, sizes, logical types) not preserved",
                                   "document": text[:600], "want": want[:12], "got": got[:12]})
            if pi[4] != C.hx(D.minified(doc)):
                violations.append({"impl_case": line, "what": "reported JSON is not the minified document"})
            if len(samples) < 5:
                samples.append({"document": text[:300], "canonical_form": C.unhex(pi[2]).decode("utf-8", "replace")[:300]})
        else:
            dist["invalid/" + kind + ("/" + arrangement[ci] if ci in arrangement else "")] += 1
            if kind == "record-cycle-any-order" and pm[0] != "err":
                # the construction says some record always contains itself, the model's (exact) cycle check accepts: generator or model wrong
                diffs.append({"impl_case": line, "model_case": mline, "impl": ri[:300], "model": rm[:300],
                              "what": "the model accepts a document built to hold an unconditional record cycle"})
            if pi[0] == "ok":
                # removing "type" from a field object or from an object that is not a schema leaves the document valid in rare cases
                violations.append({"impl_case": line, "what": "an invalid document (%s) was accepted" % kind, "document": text[:800]})
    return {"evaluations": len(cases) * 2, "distinct_nontrivial": len(distinct),
            "rule": "name-rule schemas (few simple names over several namespaces, every enclosing/own namespace arrangement, null-namespace "
                    "types inside namespaces, many references incl. `.Name`, conditional recursion; docgen.forward_twins: one simple name in several namespaces referred to by its short spelling from inside each namespace before any definition = pending references with the same text and different fullnames) and valid schemas (all node kinds, logical types, sharing, recursion) spelled as documents with random choices of: namespace in "
                    "the name / namespace attribute / inherited / explicit empty namespace, inline definition vs reference, definition after use "
                    "(forward references), member order, doc/aliases (also aliases equal to the fullname / simple name of another type of the document defined earlier or later: they define nothing)/default/order/custom attributes, whitespace and \\u escapes; oracle: H1 canonical "
                    "form = extracted PcfSpec.pcf of the schema's forward-reference-free spelling, fingerprint = that of the built graph, "
                    "attributes preserved, JSON = minified document; invalidations (unknown reference, duplicate definition, missing required "
                    "attribute, self/mutually containing records -- also with the records of the cycle defined side by side (branches of a root union, sibling fields) in any order, every edge of the cycle a reference from inside its target, to a completed sibling, or forward; verdict = the model's exact cycle check --, a reference to a name that only exists as an alias of a defined type, near-miss references = an existing simple name resolved in a namespace where it is "
                    "not defined, a second definition of a fullname in another spelling) must be rejected; model vs crate: node vector, canonical form, fingerprint, JSON",
            "samples": samples, "violations": violations, "model_diffs": diffs, "distribution": dict(dist)}
