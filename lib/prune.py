"""Targets that ignore parts of the data (C03, C12): from the typed target of a schema (Denote.typed_target, as printed by the
extracted specification) derive a target that leaves record fields out, replaces sub-targets by `ignored` (serde's IgnoredAny)
and takes union branches as unit variants; and project the value the specification defines for the full typed target
(Denote.dval_typed) onto what such a target is handed.  The projection only DELETES / REPLACES sub-terms of the specification's
answer (dropped field -> absent, ignored part -> `ignored`, unit variant -> `unit`): every remaining sub-term is the
specification's."""
import common as C

DROP = "#drop"

def mark(rng, t, p_drop=0.3, p_ign=0.15, p_unit=0.3, top=True):
    """a marked copy of the parsed target tree t: struct fields become [DROP, name] / [name, 'ignored'], union branches
    (newtype variants) become unit variants, sequence items / map values / option payloads may become 'ignored'"""
    if not isinstance(t, list) or not t:
        return t
    h = t[0]
    sub = lambda x: "ignored" if rng.random() < p_ign else mark(rng, x, p_drop, p_ign, p_unit, False)
    if h == "struct":
        out = ["struct", t[1]]
        for f in t[2:]:
            r = rng.random()
            if r < p_drop:
                out.append([DROP, f[0]])
            elif r < p_drop + p_ign:
                out.append([f[0], "ignored"])
            else:
                out.append([f[0], mark(rng, f[1], p_drop, p_ign, p_unit, False)])
        return out
    if h == "seq":
        return ["seq", sub(t[1])]
    if h == "map":
        return ["map", t[1], sub(t[2])]
    if h == "option":
        return ["option", sub(t[1])]
    if h == "enum":
        out = ["enum", t[1]]
        for v in t[2:]:
            if v[0] == "newtype":
                if rng.random() < p_unit:
                    out.append(["unit", v[1]])
                else:
                    out.append(["newtype", v[1], sub(v[2])])
            else:
                out.append(v)
        return out
    return t

def strip(t):
    """the real target of a marked one"""
    if not isinstance(t, list):
        return t
    if t and t[0] == "struct":
        return ["struct", t[1]] + [[f[0], strip(f[1])] for f in t[2:] if f[0] != DROP]
    return [strip(x) for x in t]

def count_marks(t):
    """(dropped fields, ignored parts, unit variants taken for newtype ones is not countable here)"""
    if not isinstance(t, list):
        return (0, 1 if t == "ignored" else 0)
    d = i = 0
    for x in t:
        if isinstance(x, list) and x and x[0] == DROP:
            d += 1
        else:
            a, b = count_marks(x)
            d += a
            i += b
    return (d, i)

def project(t, d):
    """what the marked target t is handed when the full typed target is handed d"""
    if t == "ignored":
        return "ignored"
    if not isinstance(t, list) or not t or not isinstance(d, list) or not d:
        return d
    h = t[0]
    if h == "struct" and d[0] == "struct":
        fs = {}
        for f in t[2:]:
            if f[0] == DROP:
                fs[f[1]] = None
            else:
                fs[f[0]] = f
        out = ["struct"]
        for kv in d[1:]:
            f = fs.get(kv[0], False)
            if f is None:
                continue
            out.append([kv[0], project(f[1], kv[1]) if f else kv[1]])
        return out
    if h == "seq" and d[0] == "seq":
        return ["seq"] + [project(t[1], x) for x in d[1:]]
    if h == "map" and d[0] == "map":
        return ["map"] + [[kv[0], project(t[2], kv[1])] for kv in d[1:]]
    if h == "option":
        if d[0] == "some":
            return ["some", project(t[1], d[1])]
        return d
    if h == "enum" and d[0] == "enum":
        for v in t[2:]:
            if v[1] == d[1]:
                if v[0] == "unit":
                    return ["enum", d[1], "unit"]
                if v[0] == "newtype":
                    return ["enum", d[1], project(v[2], d[2])]
        return d
    return d

def pruned(rng, ttarget_text, dtyped_text, **kw):
    """-> (target text, expected value text, (dropped, ignored)) or None when nothing could be pruned"""
    t = C.parse_sx(ttarget_text)[0]
    d = C.parse_sx(dtyped_text)[0]
    for _ in range(4):
        m = mark(rng, t, **kw)
        if m != t:
            return C.show_sx(strip(m)), C.show_sx(project(m, d)), count_marks(m)
    return None
