"""C18 -- single-object encoding: marker + schema fingerprint + datum, verified on read."""
import random
import common as C
import gen as G
import codec

MODEL_TARGETS = ["model/SingleObject.vo", "model/CanonicalForm.vo"]
COQ_TARGETS = ["props/C18.vo", "proofs/ConstsTie.vo", "proofs/SingleObjectSinkProofs.vo"]
THEOREMS = [("C18", ["C18_enc", "C18_dec", "C18_mismatch", "C18_short", "C18_roundtrip", "C18_slice_reader", "C18_sink_schedule_independent", "C18_sink_any_schedule", "C18_header_write_once_refuted"]),
            ("SingleObjectSinkProofs", ["so_encode_sink_header_does_not_fit", "so_encode_sink_vec_header"])]
PROOF_FILES = ["proofs/SingleObjectProofs.v", "proofs/SingleObjectChunkProofs.v", "proofs/ReaderProofs.v", "props/C18.v", "proofs/SingleObjectSinkProofs.v", "proofs/SinkWriteProofs.v"]
TRUSTED_BASE = [
    "documents: lib/docgen.py renders the graph as JSON (Python); the expected header is the MODEL's fingerprint of the model's own parse of that document (Parse.parse_schema, CanonicalForm.fingerprint); neighbours (lib/p_C18.neighbours, Python) only propose candidate schemas -- whether their canonical form differs is decided by the model",
    "Coq 8.16.1 kernel; no axioms (Print Assumptions: closed)",
    "hand-written model/SingleObject.v of single_object_encoding.rs over the models of the datum codec and of the fingerprint (C08), tied by the correspondence run",
    "extraction (ExtrOcamlBasic) + ocaml/driver.ml; Rust harness (sinks of `sos`: Vec, a writer taking at most K bytes per write call, a fixed-size slice)",
    "sinks: SingleObject.so_encode_sink = write_all marker, write_all fingerprint, datum on a writer with a byte budget (Ser.write); that a writer accepting only a prefix per `write` call receives the same bytes through write_all is std's contract",
    "harness `mutseq` (edits through nodes_mut(), then freeze of a clone + to_single_object_vec / from_single_object_*); lib/p_C08.random_edit for the edits",
    "the schemas whose fingerprint ends in 00 bytes are selected by the MODEL's fingerprint (CanonicalForm.fingerprint through `fp`); the search only filters candidates, the expected outcome (error) is that of C18_short / the model",
]
ASSUMPTIONS = [
    "'a message written under a schema with a different canonical form is never decoded' holds up to collisions of the 64-bit checksum: the theorem states the exact check (C18_dec, C18_mismatch: different fingerprint => rejected); the run tests that generated pairs of schemas with different canonical forms have different fingerprints",
]

def zero_tail_schemas(rng, tier):
    """schemas whose datum has NO bytes (records without fields / of nulls / of such records, fixed of size 0) and whose
    fingerprint -- computed by the model (CanonicalForm.fingerprint) -- ends in one or more 00 bytes: a header cut short of
    exactly those bytes differs from the complete one only by bytes that a zero-filled buffer would supply.
    -> [(nodes, evalue, number of trailing zero bytes)]"""
    N = G.Node
    salt = rng.randrange(10**6)
    cands = []
    for i in range(6000 if tier == "quick" else 300000):
        nm = "Z%d_%d" % (salt, i)
        shape = i % 4
        if shape == 0:
            cands.append(([N("record", name=nm, fields=[])], "(record)"))
        elif shape == 1:
            cands.append(([N("record", name=nm, fields=[("a", 1), ("b", 1)]), N("null")], "(record null null)"))
        elif shape == 2:
            cands.append(([N("record", name="ns." + nm, fields=[("inner", 1)]), N("record", name="ns.I" + nm, fields=[])], "(record (record))"))
        else:
            cands.append(([N("fixed", name=nm, size=0)], "(fixed x)"))
    out = []
    for (nodes, v), r in zip(cands, C.run_parallel(C.AVROMODEL, ["fp " + G.schema_sx(nodes) for nodes, _ in cands])):
        p = C.parse_sx(r)[0]
        if p[0] != "ok":
            continue
        fp = C.unhex(p[1])
        z = len(fp) - len(fp.rstrip(b"\x00"))
        if z:
            out.append((nodes, v, z))
    return out

def fixed0_cases(rng):
    """schemas holding a `fixed` of size 0 (the boundary of the size written into the canonical form) at the root, in records,
    arrays, maps, unions, under a decimal; and their neighbours of size 1 / 10 / 100"""
    N = G.Node
    out = []
    for sz in (0, 0, 1, 10, 100):
        fx = lambda: N("fixed", name="ns.Fx", size=sz)
        cands = [[fx()],
                 [N("record", name="R", fields=[("a", 1), ("f", 2), ("g", 2)]), N("int"), fx()],
                 [N("array", items=1), fx()], [N("map", values=1), fx()],
                 [N("union", variants=[1, 2]), N("null"), fx()],
                 [N("union", variants=[1, 2, 3]), N("string"), fx(), N("fixed", name="Other", size=0)]]
        if sz <= 10:
            cands.append([N("fixed", name="Dec", size=sz, lt=("decimal", 0, 5))])
        for nodes in cands:
            v = G.ValueGen(rng, nodes, layouts=False).gen(0)
            if v is not None:
                out.append((nodes, v))
    return out

def plain_valid(nodes):
    """the edited graph is still a schema in the specification's sense where the value generators depend on it: union branches
    pairwise distinct (by unnamed type / full name) and not unions, distinct field names, symbols and full names"""
    def bk(k):
        n = nodes[k]
        if n.t == "fixed" and n.kind() == "duration":
            return "duration"
        if n.t in ("record", "enum", "fixed"):
            return "named:" + n.name
        return n.t if n.kind() == n.t else n.kind()
    names = [n.name for n in nodes if n.t in ("record", "enum", "fixed")]
    if len(set(names)) != len(names):
        return False
    for n in nodes:
        if n.t == "union":
            ks = [bk(k) for k in n.variants]
            if len(set(ks)) != len(ks) or any(nodes[k].t == "union" for k in n.variants):
                return False
        if n.t == "record" and len(set(f for f, _ in n.fields)) != len(n.fields):
            return False
        if n.t == "enum" and len(set(n.symbols)) != len(n.symbols):
            return False
    return True

def edit_histories(rng, n):
    """operation sequences on ONE SchemaMut value ending in single-object use of the schema frozen from it:
    [fp | json | touch | clone]* edit+ [fp | clone | touch]* then (sos V) and (sod ..) -- the fingerprint may have been asked
    for BEFORE the graph was edited. -> [(start nodes, ops before the single-object ops, edited nodes, value of the edited schema)]"""
    import p_C08 as E
    out = []
    for _ in range(n * 8):
        if len(out) >= n:
            break
        nodes = G.SchemaGen(rng, max_nodes=rng.choice([2, 4, 8]), max_depth=rng.choice([1, 2, 3]), logical=rng.random() < 0.5).build()
        cur = [E.copy_node(x) for x in nodes]
        ops = [rng.choice(["fp", "fp", "json", "touch", "clone"]) for _ in range(rng.randint(0, 3))]
        if rng.random() < 0.7:
            ops.insert(rng.randint(0, len(ops)), "fp")
        for _ in range(rng.randint(1, 3)):
            e = E.random_edit(rng, cur)
            cur = [E.copy_node(x) for x in cur]
            if e[0] == "push":
                cur.append(e[1]); ops.append("(push %s)" % G.node_sx(e[1]))
            else:
                cur[e[1]] = e[2]; ops.append("(set %d %s)" % (e[1], G.node_sx(e[2])))
            if rng.random() < 0.3:
                ops.append(rng.choice(["fp", "clone", "touch", "freeze"]))
        if not plain_valid(cur):
            continue
        try:
            v = G.ValueGen(rng, cur, layouts=False).gen(0)
        except (RecursionError, IndexError, TypeError, ValueError):
            v = None
        if v is not None:
            out.append((nodes, ops, cur, v))
    return out

def name_graphs(rng, n):
    """schemas whose difficulty is in the NAMES (lib/docgen.py NameGraphGen: few simple names spread over several namespaces --
    X, ns.X, other.X: distinct types sharing their short name --, nested in one another in every (enclosing namespace, own
    namespace) arrangement; gen.py graphs with namespaces) with a conforming value. -> [(nodes, evalue)]"""
    import docgen as DG
    out = []
    for _ in range(n * 6):
        if len(out) >= n:
            break
        if rng.random() < 0.7:
            nodes = DG.NameGraphGen(rng, logical=False).build()
        else:
            nodes = G.SchemaGen(rng, max_nodes=rng.choice([3, 6, 12]), max_depth=rng.choice([2, 4]),
                                namespaces=rng.choice([("ns", "ns.sub", "other"), ("", "ns", "ns.sub")]), ref_prob=0.3).build()
        if not plain_valid(nodes):
            continue
        try:
            v = G.ValueGen(rng, nodes, layouts=False).gen(0)
        except (RecursionError, IndexError, TypeError, ValueError):
            v = None
        if v is not None:
            out.append((nodes, v))
    return out

def documents(rng, nodes, k):
    """up to k JSON spellings of the graph (lib/docgen.py DocGen: namespace in the dotted name / `namespace` attribute / inherited /
    explicit "namespace": "" for a null-namespace type inside a namespace / ".X"; definition at first use or later; references
    bare, dotted, with a leading dot). -> [(document, text)]"""
    import docgen as DG
    out, seen = [], set()
    for i in range(k * 3):
        if len(out) >= k:
            break
        try:
            doc = DG.DocGen(rng, nodes, forward=0.0 if i % 2 == 0 else 0.5, sibling_defs=(i % 5 == 4)).gen(0, None)
        except DG.Unspellable:
            continue
        t = DG.to_text(doc, rng)
        if t not in seen:
            seen.add(t)
            out.append((doc, t))
    return out

def neighbours(rng, nodes, limit):
    """schemas that differ from `nodes` in ONE named type: its namespace (every other namespace in use, the null namespace, a new
    one) or its definition (fixed: size + 1; enum: one more symbol / symbols reversed; record: fields reversed / one more field /
    one field's type changed). -> [(what, nodes')] (names stay pairwise distinct)"""
    import wrap
    from docgen import split_name
    named = [k for k, n in enumerate(nodes) if n.t in ("record", "enum", "fixed")]
    names = {nodes[k].name for k in named}
    nss = list(dict.fromkeys([split_name(nodes[k].name)[0] for k in named] + [None, "ns", "zz.other"]))
    out = []
    for k in named:
        ns, simple = split_name(nodes[k].name)
        for ns2 in nss:
            full2 = (ns2 + "." + simple) if ns2 else simple
            if ns2 != ns and full2 not in names:
                c = wrap.shift(nodes, 0)
                c[k].name = full2
                out.append(("namespace of %s -> %s" % (nodes[k].name, full2), c))
        c = wrap.shift(nodes, 0)
        n = c[k]
        if n.t == "fixed":
            n.size += 1
            out.append(("size of %s" % n.name, c))
        elif n.t == "enum":
            if len(n.symbols) > 1 and rng.random() < 0.5:
                n.symbols = list(reversed(n.symbols))
                out.append(("symbols of %s reversed" % n.name, c))
            else:
                n.symbols = list(n.symbols) + ["Zz9"]
                out.append(("one more symbol in %s" % n.name, c))
        else:
            r = rng.random()
            if len(n.fields) > 1 and r < 0.4:
                n.fields = list(reversed(n.fields))
                out.append(("fields of %s reversed" % n.name, c))
            elif n.fields and r < 0.7:
                i = rng.randrange(len(n.fields))
                old = c[n.fields[i][1]].t
                c.append(G.Node("long" if old != "long" else "string"))
                n.fields = list(n.fields)
                n.fields[i] = (n.fields[i][0], len(c) - 1)
                out.append(("type of field %s of %s" % (n.fields[i][0], n.name), c))
            else:
                c.append(G.Node("int"))
                n.fields = list(n.fields) + [("zz9", len(c) - 1)]
                out.append(("one more field in %s" % n.name, c))
    rng.shuffle(out)
    return out[:limit]

def run(ctx):
    rng = random.Random(ctx["seed"] * 1000003 + 18)
    n = 350 if ctx["tier"] == "quick" else 15000
    pairs = [G.schema_and_value(rng, layouts=False) for _ in range(n)]
    import directed as D
    pairs += fixed0_cases(rng) + D.zero_byte_cases()
    zt = zero_tail_schemas(rng, ctx["tier"])
    zero_tail = {G.schema_sx(nodes): z for nodes, v, z in zt}
    pairs += [(nodes, v) for nodes, v, z in zt]
    # schemas whose named types share short names across namespaces / nest in every namespace arrangement
    ng = name_graphs(rng, 120 if ctx["tier"] == "quick" else 5000)
    ng_from = len(pairs)
    pairs += ng
    sp = codec.spec_batch(pairs)
    enc_lines = ["sos %s %s" % (s["schema"], s["present"]) for s in sp]
    ei, em = codec.both(enc_lines)
    fps = C.run_parallel(C.AVRODRIVE, ["fp " + s["schema"] for s in sp])
    # the fingerprint the header must carry: the MODEL's (CanonicalForm.fingerprint = CRC-64-AVRO of the canonical form; C08)
    mfps = C.run_parallel(C.AVROMODEL, ["fp " + s["schema"] for s in sp])
    # the same messages through other sinks: a writer whose `write` takes at most K bytes per call (short writes: K below
    # and above the header's 10 bytes), a fixed-size slice exactly as large as the message (same bytes), and slices that are
    # too small -- inside the marker, inside the fingerprint, inside the datum -- which must give Err, never a truncated Ok
    sink_lines, sink_meta = [], []
    for s in sp:
        full = 10 + len(C.unhex(s["canon"]))
        for sink in ["(sink short %d)" % k for k in sorted(set([1, rng.choice([2, 3, 5, 8, 9]), rng.choice([10, 11, 16])]))] + ["(sink fixed %d)" % full]:
            sink_lines.append("sos %s %s %s" % (s["schema"], s["present"], sink)); sink_meta.append((s, "same"))
        for x in sorted(set(v for v in (0, 1, 2, rng.randrange(2, 10), 9, 10, full - 1, rng.randrange(0, full)) if 0 <= v < full)):
            sink_lines.append("sos %s %s (sink fixed %d)" % (s["schema"], s["present"], x)); sink_meta.append((s, "too-small"))
    ki, km = codec.both(sink_lines)
    violations, diffs, samples, distinct = [], [], [], set()
    violations_pre = []
    from collections import Counter
    dist = Counter()
    dec_lines, dec_meta = [], []
    msgs = []
    by_pcf = {}
    for s, line, ri, rm, rf, rmf in zip(sp, enc_lines, ei, em, fps, mfps):
        distinct.add(line)
        if not C.same_outcome(ri, rm) or (ri.startswith("(ok") and ri != rm):
            diffs.append(codec.diff_entry(line, ri, rm))
        p = C.parse_sx(ri)[0]
        pf = C.parse_sx(rf)[0]
        if p[0] != "ok" or pf[0] != "ok":
            violations.append({"impl_case": line, "what": "single-object serialization of a conforming value failed", "impl": ri[:300]})
            continue
        msg, fp = C.unhex(p[1]), C.unhex(pf[1])
        if msg != b"\xc3\x01" + fp + C.unhex(s["canon"]):
            violations.append({"impl_case": line, "what": "message is not C3 01 + fingerprint + datum encoding", "impl": ri[:300]})
        pmf = C.parse_sx(rmf)[0]
        if pmf[0] == "ok" and msg[:10] != b"\xc3\x01" + C.unhex(pmf[1]):
            violations.append({"impl_case": line, "what": "the header does not carry the schema's fingerprint (CRC-64-AVRO of its Parsing Canonical Form, computed by the model)",
                               "impl": ri[:300], "expected_header": C.hx(b"\xc3\x01" + C.unhex(pmf[1])),
                               "canonical_form": C.unhex(pmf[2]).decode("utf-8", "replace")[:300]})
        elif pmf[0] == "ok":
            # a well-formed message (header by the model) must be accepted
            good = b"\xc3\x01" + C.unhex(pmf[1]) + C.unhex(s["canon"])
            for m in ("slice", "(chunks %d)" % rng.randint(1, 12)):
                dec_lines.append("sod %s any %s %s" % (s["schema"], C.hx(good), m)); dec_meta.append(("valid-model-header", "(ok %s)" % s["dany"]))
        by_pcf.setdefault(pf[2], set()).add(pf[1])
        msgs.append((s, msg, fp, pf[2]))
    vec_msg = {id(s): C.parse_sx(ri)[0] for s, ri in zip(sp, ei)}
    for line, ri, rm, (s, kind) in zip(sink_lines, ki, km, sink_meta):
        distinct.add(line)
        dist["sink-" + kind] += 1
        if not C.same_outcome(ri, rm) or (ri.startswith("(ok") and ri != rm):
            diffs.append(codec.diff_entry(line, ri, rm))
        if ri.startswith("(panic") or ri.startswith("(crash"):
            violations.append({"impl_case": line, "what": "panic in single-object serialization", "impl": ri[:300]})
        elif kind == "same":
            base = vec_msg[id(s)]
            if base[0] == "ok" and C.show_sx(C.parse_sx(ri)[0]) != C.show_sx(base):
                violations.append({"impl_case": line, "what": "the message that reached the sink is not C3 01 + fingerprint + datum (it differs from to_single_object_vec's)",
                                   "impl": ri[:300], "expected": C.show_sx(base)[:300]})
        elif ri.startswith("(ok"):
            violations.append({"impl_case": line, "what": "Ok although the output slice is smaller than the message (%d bytes)" % (10 + len(C.unhex(s["canon"]))), "impl": ri[:300]})
    # distinct canonical forms must have distinct fingerprints (tested, not provable: 64-bit checksum)
    seen = {}
    for pcf, fset in by_pcf.items():
        for f in fset:
            if f in seen and seen[f] != pcf:
                violations.append({"what": "two different canonical forms share a fingerprint", "a": C.unhex(pcf).decode()[:200], "b": C.unhex(seen[f]).decode()[:200]})
            seen[f] = pcf
    for i, (s, msg, fp, pcf) in enumerate(msgs):
        mode = lambda: rng.choice(["slice", "(chunks 1)", "(chunks %d)" % rng.randint(2, 12), "(chunks %d %d)" % (rng.randint(1, 10), rng.randint(1, 10))])
        for tg, exp in (("any", s["dany"]), (s["ttarget"], s["dtyped"])):
            # from the slice AND from a reader (the two entry points have their own header handling)
            for m in ("slice", rng.choice(["(chunks 1)", "(chunks %d)" % rng.randint(2, 12), "(chunks %d %d)" % (rng.randint(1, 10), rng.randint(1, 10))])):
                dec_lines.append("sod %s %s %s %s" % (s["schema"], tg, C.hx(msg), m)); dec_meta.append(("valid", "(ok %s)" % exp))
        # truncations of the header and beyond, corrupted header bytes
        if s["schema"] in zero_tail:
            # every header length 0..9 x the slice and readers that deliver the header in one / several short reads
            for k in range(10):
                for m in ["slice", "(chunks 1)", "(chunks 3)", "(chunks 9)", "(chunks 4 5 1)", "(chunks 64)"]:
                    dec_lines.append("sod %s %s %s %s" % (s["schema"], rng.choice(["any", s["ttarget"], "ignored"]), C.hx(msg[:k]), m))
                    dec_meta.append(("short-header-zero-tail", "err"))
        for k in sorted(set([0, 1, 2, 5, 9] + [rng.randrange(0, 10)])):
            dec_lines.append("sod %s any %s %s" % (s["schema"], C.hx(msg[:k]), mode())); dec_meta.append(("short-header", "err"))
        for _ in range(3):
            j = rng.randrange(10)
            g = bytearray(msg); g[j] ^= rng.choice([1, 0x80, 0xFF, 0x10])
            dec_lines.append("sod %s any %s %s" % (s["schema"], C.hx(bytes(g)), mode())); dec_meta.append(("corrupt-header-byte-%d" % j, "err"))
        # several header bytes corrupted at once: the same mask on two / on all fingerprint bytes, two fingerprint bytes
        # exchanged, the fingerprint reversed or rotated (a comparison through a fold -- xor, sum -- of the differences,
        # of a subset of the bytes, or regardless of their order would let these through)
        multi = []
        j, k2 = rng.sample(range(2, 10), 2)
        mask = rng.choice([1, 0x80, 0xFF, 0x10, rng.randrange(1, 256)])
        g = bytearray(msg); g[j] ^= mask; g[k2] ^= mask; multi.append(("same-mask-two-bytes", g))
        g = bytearray(msg)
        for x in range(2, 10):
            g[x] ^= mask
        multi.append(("same-mask-all-bytes", g))
        g = bytearray(msg); g[j], g[k2] = g[k2], g[j]; multi.append(("two-exchanged", g))
        g = bytearray(msg); g[2:10] = bytes(reversed(msg[2:10])); multi.append(("fingerprint-reversed", g))
        g = bytearray(msg); g[2:10] = msg[3:10] + msg[2:3]; multi.append(("fingerprint-rotated", g))
        g = bytearray(msg); g[j] = (g[j] + 1) % 256; g[k2] = (g[k2] - 1) % 256; multi.append(("sum-preserving", g))
        g = bytearray(msg); g[0], g[1] = g[1], g[0]; multi.append(("marker-exchanged", g))
        for what, g in multi:
            if bytes(g[:10]) != msg[:10]:
                dec_lines.append("sod %s any %s %s" % (s["schema"], C.hx(bytes(g)), mode())); dec_meta.append(("corrupt-header-" + what, "err"))
        # messages written under other schemas (different canonical forms)
        for o in rng.sample(msgs, min(len(msgs), 10)):
            if o[3] != pcf:
                dec_lines.append("sod %s any %s %s" % (s["schema"], C.hx(o[1]), mode())); dec_meta.append(("other-schema", "err"))
    # ---- the same name-heavy schemas given as JSON DOCUMENTS (every namespace spelling of lib/docgen.py) and their neighbours
    import docgen as DG
    quick = ctx["tier"] == "quick"
    doc_cases = []          # (spec entry, document, text)
    for s in sp[ng_from:ng_from + len(ng)]:
        for doc, text in documents(rng, s["nodes"], 2 if quick else 3):
            doc_cases.append((s, doc, text))
    mparse = C.run_parallel(C.AVROMODEL, ["parse " + DG.to_sx(doc) for _, doc, _ in doc_cases])
    dlines, dmeta = [], []
    for (s, doc, text), rp in zip(doc_cases, mparse):
        pp = C.parse_sx(rp)[0]
        if pp[0] != "ok":
            continue
        # pp: model's parse of the document: graph, canonical form, fingerprint, text, specification canonical form (PcfSpec)
        mfp, mpcf = C.unhex(pp[3]), pp[2]
        sch = "(json %s)" % C.hx(text)
        good = b"\xc3\x01" + mfp + C.unhex(s["canon"])
        dlines.append("sos %s %s" % (sch, s["present"])); dmeta.append(("doc-sos", C.hx(good), text))
        for m in ("slice", "(chunks %d)" % rng.randint(1, 12)):
            dlines.append("sod %s %s %s %s" % (sch, rng.choice(["any", s["ttarget"]]), C.hx(good), m))
            dmeta.append(("doc-sod-valid", None, text))
            dmeta[-1] = ("doc-sod-valid", "(ok %s)" % (s["dany"] if " any " in dlines[-1][len(sch) + 4:len(sch) + 9] else s["dtyped"]), text)
    # neighbours: one named type in another namespace / with another definition. A message written under the neighbour (header:
    # the model's fingerprint of the neighbour, and the fingerprint the CRATE gives the neighbour when it differs) must be
    # rejected under the schema -- given as nodes and as each of its documents -- whenever the model's canonical forms differ
    nb = []
    for s in sp[ng_from:ng_from + len(ng)]:
        for what, c in neighbours(rng, s["nodes"], 6 if quick else 12):
            nb.append((s, what, c))
    nb_m = C.run_parallel(C.AVROMODEL, ["fp " + G.schema_sx(c) for _, _, c in nb])
    nb_i = C.run_parallel(C.AVRODRIVE, ["fp " + G.schema_sx(c) for _, _, c in nb])
    own_m = {id(s): r for s, r in zip(sp[ng_from:ng_from + len(ng)], C.run_parallel(C.AVROMODEL, ["fp " + s["schema"] for s in sp[ng_from:ng_from + len(ng)]]))}
    docs_of = {}
    for (s, doc, text), rp in zip(doc_cases, mparse):
        if rp.startswith("(ok"):
            docs_of.setdefault(id(s), []).append(text)
    nb_fps = {}
    for (s, what, c), rm, ri in zip(nb, nb_m, nb_i):
        pm, pi, po = C.parse_sx(rm)[0], C.parse_sx(ri)[0], C.parse_sx(own_m[id(s)])[0]
        if pm[0] != "ok" or po[0] != "ok":
            continue
        if pm[2] == po[2]:
            continue            # same canonical form: nothing to tell apart
        if pm[1] in nb_fps and nb_fps[pm[1]] != pm[2]:
            violations_pre.append({"what": "two different canonical forms share a fingerprint (model)", "a": pm[2][:200], "b": nb_fps[pm[1]][:200]})
        nb_fps[pm[1]] = pm[2]
        if pm[1] == po[1]:
            violations_pre.append({"what": "schemas that differ in one named type (%s) have the same model fingerprint" % what, "schema": s["schema"][:400]})
            continue
        heads = [pm[1]] + ([pi[1]] if pi[0] == "ok" and pi[1] != pm[1] else [])
        for hd in heads:
            bad = b"\xc3\x01" + C.unhex(hd) + C.unhex(s["canon"])
            forms = [s["schema"]] + ["(json %s)" % C.hx(t) for t in docs_of.get(id(s), [])]
            for sch in forms:
                dlines.append("sod %s any %s %s" % (sch, C.hx(bad), rng.choice(["slice", "slice", "(chunks 1)", "(chunks %d)" % rng.randint(2, 12)])))
                dmeta.append(("neighbour-schema: " + what, "err", None))
    for line, ri, (kind, want, text) in zip(dlines, C.run_parallel(C.AVRODRIVE, dlines), dmeta):
        distinct.add(line)
        dist[kind.split(":")[0]] += 1
        if ri.startswith("(bad-case"):
            # the crate does not parse a document that the model parses: a difference of the parsers (C07), not a header violation
            diffs.append({"impl_case": line, "model_case": "parse", "impl": ri[:300], "model": "document accepted"})
            continue
        if kind == "doc-sos":
            p = C.parse_sx(ri)[0]
            if p[0] != "ok":
                violations.append({"impl_case": line, "what": "single-object serialization under a schema given as a JSON document failed", "impl": ri[:300], "document": text[:600]})
            elif p[1] != want:
                violations.append({"impl_case": line, "what": "schema given as a JSON document: the message is not C3 01 + the fingerprint of the document's schema "
                                   "(model: Parse.parse_schema then CanonicalForm.fingerprint) + datum", "impl": ri[:300], "expected": want[:300], "document": text[:600]})
        elif want == "err":
            if not ri.startswith("(err"):
                violations.append({"impl_case": line, "what": "a message written under a schema that differs in one named type (%s; different canonical "
                                   "form) was decoded" % kind, "impl": ri[:300]})
        elif G.erase_borrow_text(ri) != want:
            violations.append({"impl_case": line, "what": "schema given as a JSON document: a well-formed message (the model's fingerprint of the document) was not decoded to its value",
                               "impl": ri[:300], "expected": want[:300], "document": (text or "")[:600]})
    violations += violations_pre
    # truncated headers whose missing bytes are 0x00 (or 0xFF) in the schema's fingerprint, with a zero-length datum: a reader
    # that pads a short header instead of failing would accept them. Schemas are searched for such fingerprints.
    cand = ["(schema (node (record %s) none))" % C.hx("Empty%d" % i) for i in range(700 if ctx["tier"] == "quick" else 6000)]
    cand += ["(schema (node (record %s (%s 1)) none) (node null none))" % (C.hx("ns.E%d" % i), C.hx("f")) for i in range(300 if ctx["tier"] == "quick" else 3000)]
    for sch, rf in zip(cand, C.run_parallel(C.AVRODRIVE, ["fp " + c for c in cand])):
        pf = C.parse_sx(rf)[0]
        if pf[0] != "ok":
            continue
        fp = C.unhex(pf[1])
        t = len(fp.rstrip(b"\x00")) if fp[-1] == 0 else (len(fp.rstrip(b"\xff")) if fp[-1] == 0xFF else 8)
        if t < 8:
            msg = b"\xc3\x01" + fp
            for cut in range(2 + t, 10):
                for md in ("slice", "(chunks 1)", "(chunks 16)", "(chunks %d)" % max(1, cut - 1)):
                    dec_lines.append("sod %s any %s %s" % (sch, C.hx(msg[:cut]), md)); dec_meta.append(("short-header-padding", "err"))
    # histories on one SchemaMut (fingerprint asked before edits through nodes_mut(), clones, touches), then single-object
    # encoding / decoding with the schema frozen from it: the header must be that of the graph AS FROZEN
    hs = edit_histories(rng, 150 if ctx["tier"] == "quick" else 5000)
    hspec = C.run_parallel(C.AVROMODEL, ["spec %s %s" % (G.schema_sx(cur), v) for _, _, cur, v in hs])
    hfp_new = C.run_parallel(C.AVROMODEL, ["fp " + G.schema_sx(cur) for _, _, cur, _ in hs])
    hfp_old = C.run_parallel(C.AVROMODEL, ["fp " + G.schema_sx(nodes) for nodes, _, _, _ in hs])
    hlines, hwant = [], []
    for (nodes, ops, cur, v), rs, rn, ro in zip(hs, hspec, hfp_new, hfp_old):
        ps, pn, po = C.parse_sx(rs), C.parse_sx(rn)[0], C.parse_sx(ro)[0]
        if not ps or ps[0][0] != "ok" or ps[0][3] != "1" or pn[0] != "ok":
            continue
        ps = ps[0]
        canon, dany, present = C.unhex(ps[2]), C.show_sx(ps[5]), C.show_sx(ps[6])
        new_msg = b"\xc3\x01" + C.unhex(pn[1]) + canon
        sods = ["(sod any %s %s)" % (C.hx(new_msg), m) for m in ("slice", "(chunks %d)" % rng.randint(1, 12))]
        want = [("sos", C.hx(new_msg)), ("sod", "(ok %s)" % dany), ("sod", "(ok %s)" % dany)]
        if po[0] == "ok" and po[2] != pn[2]:
            # a message carrying the fingerprint of the graph BEFORE the edits (another canonical form)
            old_msg = b"\xc3\x01" + C.unhex(po[1]) + canon
            sods += ["(sod any %s %s)" % (C.hx(old_msg), m) for m in ("slice", "(chunks %d)" % rng.randint(1, 12))]
            want += [("sod", "err"), ("sod", "err")]
        hlines.append("mutseq %s %s (sos %s) %s" % (G.schema_sx(nodes), " ".join(ops), present, " ".join(sods)))
        hwant.append((want, G.schema_sx(cur)))
    for line, ri, (want, gnow) in zip(hlines, C.run_parallel(C.AVRODRIVE, hlines), hwant):
        distinct.add(line)
        pr = C.parse_sx(ri)[0] if ri.startswith("(") else ["crash"]
        # (an intermediate `freeze` of the history may legitimately fail on an intermediate graph -- e.g. a cycle of unnamed nodes --:
        #  those answers are not part of what is judged here; a failure of the final graph shows as sos-err)
        got = [x for x in pr[1:] if isinstance(x, list) and x[0] in ("sos", "sos-err", "sod")] if pr[0] == "ok" else []
        if pr[0] != "ok" or len(got) != len(want):
            violations.append({"impl_case": line, "what": "a history on a SchemaMut followed by single-object use did not complete: %s" % ri[:200]})
            continue
        dist["history"] += 1
        if any(g[0] in ("freeze-err", "sos-err") for g in got):
            # the model accepts the edited graph and the value, the crate does not: a difference to look at, not a header violation
            diffs.append({"impl_case": line, "model_case": "freeze " + gnow, "impl": ri[:400], "model": "accepted"})
            continue
        for step, ((kind, w), g) in enumerate(zip(want, got)):
            if kind == "sos":
                if g[1] != w:
                    violations.append({"impl_case": line, "what": "single-object message written with a schema frozen after edits through nodes_mut(): not C3 01 + "
                                       "fingerprint of the schema AS FROZEN + datum", "graph_as_frozen": gnow[:600], "got": g[1][:200], "expected": w[:200]})
            elif w == "err":
                if not (isinstance(g[1], list) and g[1][0] == "err"):
                    violations.append({"impl_case": line, "what": "a message carrying the fingerprint of the schema BEFORE its edits (different canonical form) was decoded "
                                       "with the schema frozen after them", "graph_as_frozen": gnow[:600], "got": C.show_sx(g[1])[:300]})
            elif G.erase_borrow_text(C.show_sx(g[1])) != w:
                violations.append({"impl_case": line, "what": "a well-formed message (fingerprint of the schema as frozen after edits) was not decoded to its value",
                                   "graph_as_frozen": gnow[:600], "got": C.show_sx(g[1])[:300], "expected": w[:300]})
    di, dm = codec.both(dec_lines)
    for line, ri, rm, (kind, want) in zip(dec_lines, di, dm, dec_meta):
        distinct.add(line)
        dist[kind.split("-byte")[0] if kind.startswith("corrupt-header-byte") else kind] += 1
        if not C.same_outcome(ri, rm):
            diffs.append(codec.diff_entry(line, ri, rm))
        if want == "err":
            if not ri.startswith("(err"):
                violations.append({"impl_case": line, "what": "%s was decoded" % kind, "impl": ri[:300]})
        elif G.erase_borrow_text(ri) != want:
            violations.append({"impl_case": line, "what": "a valid single-object message did not decode to the value", "impl": ri[:300], "expected": want[:300]})
    samples = [{"message": C.hx(m[1])[:80], "fingerprint": C.hx(m[2])} for m in msgs[:4]]
    return {"evaluations": len(enc_lines) + len(dec_lines) + len(sink_lines) + len(hlines) + len(dlines), "distinct_nontrivial": len(distinct),
            "rule": "schemas x values: message = C3 01 + fingerprint + extracted specification encoding, into a Vec, through writers taking at most "
                    "K bytes per write call and into exact-size slices (same message), into too-small slices (Err); decoded back (dynamic and typed target) "
                    "from a slice and from chunked readers; every header truncation length 0..9 (incl. schemas searched for fingerprints ending in 00 / FF, cut "
                    "inside that tail; and schemas with zero-byte datums whose model-computed fingerprint ends in 00 bytes: every header length 0..9 x {slice, 1 / 3 / 9 / 4+5+1 / 64 bytes per read} must be rejected), single-byte header corruptions, several bytes at once (same mask, exchanged, reversed, rotated, sum-preserving), messages "
                    "written under a schema with a different canonical form must be rejected; distinct canonical forms must have distinct "
                    "fingerprints in the generated set; the header of every message is the MODEL's fingerprint of the schema (CRC-64-AVRO of the canonical "
                    "form) and messages built with the model's header are accepted, from the slice and from readers; schemas holding a fixed of "
                    "size 0 (root, record, array, map, unions, decimal) and zero-byte datums (message = header); histories on one SchemaMut "
                    "(fingerprint / json / clone / touch, then edits through nodes_mut(), then freeze) followed by single-object encoding (header = "
                    "fingerprint of the graph as frozen) and decoding (message with that fingerprint accepted, message with the pre-edit "
                    "fingerprint rejected); schemas whose named types share short names across namespaces / nest in every namespace arrangement "
                    "(docgen.NameGraphGen), as node graphs and as JSON DOCUMENTS in every namespace spelling (dotted name, namespace attribute, inherited, "
                    "explicit empty namespace inside a namespace, leading dot): header = the model's fingerprint of the document, well-formed messages "
                    "accepted, and messages written under a NEIGHBOUR schema (one named type moved to another namespace, or its definition changed: "
                    "size, symbols, field order / types) rejected, with the model's and with the crate's own fingerprint of the neighbour; model vs crate",
            "samples": samples, "violations": violations, "model_diffs": diffs, "distribution": dict(dist)}
