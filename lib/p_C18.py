"""C18 -- single-object encoding: marker + schema fingerprint + datum, verified on read."""
import random
import common as C
import gen as G
import codec

MODEL_TARGETS = ["model/SingleObject.vo", "model/CanonicalForm.vo"]
COQ_TARGETS = ["props/C18.vo", "proofs/ConstsTie.vo"]
THEOREMS = [("C18", ["C18_enc", "C18_dec", "C18_mismatch", "C18_short", "C18_roundtrip", "C18_slice_reader"])]
PROOF_FILES = ["proofs/SingleObjectProofs.v", "proofs/SingleObjectChunkProofs.v", "proofs/ReaderProofs.v", "props/C18.v"]
TRUSTED_BASE = [
    "Coq 8.16.1 kernel; no axioms (Print Assumptions: closed)",
    "hand-written model/SingleObject.v of single_object_encoding.rs over the models of the datum codec and of the fingerprint (C08), tied by the correspondence run",
    "extraction (ExtrOcamlBasic) + ocaml/driver.ml; Rust harness",
    "the schemas whose fingerprint ends in 00 bytes are selected by the MODEL's fingerprint (CanonicalForm.fingerprint through `fp`); the search only filters candidates, the expected outcome (error) is that of C18_short / the model",
]
ASSUMPTIONS = [
    "'a message written under a schema with a different canonical form is never decoded' holds up to collisions of the 64-bit checksum: the theorem states the exact check (C18_dec, C18_mismatch: different fingerprint => rejected); the run tests that generated pairs of schemas with different canonical forms have different fingerprints",
]

def zero_tail_schemas(rng, tier):
    """schemas whose datum has NO bytes (records without fields / of nulls / of such records, fixed of size 0) and whose
    fingerprint -- computed by the model (CanonicalForm.fingerprint) -- ends in one or more 00 bytes: a header cut short of
    exactly those bytes differs from the complete one only by bytes that a zero-filled buffer would supply.
    -> [(nodes, evalue, number of trailing zero bytes)]"""
    N = G.Node
    salt = rng.randrange(10**6)
    cands = []
    for i in range(6000 if tier == "quick" else 300000):
        nm = "Z%d_%d" % (salt, i)
        shape = i % 4
        if shape == 0:
            cands.append(([N("record", name=nm, fields=[])], "(record)"))
        elif shape == 1:
            cands.append(([N("record", name=nm, fields=[("a", 1), ("b", 1)]), N("null")], "(record null null)"))
        elif shape == 2:
            cands.append(([N("record", name="ns." + nm, fields=[("inner", 1)]), N("record", name="ns.I" + nm, fields=[])], "(record (record))"))
        else:
            cands.append(([N("fixed", name=nm, size=0)], "(fixed x)"))
    out = []
    for (nodes, v), r in zip(cands, C.run_parallel(C.AVROMODEL, ["fp " + G.schema_sx(nodes) for nodes, _ in cands])):
        p = C.parse_sx(r)[0]
        if p[0] != "ok":
            continue
        fp = C.unhex(p[1])
        z = len(fp) - len(fp.rstrip(b"\x00"))
        if z:
            out.append((nodes, v, z))
    return out

def run(ctx):
    rng = random.Random(ctx["seed"] * 1000003 + 18)
    n = 350 if ctx["tier"] == "quick" else 15000
    pairs = [G.schema_and_value(rng, layouts=False) for _ in range(n)]
    zt = zero_tail_schemas(rng, ctx["tier"])
    zero_tail = {G.schema_sx(nodes): z for nodes, v, z in zt}
    pairs += [(nodes, v) for nodes, v, z in zt]
    sp = codec.spec_batch(pairs)
    enc_lines = ["sos %s %s" % (s["schema"], s["present"]) for s in sp]
    ei, em = codec.both(enc_lines)
    fps = C.run_parallel(C.AVRODRIVE, ["fp " + s["schema"] for s in sp])
    violations, diffs, samples, distinct = [], [], [], set()
    from collections import Counter
    dist = Counter()
    dec_lines, dec_meta = [], []
    msgs = []
    by_pcf = {}
    for s, line, ri, rm, rf in zip(sp, enc_lines, ei, em, fps):
        distinct.add(line)
        if not C.same_outcome(ri, rm) or (ri.startswith("(ok") and ri != rm):
            diffs.append(codec.diff_entry(line, ri, rm))
        p = C.parse_sx(ri)[0]
        pf = C.parse_sx(rf)[0]
        if p[0] != "ok" or pf[0] != "ok":
            violations.append({"impl_case": line, "what": "single-object serialization of a conforming value failed", "impl": ri[:300]})
            continue
        msg, fp = C.unhex(p[1]), C.unhex(pf[1])
        if msg != b"\xc3\x01" + fp + C.unhex(s["canon"]):
            violations.append({"impl_case": line, "what": "message is not C3 01 + fingerprint + datum encoding", "impl": ri[:300]})
        by_pcf.setdefault(pf[2], set()).add(pf[1])
        msgs.append((s, msg, fp, pf[2]))
    # distinct canonical forms must have distinct fingerprints (tested, not provable: 64-bit checksum)
    seen = {}
    for pcf, fset in by_pcf.items():
        for f in fset:
            if f in seen and seen[f] != pcf:
                violations.append({"what": "two different canonical forms share a fingerprint", "a": C.unhex(pcf).decode()[:200], "b": C.unhex(seen[f]).decode()[:200]})
            seen[f] = pcf
    for i, (s, msg, fp, pcf) in enumerate(msgs):
        mode = lambda: rng.choice(["slice", "(chunks 1)", "(chunks %d)" % rng.randint(2, 12), "(chunks %d %d)" % (rng.randint(1, 10), rng.randint(1, 10))])
        for tg, exp in (("any", s["dany"]), (s["ttarget"], s["dtyped"])):
            dec_lines.append("sod %s %s %s %s" % (s["schema"], tg, C.hx(msg), mode())); dec_meta.append(("valid", "(ok %s)" % exp))
        # truncations of the header and beyond, corrupted header bytes
        if s["schema"] in zero_tail:
            # every header length 0..9 x the slice and readers that deliver the header in one / several short reads
            for k in range(10):
                for m in ["slice", "(chunks 1)", "(chunks 3)", "(chunks 9)", "(chunks 4 5 1)", "(chunks 64)"]:
                    dec_lines.append("sod %s %s %s %s" % (s["schema"], rng.choice(["any", s["ttarget"], "ignored"]), C.hx(msg[:k]), m))
                    dec_meta.append(("short-header-zero-tail", "err"))
        for k in sorted(set([0, 1, 2, 5, 9] + [rng.randrange(0, 10)])):
            dec_lines.append("sod %s any %s %s" % (s["schema"], C.hx(msg[:k]), mode())); dec_meta.append(("short-header", "err"))
        for _ in range(3):
            j = rng.randrange(10)
            g = bytearray(msg); g[j] ^= rng.choice([1, 0x80, 0xFF, 0x10])
            dec_lines.append("sod %s any %s %s" % (s["schema"], C.hx(bytes(g)), mode())); dec_meta.append(("corrupt-header-byte-%d" % j, "err"))
        # a message written under another schema (different canonical form)
        o = msgs[rng.randrange(len(msgs))]
        if o[3] != pcf:
            dec_lines.append("sod %s any %s %s" % (s["schema"], C.hx(o[1]), mode())); dec_meta.append(("other-schema", "err"))
    di, dm = codec.both(dec_lines)
    for line, ri, rm, (kind, want) in zip(dec_lines, di, dm, dec_meta):
        distinct.add(line)
        dist[kind.split("-byte")[0]] += 1
        if not C.same_outcome(ri, rm):
            diffs.append(codec.diff_entry(line, ri, rm))
        if want == "err":
            if not ri.startswith("(err"):
                violations.append({"impl_case": line, "what": "%s was decoded" % kind, "impl": ri[:300]})
        elif G.erase_borrow_text(ri) != want:
            violations.append({"impl_case": line, "what": "a valid single-object message did not decode to the value", "impl": ri[:300], "expected": want[:300]})
    samples = [{"message": C.hx(m[1])[:80], "fingerprint": C.hx(m[2])} for m in msgs[:4]]
    return {"evaluations": len(enc_lines) + len(dec_lines), "distinct_nontrivial": len(distinct),
            "rule": "schemas x values: message = C3 01 + fingerprint + extracted specification encoding; decoded back (dynamic and typed target) "
                    "from a slice and from chunked readers; every header truncation length 0..9, single-byte header corruptions; schemas with "
                    "zero-byte datums whose (model-computed) fingerprint ends in 00 bytes, found by search: every header length 0..9 x {slice, "
                    "1 / 3 / 9 / 4+5+1 / 64 bytes per read} must be rejected (the missing bytes are zeros); messages "
                    "written under a schema with a different canonical form must be rejected; distinct canonical forms must have distinct "
                    "fingerprints in the generated set; model vs crate",
            "samples": samples, "violations": violations, "model_diffs": diffs, "distribution": dict(dist)}
