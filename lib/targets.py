"""Random deserialization targets: the typed target of a schema with random hint substitutions,
so that every (hint method x node kind) cell of the deserializer is exercised."""
from common import hx
from present import type_name

HINTS = ["any", "ignored", "bool", "i8", "i16", "i32", "i64", "i128", "u8", "u16", "u32", "u64", "u128", "f32",
         "f64", "char", "str", "string", "bytes", "bytebuf", "identifier", "unit"]

def typed(nodes, k, depth=0, rng=None, subst=0.0, drop_fields=0.0):
    """the ordinary Rust type for node k; with probability subst a random hint replaces a subtree;
    with probability drop_fields a struct field is left out (it is then skipped: C12)"""
    n = nodes[k]
    kind = n.kind()
    if rng is not None and rng.random() < subst:
        return random_hint(nodes, k, depth, rng, subst, drop_fields)
    if depth > 10:
        return "any"
    rec = lambda kk: typed(nodes, kk, depth + 1, rng, subst, drop_fields)
    if kind == "null":
        return "unit"
    if kind == "boolean":
        return "bool"
    if kind in ("int", "date", "time-millis"):
        return "i32"
    if kind in ("long", "time-micros", "timestamp-millis", "timestamp-micros"):
        return "i64"
    if kind == "float":
        return "f32"
    if kind == "double":
        return "f64"
    if kind in ("bytes", "fixed"):
        return "bytes"
    if kind in ("string", "uuid", "decimal", "big-decimal"):
        return "str"
    if kind == "array":
        return "(seq %s)" % rec(n.items)
    if kind == "map":
        return "(map str %s)" % rec(n.values)
    if kind == "union":
        nulls = [nodes[v].kind() == "null" for v in n.variants]
        if len(n.variants) == 2 and nulls.count(True) == 1:
            other = n.variants[nulls.index(False)]
            return "(option %s)" % rec(other)
        vs = []
        for v in n.variants:
            if nodes[v].kind() == "null":
                vs.append("(unit %s)" % hx("Null"))
            else:
                vs.append("(newtype %s %s)" % (hx(type_name(nodes, v)), rec(v)))
        return "(enum %s%s)" % (hx("U"), "".join(" " + v for v in vs))
    if kind == "record":
        fs = []
        for f, fk in n.fields:
            if rng is not None and rng.random() < drop_fields:
                continue
            fs.append("(%s %s)" % (hx(f), rec(fk)))
        if rng is not None and rng.random() < 0.3:
            rng.shuffle(fs)
        return "(struct %s%s)" % (hx(n.name), "".join(" " + f for f in fs))
    if kind == "enum":
        return "(enum %s%s)" % (hx(n.name), "".join(" (unit %s)" % hx(s) for s in n.symbols))
    if kind == "duration":
        return "(tuple u32 u32 u32)"
    raise ValueError(kind)

def random_hint(nodes, k, depth, rng, subst, drop_fields):
    r = rng.random()
    rec = lambda kk: typed(nodes, kk, depth + 1, rng, subst, drop_fields)
    if r < 0.5:
        return rng.choice(HINTS)
    n = nodes[k]
    c = rng.choice(["option-any", "option-typed", "seq-any", "tuple", "newtype", "unit_struct", "map-any", "enum",
                    "struct", "tuple_struct", "option-enum"])
    if c == "option-any":
        return "(option any)"
    if c == "option-typed":
        return "(option %s)" % typed(nodes, k, depth + 1, rng, 0.0, drop_fields)
    if c == "seq-any":
        return "(seq %s)" % rng.choice(["any", "ignored", "i64", "str"])
    if c == "tuple":
        return "(tuple%s)" % "".join(" " + rng.choice(["any", "i32", "u32", "str", "ignored"]) for _ in range(rng.randint(0, 4)))
    if c == "tuple_struct":
        return "(tuple_struct %s%s)" % (hx("T"), "".join(" " + rng.choice(["any", "u32"]) for _ in range(rng.randint(1, 3))))
    if c == "newtype":
        return "(newtype_struct %s %s)" % (hx("N"), typed(nodes, k, depth + 1, rng, subst, drop_fields))
    if c == "unit_struct":
        return "(unit_struct %s)" % hx("Unit")
    if c == "map-any":
        return "(map %s %s)" % (rng.choice(["any", "str", "ignored", "u64", "identifier"]), rng.choice(["any", "ignored", "u32"]))
    if c in ("enum", "option-enum"):
        # variants named after type names / symbols / field-ish strings, random payload kinds
        names = set()
        if n.kind() == "union":
            for v in n.variants:
                names.add(type_name(nodes, v))
        else:
            names.add(type_name(nodes, k))
        if n.kind() == "enum":
            names.update(n.symbols[:2])
        names.update(rng.sample(["Null", "String", "Int", "Long", "A", "Bytes"], 2))
        vs = []
        for nm in sorted(names):
            pk = rng.choice(["unit", "newtype", "newtype", "tuple", "struct"])
            if pk == "unit":
                vs.append("(unit %s)" % hx(nm))
            elif pk == "newtype":
                vs.append("(newtype %s %s)" % (hx(nm), rng.choice(["any", "ignored", "i64", "str", "(seq any)"])))
            elif pk == "tuple":
                vs.append("(tuple %s%s)" % (hx(nm), "".join(" " + rng.choice(["any", "u32"]) for _ in range(rng.randint(1, 3)))))
            else:
                vs.append("(struct %s (%s any) (%s any))" % (hx(nm), hx("f0"), hx("months")))
        rng.shuffle(vs)
        e = "(enum %s%s)" % (hx("E"), "".join(" " + v for v in vs))
        return e if c == "enum" else "(option %s)" % e
    if c == "struct":
        names = ["f0", "f1", "months", "days", "zzz"]
        return "(struct %s%s)" % (hx("S"), "".join(" (%s %s)" % (hx(f), rng.choice(["any", "ignored", "u32", "(option any)"]))
                                                     for f in rng.sample(names, rng.randint(0, 4))))
    return "any"


# ---------------------------------------------------------------- enum-as-union targets with other variant shapes
def variant_shapes(t, d, rng=None, stats=None):
    """t: a typed target (parsed s-expression: nested lists, as spec/Denote's typed_target gives it, every union branch a
    NEWTYPE variant), d: the events the specification expects for it (parsed). Returns the target in which the enum-as-union
    variants take the other shapes serde offers for the same data:
      (newtype xN (seq T))            over an array branch  -> (tuple xN T1 .. Tk)   k = the number of elements of the value
      (newtype xN (struct xR F..))    over a record branch  -> (struct xN F..)       a struct variant
    (the variant the value takes and, with arity 0..3, the array variants it does not take). The events serde reports for
    these shapes are the same as for the newtype shape (enum name, then the sequence / the fields): the expectation stays
    the specification's dval_typed whenever every tuple's arity matches its data; otherwise (an array of unions whose
    elements have different lengths) the model decides. `stats` counts the rewritten variants."""
    if stats is None:
        stats = {}
    def bump(k):
        stats[k] = stats.get(k, 0) + 1
    def walk(t, d):
        if not isinstance(t, list) or not t:
            return t
        h = t[0]
        if h == "option":
            if isinstance(d, list) and d and d[0] == "some":
                return ["option", walk(t[1], d[1])]
            return ["option", walk(t[1], None)]
        if h == "seq":
            first = d[1] if isinstance(d, list) and len(d) > 1 and d[0] == "seq" else None
            return ["seq", walk(t[1], first)]
        if h == "map":
            first = None
            if isinstance(d, list) and len(d) > 1 and d[0] == "map" and isinstance(d[1], list) and len(d[1]) == 2:
                first = d[1][1]
            return ["map", t[1], walk(t[2], first)]
        if h == "struct":
            dv = {}
            if isinstance(d, list) and d and d[0] == "struct":
                for f in d[1:]:
                    if isinstance(f, list) and len(f) == 2:
                        dv[f[0]] = f[1]
            return ["struct", t[1]] + [[f[0], walk(f[1], dv.get(f[0]))] for f in t[2:]]
        if h == "enum":
            taken, payload = None, None
            if isinstance(d, list) and len(d) == 3 and d[0] == "enum":
                taken, payload = d[1], d[2]
            out = ["enum", t[1]]
            for v in t[2:]:
                if not (isinstance(v, list) and v[0] == "newtype" and isinstance(v[2], list)):
                    out.append(v)
                    continue
                inner = v[2]
                mine = payload if v[1] == taken else None
                if inner[0] == "seq":
                    if mine is not None and isinstance(mine, list) and mine[0] == "seq":
                        bump("tuple-variant-taken")
                        out.append(["tuple", v[1]] + [walk(inner[1], e) for e in mine[1:]])
                    elif mine is None:
                        bump("tuple-variant-other")
                        k = rng.randint(0, 3) if rng is not None else 2
                        out.append(["tuple", v[1]] + [walk(inner[1], None)] * k)
                    else:
                        out.append(v)
                elif inner[0] == "struct":
                    bump("struct-variant-taken" if mine is not None else "struct-variant-other")
                    w = walk(inner, mine)
                    out.append(["struct", v[1]] + w[2:])
                else:
                    out.append(["newtype", v[1], walk(inner, mine)])
            return out
        return t
    return walk(t, d)
