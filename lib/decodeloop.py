"""C05 / C17, reader side of compression: reader/decompression.rs (hook H4) against the model
coq/model/DecodeLoop.v -- the end-of-block check replayed through the extracted model (same decoder requests,
same decision), validation of `stream_decoder_contract` on the real decoders (in situ on the H4 traces, and
directly through the harness command dprobe), valid and damaged blocks through small BufReader capacities and
chunked sources. Used by p_C05.run (valid blocks) and p_C17.run (damaged blocks)."""
import re
import common as C
import gen as G
import cont
import containercodec
from codecloop import payload, zz, read_zz

STREAM_CODECS = ["(deflate default)", "(deflate 1)", "(bzip2 default)", "(xz default)", "(zstandard default)"]
CAPS = [1, 2, 7, 64, 0]                      # 0 = the default of std (8192)
MODES = ["slice", "(chunks 1)", "(chunks 2)", "(chunks 7)"]
# the clauses of DecodeLoop.stream_decoder_contract (+ the sanitation the model applies to any answer)
CLAUSES = ["window", "dc_prefix", "dc_no_error", "dc_progress", "dc_end", "dc_trailing"]
MSG = {
    "Decompression error when driving decompressor to end": "decoder-err",
    "There's decompressed data left in the": "leftover",
    "There's data left in the block after deserializing it entirely": "take-left",
}

def fam(c):
    return cont.codec_family(c)

def schema_of(kind):
    h = cont.History.__new__(cont.History)
    h.schema = G.schema_sx([G.Node("null" if kind == "nulls" else "bytes")])
    return h.schema

def datum(p):
    return zz(len(p)) + p

class Payload:
    """the blocks of one file: each a list of datums (bytes payloads, or None for zero-byte datums of schema null)"""
    def __init__(self, name, kind, blocks):
        self.name, self.kind, self.blocks = name, kind, blocks
        self.schema = schema_of(kind)
    def data(self, bi):
        return b"".join(b"" if v is None else datum(v) for v in self.blocks[bi])
    def ops(self):
        out = []
        for bi, b in enumerate(self.blocks):
            out.append("(push %s %d)" % (C.hx(self.data(bi)), len(b)))
            out.append("finish")
        return " ".join(out)
    def expected(self):
        return [v for b in self.blocks for v in b]

def payloads(rng, tier):
    ps = [
        Payload("small", "bytes", [[b"hello hello hello hello", b"abc", b"z" * 40]]),
        Payload("nulls", "nulls", [[None, None, None], [None]]),
        Payload("two-blocks", "bytes", [[payload(rng, "rand", 300), payload(rng, "text", 2000)], [b"", payload(rng, "zero", 700)]]),
        Payload("empty-bytes", "bytes", [[b"", b""]]),
    ]
    if tier != "quick":
        ps.append(Payload("big", "bytes", [[payload(rng, "rand", 9000), payload(rng, "text", 20000), payload(rng, "zero", 8192)]]))
    return ps

def write_files(pls, codecs):
    lines, meta = [], []
    for c in codecs:
        for p in pls:
            lines.append("cw %s %s %d %s vec (meta) %s" % (p.schema, c, 1 << 30, C.hx(cont.SYNC), p.ops()))
            meta.append((c, p))
    res = C.run_parallel(C.AVRODRIVE, lines)
    files, bad = [], []
    for (c, p), line, r in zip(meta, lines, res):
        w = cont.parse_cw(r)
        if w is None or w.get("build_err") or any(x != "ok" for x, _ in w["ops"]):
            bad.append({"impl_case": line[:3000], "what": "writing a %s file failed" % c, "impl": r[:300]})
            continue
        f = w["sink"]
        pos = w["built"]
        blocks = []
        ok = True
        try:
            for bi in range(len(p.blocks)):
                start = pos
                cnt, pos = read_zz(f, pos)
                size, pos = read_zz(f, pos)
                blocks.append({"start": start, "count": cnt, "size": size, "data_at": pos, "z": f[pos:pos + size]})
                pos += size + 16
                ok = ok and cnt == len(p.blocks[bi]) and f[pos - 16:pos] == cont.SYNC
        except IndexError:
            ok = False      # the file ends before the blocks that were pushed and flushed
        if not ok or pos != len(f):
            bad.append({"impl_case": line[:3000], "what": "unexpected file layout: %d blocks of %r values were pushed and flushed, the file holds %r behind its %d-byte header (%d bytes)" % (
                len(p.blocks), [len(b) for b in p.blocks], [b["count"] for b in blocks], w["built"], len(f) - w["built"])})
            continue
        files.append({"codec": c, "payload": p, "file": f, "hdr": w["built"], "blocks": blocks, "wline": line})
    return files, bad

# ---------------------------------------------------------------- parsing crt
def parse_crt(res):
    """-> None | dict(open_err) | dict(calls=[dict(item=('ok', text)|('eof',)|('err', cls, msg), events=[...])])"""
    p = C.parse_sx(res)
    if not p or not isinstance(p[0], list):
        return None
    p = p[0]
    if p[0] == "open-err":
        return {"open_err": True}
    if p[0] != "ok":
        return None
    calls = []
    for c in p[3:]:
        if not isinstance(c, list) or c[0] != "call":
            return None
        it = c[1]
        if it == "eof":
            item = ("eof",)
        elif it[0] == "ok":
            item = ("ok", C.show_sx(it[1]))
        elif it[0] == "err":
            item = ("err", it[1], C.unhex(it[2]).decode("utf-8", "replace") if len(it) > 2 else "")
        else:
            item = (C.show_sx(it),)
        evs = []
        for e in c[2:]:
            evs.append((e[0],) + tuple(None if v == "err" else int(v) for v in e[1:]))
        calls.append({"item": item, "events": evs})
    return {"calls": calls}

def item_value(item):
    """the payload of an ok item: bytes, or None for the unit of schema null"""
    m = re.search(r"bytes x([0-9a-f]*)", item[1])
    if m:
        return bytes.fromhex(m.group(1))
    return None

def crate_decision(item):
    if item[0] == "err":
        for k, v in MSG.items():
            if k in item[2]:
                return v
    return "ok"

# ---------------------------------------------------------------- blocks of a trace
def split_blocks(calls):
    """-> list of blocks: dict(size, cap, reads=[(req, prod, left, in_end_call_before_end)], end=(buffered, read, left)|None,
    end_item=item of the call that made the check, limit_before_end, end_reads=[(req, prod, left)])"""
    blocks, cur = [], None
    for c in calls:
        pending = []
        for e in c["events"]:
            if e[0] == "start":
                cur = {"size": e[1], "cap": e[2], "reads": [], "end": None, "end_reads": [], "end_item": None}
                blocks.append(cur)
                pending = []
            elif e[0] == "read" and cur is not None:
                cur["reads"].append(e[1:])
                pending.append(e[1:])
            elif e[0] == "end" and cur is not None:
                cur["end"] = e[1:]
                cur["end_item"] = c["item"]
                # a BufReader::read makes at most one read of the decoder: the last one before the end event, when
                # nothing was buffered
                cur["end_reads"] = pending[-1:] if (e[1] == 0 and pending) else []
                k = len(cur["reads"]) - len(cur["end_reads"])
                cur["limit_before_end"] = cur["reads"][k - 1][2] if k > 0 else cur["size"]
                cur = dict(cur, closed=True)
                blocks[-1] = cur
    return blocks

def end_model_line(b):
    ans = " ".join("err" if prod is None else "(%d %d)" % (prod, max(0, b["limit_before_end"] - left)) for (req, prod, left) in b["end_reads"])
    return "decend %d %d %d (%s)" % (b["cap"], b["end"][0], b["limit_before_end"], ans)

def compare_end(b, mres, where, line, diffs, stats):
    """the model's end-of-block check against the crate's on one recorded state"""
    m = C.parse_sx(mres)
    m = m[0] if m else ["bad"]
    if m[0] != "ok":
        diffs.append({"impl_case": line, "model_case": end_model_line(b), "what": "%s: the model of the end-of-block check did not run: %s" % (where, mres[:200])})
        return
    decision, wants, unused, lim_after, before_fix = m[1], [int(w) for w in m[2][1:]], int(m[3]), int(m[4]), m[5]
    real_wants = [r[0] for r in b["end_reads"]]
    crate = crate_decision(b["end_item"])
    stats["end_checks"] += 1
    stats["end_decisions"][crate] = stats["end_decisions"].get(crate, 0) + 1
    if before_fix != crate:
        stats["before_fix_would_differ"] += 1
    why = None
    if wants != real_wants:
        why = "the model's check asks the decoder for %s bytes, the crate asked for %s (capacity %d, %d buffered)" % (wants, real_wants, b["cap"], b["end"][0])
    elif unused != 0:
        why = "the model's check made fewer decoder reads than the crate"
    elif decision != crate:
        why = "the model's check decides %s, the crate %s (%s)" % (decision, crate, b["end_item"][2][:80] if b["end_item"][0] == "err" else b["end_item"][0])
    elif decision != "decoder-err" and lim_after != b["end"][2]:      # after Err the Take is not looked at again (the reader is Broken)
        why = "Take limit after the check: model %d, crate %d" % (lim_after, b["end"][2])
    if why:
        diffs.append({"impl_case": line, "model_case": end_model_line(b), "what": "%s: %s" % (where, why), "end_event(buffered,read,limit)": list(b["end"])})

def check_trace_contract(b, zlen, xlen, junk, where, line, diffs, stats):
    """stream_decoder_contract on the decoder reads of one block as the crate made them (lengths only: the bytes are
    judged by the values read back); a = z ++ junk (junk = 0: the complete stream, junk < 0: the stream cut)"""
    total = 0
    prev_left = b["size"]
    bad = []
    for i, (req, prod, left) in enumerate(b["reads"]):
        stats["reads"] += 1
        if left > prev_left:
            bad.append(("window", "read %d: the Take limit grew (%d -> %d)" % (i, prev_left, left)))
        if prod is None:
            if junk == 0:
                bad.append(("dc_no_error", "read %d (%d bytes requested) failed on the complete stream" % (i, req)))
            prev_left = left
            continue
        if prod > req:
            bad.append(("window", "read %d: %d bytes produced for %d requested" % (i, prod, req)))
        total += prod
        consumed = b["size"] - left
        if total > xlen:
            bad.append(("dc_prefix", "read %d: %d bytes produced in total, the data has %d" % (i, total, xlen)))
        if junk == 0 and prod == 0 and req > 0 and total < xlen:
            bad.append(("dc_progress", "read %d returned 0 after %d of %d bytes" % (i, total, xlen)))
        if junk >= 0 and prod == 0 and req > 0 and consumed < zlen:
            bad.append(("dc_end", "read %d returned 0 with %d of %d compressed bytes consumed" % (i, consumed, zlen)))
        if junk > 0 and consumed > zlen:
            bad.append(("dc_trailing", "read %d: %d compressed bytes consumed, the stream has %d" % (i, consumed, zlen)))
        if junk == 0 and total == xlen and consumed < zlen:
            stats["lagging_reads"] += 1
        prev_left = left
    failed = set(c for c, _ in bad)
    for c in CLAUSES:
        if c not in failed:
            stats["clause_ok"][c] = stats["clause_ok"].get(c, 0) + 1
    for c, d in bad:
        stats["clause_bad"][c] = stats["clause_bad"].get(c, 0) + 1
        diffs.append({"impl_case": line, "what": "%s: decoder contract clause %s not met: %s" % (where, c, d), "reads(requested,produced,limit_left)": [list(r) for r in b["reads"][:12]]})

def new_stats():
    return {"end_checks": 0, "end_decisions": {}, "before_fix_would_differ": 0, "reads": 0, "lagging_reads": 0,
            "clause_ok": {}, "clause_bad": {}, "zero_reads_before_check": 0}

# ---------------------------------------------------------------- C05: valid blocks
def run_valid(rng, tier):
    violations, diffs, samples = [], [], []
    stats = new_stats()
    pls = payloads(rng, tier)
    files, bad = write_files(pls, STREAM_CODECS)
    violations.extend(bad)
    lines, meta = [], []
    for fl in files:
        n = len(fl["payload"].expected()) + 3
        for cap in CAPS:
            for mode in MODES:
                lines.append("crt %d %s %s any %d" % (cap, C.hx(fl["file"]), mode, n))
                meta.append((fl, cap, mode))
    res = C.run_parallel(C.AVRODRIVE, lines)
    mlines, mmeta = [], []
    for (fl, cap, mode), line, r in zip(meta, lines, res):
        p = fl["payload"]
        where = "%s %s capacity %d %s" % (fl["codec"], p.name, cap, mode)
        t = parse_crt(r)
        if t is None or t.get("open_err"):
            violations.append({"impl_case": line[:3000], "what": "%s: reading failed: %s" % (where, r[:300])})
            continue
        # (1) the property on the crate: exactly the values, then end of stream
        exp = p.expected()
        got = []
        why = None
        for c in t["calls"]:
            it = c["item"]
            if it[0] == "ok":
                got.append(item_value(it))
            elif it[0] == "eof":
                break
            else:
                why = "reader reported %s" % (it[:3],)
                break
        if why is None and got != exp:
            why = "%d values read back, %d written%s" % (len(got), len(exp), "" if len(got) != len(exp) else " (contents differ)")
        if why:
            violations.append({"impl_case": line[:3000], "what": "%s: a valid compressed file is not read back: %s" % (where, why), "writer_case": fl["wline"][:2000]})
        # (2) the end-of-block check, model vs crate; (3) the decoder contract on the reads the crate made
        blocks = split_blocks(t["calls"])
        if len(blocks) != len(fl["blocks"]) and not why:
            diffs.append({"impl_case": line[:3000], "what": "%s: %d blocks entered, the file has %d" % (where, len(blocks), len(fl["blocks"]))})
        for bi, b in enumerate(blocks[:len(fl["blocks"])]):
            fb = fl["blocks"][bi]
            if b["end"] is not None:
                mlines.append(end_model_line(b))
                mmeta.append((b, "%s block %d" % (where, bi), line[:3000]))
                if not [r for r in b["reads"] if r not in b["end_reads"]]:
                    stats["zero_reads_before_check"] += 1
            check_trace_contract(b, len(fb["z"]), len(p.data(bi)), 0, "%s block %d" % (where, bi), line[:3000], diffs, stats)
        if len(samples) < 3 and cap in (1, 7) and mode != "slice" and blocks:
            b = blocks[0]
            samples.append({"codec": fl["codec"], "payload": p.name, "capacity": cap, "source": mode, "block_size": b["size"],
                            "decoder_reads(requested,produced,take_limit_left)": [list(r) for r in b["reads"][:10]],
                            "end_check(buffered,read,take_limit_left)": list(b["end"]) if b["end"] else None})
    mres = C.run_parallel(C.AVROMODEL, mlines)
    for (b, where, line), mr in zip(mmeta, mres):
        compare_end(b, mr, where, line, diffs, stats)
    # (4) the WHOLE file through the model of the compressed-file reader (ContainerCodec.ccr_file, decoder replayed from the trace)
    wf = containercodec.compare([{"file": fl["file"], "cap": cap, "mode": mode, "ncalls": len(fl["payload"].expected()) + 3, "res": r,
                                  "where": "%s %s capacity %d %s" % (fl["codec"], fl["payload"].name, cap, mode)}
                                 for (fl, cap, mode), r in zip(meta, res)])
    diffs.extend(wf["diffs"])
    pr = run_dprobe(rng, tier, files)
    diffs.extend(pr["diffs"])
    notes = {"decode_side": {
        "files": len(files), "reader_runs": len(lines), "capacities": CAPS, "sources": MODES,
        "end_of_block_checks_replayed_through_model": stats["end_checks"], "crate_decisions": stats["end_decisions"],
        "checks_the_pre-8463ea9_test_would_decide_differently": stats["before_fix_would_differ"],
        "blocks_checked_without_any_earlier_decoder_read(zero-byte datums)": stats["zero_reads_before_check"],
        "decoder_reads": stats["reads"], "reads_after_which_all_data_was_out_but_the_stream_not_consumed(lag)": stats["lagging_reads"],
        "contract": "DecodeLoop.stream_decoder_contract on the reads the crate made (lengths) and on direct probes of the decoder types the crate uses (bytes): flate2/miniz_oxide, bzip2, xz2, zstd",
        "contract_clauses_validated(blocks meeting the clause)": stats["clause_ok"], "contract_clauses_failed": stats["clause_bad"],
        "direct_probes": pr["notes"]},
        "whole_file_reader_model_vs_crate(valid files)": wf["notes"]}
    return {"evaluations": len(lines) + len(mlines) + pr["evaluations"] + wf["evaluations"], "violations": violations, "diffs": diffs, "samples": samples, "notes": notes,
            "distinct": set((m[0]["codec"], m[0]["payload"].name, m[1], m[2]) for m in meta)}

# ---------------------------------------------------------------- the decoders themselves (dprobe)
def run_dprobe(rng, tier, files):
    """the decoder types the crate uses, driven directly: any request sizes, any chunking; complete, cut and extended streams"""
    diffs = []
    lines, meta = [], []
    wants_sets = [[1], [2], [7], [64], [1, 64, 3], [8192]]
    chunk_sets = [[1], [2], [7], [1 << 20]]
    for fl in files:
        p = fl["payload"]
        codec = fam(fl["codec"])
        for bi, fb in enumerate(fl["blocks"]):
            z, x = fb["z"], p.data(bi)
            cuts = sorted(set([0, 1, len(z) // 2, len(z) - 2, len(z) - 1]) & set(range(len(z))))
            variants = [("complete", z, len(z), 0)]
            variants += [("cut@%d" % m, z, m, m - len(z)) for m in cuts]
            variants += [("junk+1", z + b"\x55", len(z) + 1, 1), ("junk+5", z + bytes(rng.randrange(256) for _ in range(5)), len(z) + 5, 5),
                         ("twice", z + z, 2 * len(z), len(z))]
            for name, data, limit, junk in variants:
                for wants in wants_sets:
                    for ch in chunk_sets:
                        if tier == "quick" and name.startswith("cut") and (wants, ch) not in (([1], [1]), ([64], [7]), ([8192], [1 << 20])):
                            continue
                        if len(x) > 4000 and wants in ([1], [2]) :
                            continue
                        lines.append("dprobe %s %s %d (chunks %s) (wants %s) %d" % (codec, C.hx(data + cont.SYNC), limit, " ".join(map(str, ch)),
                                                                                   " ".join(map(str, wants)), len(x) + len(data) + 8))
                        meta.append((fl["codec"], p.name, bi, name, junk, len(z), x, wants, ch))
    res = C.run_parallel(C.AVRODRIVE, lines)
    ok = {c: 0 for c in CLAUSES}
    badc = {}
    lag = {}
    multi = {}
    cut_end = {}
    for (codec, pname, bi, name, junk, zlen, x, wants, ch), line, r in zip(meta, lines, res):
        p = C.parse_sx(r)
        p = p[0] if p else ["bad"]
        where = "%s %s block %d %s wants %s chunks %s" % (codec, pname, bi, name, wants, ch)
        if p[0] != "ok":
            diffs.append({"impl_case": line[:3000], "what": "%s: the probe did not run: %s" % (where, r[:200])})
            continue
        out = b""
        prev = 0
        bad = []
        ended = False
        for i, rd in enumerate(p[1:]):
            want, prod, cons, data = int(rd[1]), (None if rd[2] == "err" else int(rd[2])), int(rd[3]), C.unhex(rd[4])
            if cons < prev:
                bad.append(("window", "read %d: the consumed count went back" % i))
            prev = cons
            if prod is None:
                if name == "complete":
                    bad.append(("dc_no_error", "read %d (%d requested) failed on the complete stream" % (i, want)))
                continue
            if prod > want or prod != len(data):
                bad.append(("window", "read %d: %d bytes for %d requested" % (i, prod, want)))
            out += data
            if name == "twice":
                if not (out.startswith(x) or x.startswith(out)):
                    bad.append(("dc_prefix", "read %d: the output is not the data" % i))
                if (len(out) > len(x) or cons > zlen) and not ended:
                    multi[fam(codec)] = multi.get(fam(codec), 0) + 1     # a second stream inside the block is decoded too
                    ended = True
                continue
            if not x.startswith(out):
                bad.append(("dc_prefix", "read %d: the output so far (%d bytes) is not a prefix of the data (%d bytes)" % (i, len(out), len(x))))
            if name == "complete":
                if prod == 0 and len(out) < len(x):
                    bad.append(("dc_progress", "read %d returned 0 after %d of %d bytes" % (i, len(out), len(x))))
                if len(out) == len(x) and cons < zlen and not ended:
                    lag[fam(codec)] = lag.get(fam(codec), 0) + 1
            if junk >= 0 and prod == 0 and cons < zlen:
                bad.append(("dc_end", "read %d returned 0 with %d of %d compressed bytes consumed" % (i, cons, zlen)))
            if junk > 0 and cons > zlen:
                bad.append(("dc_trailing", "read %d: %d bytes consumed, the stream has %d" % (i, cons, zlen)))
            if prod == 0:
                ended = True
                if junk < 0:
                    cut_end[fam(codec)] = cut_end.get(fam(codec), 0) + 1   # a cut stream reported as ended
        failed = set(c for c, _ in bad)
        for c in CLAUSES:
            if c not in failed:
                ok[c] += 1
        for c, d in bad:
            badc[c] = badc.get(c, 0) + 1
            diffs.append({"impl_case": line[:3000], "what": "%s: decoder contract clause %s not met: %s" % (where, c, d)})
    notes = {"probes": len(lines), "request_sizes": wants_sets, "chunkings": chunk_sets,
             "streams": "complete; cut at 0, 1, half, len-2, len-1; followed by 1 / 5 other bytes; followed by itself (observation only)",
             "contract_clauses_validated(probes meeting the clause)": ok, "contract_clauses_failed": badc,
             "probes_where_all_data_was_out_before_the_stream_was_consumed(lag, by codec)": lag,
             "probes_of_a_stream_followed_by_itself_where_the_second_stream_was_decoded_too(by codec)": multi,
             "cut_streams_reported_as_ended_by_a_read_returning_0(by codec)": cut_end}
    return {"evaluations": len(lines), "diffs": diffs, "notes": notes}

# ---------------------------------------------------------------- C17: damaged blocks
def damage_variants(rng, fl):
    """-> list of (kind, file bytes, junk (for the contract: >0 bytes appended inside the size, <0 cut, 0 complete, None: do not judge))
    all on the FIRST block of the file"""
    f, fb = fl["file"], fl["blocks"][0]
    p = fl["payload"]
    head, z = f[:fb["start"]], fb["z"]
    tail = f[fb["data_at"] + fb["size"]:]          # sync marker of the block and the rest of the file
    cnt, size = fb["count"], fb["size"]
    def blk(c, s, body):
        return head + zz(c) + zz(s) + body + tail
    out = []
    if cnt >= 2:
        out.append(("count-lowered", blk(cnt - 1, size, z), 0))
    out.append(("count-raised", blk(cnt + 1, size, z), 0))
    for d in (1, 2):
        if size - d >= 0:
            out.append(("size-%d" % d, blk(cnt, size - d, z), -d))
    out.append(("size+1", blk(cnt, size + 1, z), None))            # the block swallows the first byte of its sync marker
    out.append(("garbage+1", blk(cnt, size + 1, z + bytes([rng.randrange(256)])), 1))
    out.append(("garbage+5", blk(cnt, size + 5, z + bytes(rng.randrange(256) for _ in range(5))), 5))
    out.append(("stream-twice", blk(cnt, 2 * size, z + z), None))
    out = [v + (None,) for v in out]
    if fam(fl["codec"]) == "snappy" and size >= 4:
        # 4th component: the bytes of the (damaged) block, for the model of the snappy arm (CodecLoop.snappy_decode)
        crc = z[-4:]
        b2 = z[:-4] + bytes([crc[0] ^ 0x10]) + crc[1:]
        out.append(("crc-flipped", blk(cnt, size, b2), None, b2))
        if crc[::-1] != crc:
            out.append(("crc-little-endian", blk(cnt, size, z[:-4] + crc[::-1]), None, z[:-4] + crc[::-1]))
        out.append(("payload-flipped", blk(cnt, size, bytes([z[0] ^ 0x01]) + z[1:]), None, None))
        # declared sizes shorter than the CRC: the block holds exactly that many bytes / the whole block follows anyway
        for n in (0, 1, 2, 3):
            out.append(("size-%d-bytes" % n, blk(cnt, n, z[:n]), None, z[:n]))
            out.append(("size-%d-then-block" % n, blk(cnt, n, z), None, z[:n]))
        # the size varint itself corrupted (first byte replaced; what follows is unchanged)
        sv = zz(size)
        for b in sorted(set([0x00, 0x02, 0x04, 0x06, 0x01, 0x03, 0x07, 0x7F, 0x80, 0x81, 0x86, 0xFF, rng.randrange(256)]) - {sv[0]}):
            g = head + zz(cnt) + bytes([b]) + sv[1:] + z + tail
            try:
                n2, at = read_zz(g, len(head) + len(zz(cnt)))
            except IndexError:
                n2, at = None, None
            known = g[at:at + n2] if n2 is not None and 0 <= n2 <= len(g) - at else None
            out.append(("size-byte-%02x" % b, g, None, known))
        # all of it on the LAST block too (nothing but the sync marker behind it)
        if len(fl["blocks"]) > 1:
            lb = fl["blocks"][-1]
            lhead, lz = f[:lb["start"]], lb["z"]
            for n in (0, 1, 2, 3):
                out.append(("last-size-%d-bytes" % n, lhead + zz(lb["count"]) + zz(n) + lz[:n] + cont.SYNC, None, None))
    return out

def run_damaged(rng, tier):
    violations, diffs, samples = [], [], []
    stats = new_stats()
    pls = payloads(rng, tier)
    files, bad = write_files(pls, STREAM_CODECS + ["snappy"])
    violations.extend(bad)
    lines, meta = [], []
    smodel = []
    wjobs = []
    caps = [1, 7, 0] if tier == "quick" else CAPS
    modes = ["slice", "(chunks 1)", "(chunks 7)"] if tier == "quick" else MODES
    for fl in files:
        n = len(fl["payload"].expected()) + 4
        for kind, g, junk, sblock in damage_variants(rng, fl):
            for cap in (caps if fam(fl["codec"]) != "snappy" else [0]):
                for mode in modes:
                    lines.append("crt %d %s %s any %d" % (cap, C.hx(g), mode, n))
                    meta.append((fl, kind, junk, cap, mode))
                    wjobs.append({"file": g, "cap": cap, "mode": mode, "ncalls": n, "where": "%s %s %s capacity %d %s" % (fl["codec"], fl["payload"].name, kind, cap, mode)})
                    if sblock is not None:
                        # the model of the snappy arm on the bytes of the damaged block: raw codec abstract (= the pair
                        # (data, compressed) of the block as written), CRC32 = the one the writer stored
                        z0 = fl["blocks"][0]["z"]
                        smodel.append((len(lines) - 1, "snappy %s %s %d %s" % (C.hx(fl["payload"].data(0)), C.hx(z0[:-4]), int.from_bytes(z0[-4:], "big"), C.hx(sblock))))
    res = C.run_parallel(C.AVRODRIVE, lines)
    # the WHOLE damaged file through the model of the compressed-file reader (ContainerCodec.ccr_file, decoder replayed from the trace)
    for j, r in zip(wjobs, res):
        j["res"] = r
    wf = containercodec.compare([j for j in wjobs if "(panic" not in j["res"] and "(crash" not in j["res"]])
    mlines, mmeta = [], []
    dist = {}
    accepted = {}
    for (fl, kind, junk, cap, mode), line, r in zip(meta, lines, res):
        p = fl["payload"]
        where = "%s %s %s capacity %d %s" % (fl["codec"], p.name, kind, cap, mode)
        if "(panic" in r or "(crash" in r:
            violations.append({"impl_case": line[:3000], "what": "%s: the reader panicked or crashed: %s" % (where, r[:300])})
            continue
        if r.strip() == "(budget)":
            continue        # the harness' recording visitor gave up (> 2M recorded elements in one value): skipped
        t = parse_crt(r)
        if t is None or t.get("open_err"):
            violations.append({"impl_case": line[:3000], "what": "%s: the (valid) header was rejected: %s" % (where, r[:300])})
            continue
        exp = p.expected()
        got, err = [], None
        for c in t["calls"]:
            it = c["item"]
            if it[0] == "ok":
                if err is None:
                    got.append(item_value(it))
            elif it[0] == "err" and err is None:
                err = it
        zero_byte = p.kind == "nulls" or all(len(datum(v)) == 0 for b in p.blocks for v in b if v is not None and False)
        key = "%s/%s" % (kind, "err" if err else "clean")
        dist[key] = dist.get(key, 0) + 1
        # only genuine values, in order, before the first error
        judge_values = not (kind == "count-raised" and p.kind == "nulls") and kind not in ("stream-twice", "payload-flipped")
        if judge_values and got != exp[:len(got)]:
            violations.append({"impl_case": line[:3000], "what": "%s: a value that was not written (or out of order) was yielded before the error" % where, "impl": r[:400]})
        # the damage is reported
        must_err = not (p.kind == "nulls" and kind in ("count-lowered", "count-raised")) and kind != "stream-twice"
        if kind == "stream-twice" and not err:
            accepted[fam(fl["codec"])] = accepted.get(fam(fl["codec"]), 0) + 1
        if must_err and not err:
            violations.append({"impl_case": line[:3000], "what": "%s: the damage was not detected (no error in %d calls)" % (where, len(t["calls"])), "impl": r[:400]})
        # model vs crate on every end-of-block check made; decoder contract on the first block's reads
        blocks = split_blocks(t["calls"])
        for bi, b in enumerate(blocks):
            if b["end"] is not None:
                mlines.append(end_model_line(b))
                mmeta.append((b, "%s block %d" % (where, bi), line[:3000]))
        if blocks and junk is not None and fam(fl["codec"]) != "snappy":
            fb = fl["blocks"][0]
            check_trace_contract(blocks[0], len(fb["z"]), len(p.data(0)), junk, "%s block 0" % where, line[:3000], diffs, stats)
        if len(samples) < 6 and err and cap == 1 and mode == "(chunks 1)" and kind in ("count-lowered", "garbage+1", "size-1") and blocks:
            b = blocks[0]
            samples.append({"damage": kind, "codec": fl["codec"], "payload": p.name, "error": err[2][:90],
                            "end_check(buffered,read,take_limit_left)": list(b["end"]) if b["end"] else None})
    mres = C.run_parallel(C.AVROMODEL, mlines)
    for (b, where, line), mr in zip(mmeta, mres):
        compare_end(b, mr, where, line, diffs, stats)
    # snappy arm, model vs crate: the model rejects the block <=> the crate reports an error before yielding any value
    sres = C.run_parallel(C.AVROMODEL, [ml for _, ml in smodel])
    for (i, ml), mr in zip(smodel, sres):
        pm = C.parse_sx(mr)
        pm = pm[0] if pm else ["bad"]
        fl, kind, junk, cap, mode = meta[i]
        where = "%s %s %s %s" % (fl["codec"], fl["payload"].name, kind, mode)
        if pm[0] != "ok":
            diffs.append({"impl_case": lines[i][:3000], "model_case": ml[:3000], "what": "%s: the snappy model did not run: %s" % (where, mr[:200])})
            continue
        model_ok = isinstance(pm[2], list) and pm[2][0] == "ok"
        t = parse_crt(res[i])
        if t is None or t.get("open_err") or not t["calls"]:
            continue            # reported above
        first = t["calls"][0]["item"]
        stats["snappy_model_checks"] = stats.get("snappy_model_checks", 0) + 1
        if model_ok != (first[0] != "err") and not (model_ok and fl["payload"].kind == "nulls"):
            diffs.append({"impl_case": lines[i][:3000], "model_case": ml[:3000],
                          "what": "%s: snappy arm: the model %s the block, the crate's first item is %s" % (where, "accepts" if model_ok else "rejects", first[:2])})
        if not model_ok and first[0] != "err":
            violations.append({"impl_case": lines[i][:3000], "what": "%s: a snappy block the model rejects (shorter than its CRC / wrong CRC) was not reported as an error" % where, "impl": res[i][:300]})
    notes = {"decode_side_damage": {
        "files": len(files), "reader_runs": len(lines),
        "damage_kinds": "count lowered / raised, size -1 / -2 / +1, 1 / 5 other bytes behind the stream inside the size, the stream twice (observation), snappy: CRC bit flip, little-endian CRC, payload bit, declared size 0 / 1 / 2 / 3 (block of that many bytes, or the whole block following; first and last block), first byte of the size varint replaced by 13 values",
        "snappy_blocks_judged_by_the_model(CodecLoop.snappy_decode)": stats.get("snappy_model_checks", 0),
        "end_of_block_checks_replayed_through_model": stats["end_checks"], "crate_decisions": stats["end_decisions"],
        "checks_the_pre-8463ea9_test_would_decide_differently": stats["before_fix_would_differ"],
        "contract_clauses_validated(blocks meeting the clause)": stats["clause_ok"], "contract_clauses_failed": stats["clause_bad"],
        "blocks_holding_the_stream_twice_read_without_error(by codec)": accepted},
        "whole_file_reader_model_vs_crate(damaged files)": wf["notes"]}
    diffs.extend(wf["diffs"])
    return {"evaluations": len(lines) + len(mlines) + wf["evaluations"], "violations": violations, "diffs": diffs, "samples": samples, "notes": notes,
            "distribution": dist, "distinct": set((m[0]["codec"], m[0]["payload"].name, m[1], m[3], m[4]) for m in meta)}
