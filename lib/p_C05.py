"""C05 -- container round trip for every codec, level, block size, flush pattern, reader kind."""
import random
import common as C
import gen as G
import cont
import codecloop
import decodeloop
import containercodec

MODEL_TARGETS = ["model/Container.vo", "model/CodecLoop.vo", "model/DecodeLoop.vo", "model/ContainerCodec.vo", "model/ContainerReplay.vo"]
COQ_TARGETS = ["props/C05.vo", "proofs/ConstsTie.vo", "proofs/ContainerReplayProofs.vo"]
THEOREMS = [("C05", ["C05_roundtrip_null", "C05_roundtrip_file", "C05_any_buffered_reader", "C05_build", "C05_blocks", "C05_any_partition",
                     "C05_loop_returns_full_stream", "C05_loop_returns_valid_stream", "C05_loop_any_classification",
                     "C05_contract_inhabited", "C05_loop_before_fix_refuted",
                     "C05_snappy_framing_roundtrip", "C05_snappy_crc_checked", "C05_snappy_short_block",
                     "C05_compressed_block_read_back", "C05_compressed_block_read_back_any_values", "C05_snappy_block_read_back",
                     "C05_decoder_model_runs", "C05_end_check_before_fix_refuted", "C05_decoder_contract_inhabited", "C05_toy_block_read_back",
                     "C05_compressed_file_read_back", "C05_snappy_file_read_back"])]
PROOF_FILES = ["proofs/ContainerReadProofs.v", "proofs/ContainerProofs.v", "proofs/ContainerFinal.v", "proofs/RoundTripProofs.v", "proofs/CodecLoopProofs.v", "proofs/ContainerHeaderProofs.v", "proofs/ContainerChunkProofs.v", "proofs/DecodeLoopProofs.v", "proofs/DecodeLoopDe.v", "proofs/DecodeLoopToy.v", "proofs/DecodeLoopDePrefix.v", "proofs/ContainerCodecProofs.v", "proofs/ContainerReplayProofs.v", "props/C05.v"]
TRUSTED_BASE = [
    "Coq 8.16.1 kernel; no axioms (Print Assumptions: closed)",
    "hand-written model/Container.v of writer/mod.rs and reader/mod.rs (block compressor abstract in the writer; the reader model is the null codec), tied by the correspondence runs of C15/C16/C17 (per-call outcomes, sink bytes, item sequences)",
    "hand-written model/CodecLoop.v of writer/compression.rs (the three grow-the-buffer encode loops, snappy framing with the reader-side CRC check), tied to the crate by hook H3 (hooks/H3.diff: overridable start length of the output buffer, per-call trace): every recorded trace is replayed through the extracted model loop, which must make the same calls (input length, window length), take the same decision and hand on the same bytes",
    "the compression libraries (flate2/miniz_oxide, bzip2, snap, xz2, zstd) are ABSTRACT: the loop theorems hold for every library meeting CodecLoop.stream_contract_valid (resp. stream_contract); each clause is validated on the real traces of every run (coverage.notes.codec_loops), not proved of the libraries",
    "hand-written model/DecodeLoop.v of reader/decompression.rs (BufReader(capacity) over an abstract streaming decoder over Take(block size); std's BufReader fill/bypass discipline; the end-of-block check: 1-byte read, Take limit; snappy block), tied to the crate by hook H4 (hooks/H4.diff: overridable BufReader capacity, trace of every decoder read and of the end-of-block check): every recorded check is replayed through the extracted model (DecodeLoop.replay_end: same decoder request, same decision, same Take limit afterwards). ABSTRACTION: values are decoded by De.de in slice mode on the decompressed bytes still to come and the BufReader state is advanced by the bytes taken (DecodeLoop.v header; C11 = de through any chunking equals de on the slice); the streaming decoders are ABSTRACT: the theorems hold for every decoder meeting DecodeLoop.stream_decoder_contract, whose clauses are validated on every run on the reads the crate made and on direct probes of the decoder types the crate uses (coverage.notes.decode_side), not proved of the libraries; the contract is inhabited (C05_decoder_contract_inhabited: the small lagging codec of DecodeLoop.v meets it for every input, cut and extension)",
    "hand-written model/ContainerCodec.v (ccr_file: the reader of WHOLE files with compressed blocks -- cr_open, then per block count / size varints, negative checks, block_open / block_run of DecodeLoop.v or snappy_run, end-of-block check, sync marker, the chunk plan threaded through the blocks), tied to the crate by running the extracted function on every compressed file the run reads through `crt` (lib/containercodec.py, OCaml command `ccr`): same bytes, same kind of source (slice / the same chunk plan), the value decoder cc_vdec for the schema text of the header (the text itself, read by the model: JsonRead.json_of_text -> Parse.parse_schema), the codec named in the header, and a REPLAY streaming decoder (model/ContainerReplay.v) that answers from the reads hook H4 recorded for each block (bytes produced or Err, compressed bytes consumed = difference of the Take limits; a block finds its reads by the bytes its Take holds and the chunk-plan state at its first byte); compared: schema text, user metadata, the values before the first error (borrows erased), the way the run ends (end of stream; class of the first error: negative count/size, block cannot be opened, decoder Err / decompressed data left / Take not exhausted in the end check, sync mismatch, other = value error | unreadable count/size | short marker), under both extreme read policies (every refill a fill_buf; every refill of >= capacity outstanding bytes a bypassing read). TRUSTED in this tie: hook H4 records lengths only -- the BYTES of each read are the block's data decoded by the compression library on its own (harness `decode`, cross-checked against Python's zlib / bz2 / lzma on complete streams) sliced by the produced counts; snap::raw and CRC32 enter as tables (harness `decode snappy`, zlib.crc32); the runner's own walk of the file layout (block offsets for the replay keys). NOT tied by it: the request sizes on the model's real path (policy parameter; the end check's request is tied by `decend`), message texts, the per-call pretend_eof logic after the first error, runs too long for the list-based model (skipped and counted in coverage.notes), null-codec files (Container.cr_run). One tolerance (coverage.notes ... read_ahead): a decoder Err that reaches the crate's deserializer inside a value whose bytes were all out (read_slice calls fill_buf first, also for 0 bytes) fails that value in the crate; the model delivers it and meets the same Err afterwards",
    "OCaml driver commands codecloop / snappy / decend / ccr (parsing and printing only; ccr also slices the blocks' bytes out of the file for the replay keys), harness commands crt / decode / dprobe (decblock.rs), codecloop (push_serialized + finish_block on one container writer; independent oracles: one library call with a large buffer, the library's own decoder; zlib.crc32 of Python for the snappy trailer)",
    "Rust harness (container writer/reader driver, chunk-controlled BufRead)",
]
ASSUMPTIONS = [
    "files written through scheduled sinks (lib/cont.py scheduled_runs: partial writes, gathering / default write_vectored, interruptions): writing must succeed and the file must equal the accept-everything sink's (read back above) or read back on its own; the writer model runs under the same schedule for the null codec (C16_writer_schedule is the proved statement)",
    "proved (ContainerCodecProofs.v, model/ContainerCodec.v): WHOLE FILES with compressed blocks -- a file written by the writer model with any block codec function enc (any values, block layout, flushes, closing op, sink schedule) read by the compressed-file reader (cr_open, then per block count / size / BufReader(cap) over the decoder over Take / end check / sync marker) yields the written metadata, exactly the written values, then end of stream, for every decoder meeting the contract on the blocks the session cuts, every capacity >= 1, every read policy, from a slice and from ANY chunking of the source (C05_compressed_file_read_back); the snappy layout as an instance (C05_snappy_file_read_back); computed two-block examples incl. damaged variants (ToyExample)",
    "proved (DecodeLoopProofs.v, DecodeLoopDe.v): for every streaming decoder meeting stream_decoder_contract ((i) the output of a prefix is a prefix, no error and no early 0 on the complete stream, (iii) only a read returning 0 guarantees the stream was consumed to its end, (iv) bytes behind the end are not consumed), every BufReader capacity >= 1, every chunking of the source (slice or chunk plan) and every read policy of the deserializer: a block laid out as the writer does (complete stream of the encodings of the count values, sync marker) yields exactly the values, the end-of-block check passes -- also with zero-byte datums (decoder never read before the check) and lagging decoders -- and the source is left behind the marker (C05_compressed_block_read_back, with De.de as value decoder; _any_values for any value decoder); snappy blocks read back (C05_snappy_block_read_back); the check of commit 8463ea9^ is refuted on concrete runs (C05_end_check_before_fix_refuted). the contract is inhabited by a concrete lagging decoder (C05_decoder_contract_inhabited). NOT proved: that any REAL decoder meets the contract; the deserializer re-modelled over the BufReader (abstraction above); the per-call pretend_eof logic of deserialize_seed_next for compressed files (the whole-file reader of model/ContainerCodec.v works at block granularity)",
    "tested, not proved: that ccr_file is what the crate does on whole compressed files -- the extracted function run next to the crate on every compressed file of the run with the decoder replayed from the H4 trace (valid files: decode-side payloads x capacities {1,2,7,64,8192} x sources {slice, 1, 2, 7 bytes per fill_buf}, and a sample of the histories' files with real schemas under random capacities and chunk plans): same schema text, metadata, values, end of stream (coverage.notes whole_file_reader_model_vs_crate)",
    "proved (CodecLoopProofs.v): for every library meeting stream_contract_valid, every input, every output buffer of length >= 1 left by previous blocks (empty: START >= 1), each of the three encode loops (deflate, bzip2, xz status classifications as in the crate) ends with StreamEnd and a true assertion -- no Err, no panic --, within |x| + obound x + 1 library calls, and hands a valid complete stream for x to the block writer; under stream_contract (the stream is a function enc of the input) exactly enc x; final buffer length = initial * 2^(calls-1); if 'not finished' is only answered with a full window: calls = 1 or initial * 2^(calls-2) <= |stream|; the classifications before ef7c759 are refuted; the contract is inhabited; snappy framing round trips and rejects any other trailer. NOT modelled: usize overflow of the doubling, allocation failure, the zstandard/snappy libraries (one call each)",
    "observed by the run, reported in coverage.notes: miniz_oxide at level 1 does not meet the stronger contract (its stream depends on where the output windows ended; both streams decode) -- only stream_contract_valid applies to it",
    "proved: write-then-read = identity for the null codec -- every list of conforming values, every approx_block_size, every interleaving of serialize / push / finish_block, closing by finish_block, into_inner or drop, every sink schedule on which the calls return Ok; any partition into blocks reads back (C05_any_partition); the whole file incl. the header (C05_roundtrip_file: cr_open returns the metadata written) and through a BufRead with any chunking (C05_any_buffered_reader)",
    "decided on the crate for all six codecs and their levels: block sizes {0,1,2,17,64,4096,32767..65536,1 MiB}, payloads crossing the 32 KiB encode buffer and the 8 KiB BufReader (8189..8193, 32766, 32768, 40000, 70000 bytes, compressible and incompressible), zero-byte datums, explicit flushes and pushes, failing values; read back from a slice and through chunked readers (1, 2, 7, 4096 bytes per refill)",
]

def big_history(rng, kind):
    """payloads that cross the codecs' internal buffers: >32 KiB compressed blocks, zero-byte datums,
    sizes on 8 KiB BufReader boundaries"""
    h = cont.History.__new__(cont.History)
    h.rng = rng
    if kind == "nulls":
        h.nodes = [G.Node("null")]
        h.values = ["null"] * rng.choice([1, 2, 5])
    elif kind == "empty-records":
        h.nodes = [G.Node("record", name="E", fields=[])]
        h.values = ["(record)"] * rng.choice([1, 3])
    else:
        h.nodes = [G.Node("bytes")]
        vals = []
        for _ in range(rng.choice([1, 2, 3])):
            n = rng.choice([8189, 8190, 8191, 8192, 8193, 16384, 32766, 32768, 40000, 70000])
            if kind == "incompressible":
                b = bytes(rng.getrandbits(8) for _ in range(n))
            else:
                b = bytes([rng.randrange(4)]) * n
            vals.append("(bytes %s)" % C.hx(b))
        h.values = vals
    h.schema = G.schema_sx(h.nodes)
    return h

def zero_byte_histories(rng, tier):
    """values whose encoding is ZERO bytes long (null, a record without fields, records / arrays-free nestings of those): a
    block is then nothing but its object count. Every codec setting x schema x op patterns mixing pre-serialized pushes of
    several such values at once (an empty byte string with n > 0) with serialize calls and explicit flushes, closing by
    into_inner / drop / finish. -> [(history, ops, expected, codec, approx_block_size)]"""
    N = G.Node
    kinds = [
        ([N("null")], "null"),
        ([N("record", name="E", fields=[])], "(record)"),
        ([N("record", name="R", fields=[("a", 1), ("b", 2)]), N("null"), N("record", name="E", fields=[])], "(record null (record))"),
    ]
    out = []
    reps = 1 if tier == "quick" else 8
    k = rng.randrange(100)
    for _ in range(reps):
        for c in cont.CODECS:
            for nodes, val in kinds:
                k += 1
                h = cont.History.__new__(cont.History)
                h.rng = rng
                h.nodes = nodes
                nv = rng.choice([1, 2, 3, 6, 9])
                h.values = [val] * nv
                h.schema = G.schema_sx(nodes)
                ops, i = [], 0
                style = ["pushes-only", "mixed", "mixed", "push-all-at-once"][k % 4]
                while i < nv:
                    if style == "push-all-at-once":
                        m = nv - i
                    elif style == "pushes-only" or rng.random() < 0.5:
                        m = rng.randint(1, min(3, nv - i))
                    else:
                        m = 0
                    if m:
                        ops.append(("push", "(push x %d)" % m, list(range(i, i + m))))
                        i += m
                    else:
                        ops.append(("ser", None, [i]))      # presentation filled in once the specification oracle has answered
                        i += 1
                    if rng.random() < 0.3:
                        ops.append(("finish", "finish"))
                ops.append((lambda e: (e, e))(rng.choice(["into_inner", "drop", "into_inner", "finish"])))
                out.append((h, ops, list(range(nv)), c, rng.choice([0, 1, 64, 65536])))
    cont.prepare_all([h for h, *_ in out])
    res = []
    for h, ops, expected, c, b in out:
        assert all(s["canon"] == "x" for s in h.spec), "zero-byte value expected"
        ops = [(o[0], "(ser %s)" % h.spec[o[2][0]]["present"], o[2]) if o[0] == "ser" else o for o in ops]
        res.append((h, ops, expected, c, b))
    return res

def run(ctx):
    rng = random.Random(ctx["seed"] * 1000003 + 5)
    n = 120 if ctx["tier"] == "quick" else 4000
    nbig = 24 if ctx["tier"] == "quick" else 400
    hs = []
    for i in range(n + nbig):
        if i < n:
            h = cont.History(rng)
        else:
            h = big_history(rng, rng.choice(["nulls", "empty-records", "incompressible", "incompressible", "compressible"]))
        h.prepare()
        ops, expected = cont.make_ops(rng, h, allow_fail=rng.random() < 0.3, end=rng.choice(["into_inner", "drop", "into_inner"]))
        codec_sx = cont.CODECS[i % len(cont.CODECS)]
        bsz = rng.choice([0, 1, 2, 17, 64, 4096, 32768, 65536, 65535, 1 << 20])
        hs.append((h, ops, expected, codec_sx, bsz))
    hs.extend(zero_byte_histories(rng, ctx["tier"]))
    wl = [cont.cw_line(h, c, b, "vec", [], ops) for (h, ops, ex, c, b) in hs]
    wr = C.run_parallel(C.AVRODRIVE, wl)
    violations, diffs, samples, distinct = [], [], [], set()
    rl, rmeta = [], []
    for (h, ops, expected, c, b), line, res in zip(hs, wl, wr):
        p = cont.parse_cw(res)
        if p is None or p.get("build_err") or any(r != "ok" for (k, *_), (r, l) in zip(ops, p["ops"]) if k != "fail"):
            violations.append({"impl_case": line[:3000], "what": "writing failed", "impl": res[:300]})
            continue
        exp = [h.spec[i]["dany"] for i in expected]
        f = C.hx(p["sink"])
        for mode in ["slice", "(chunks 1)", "(chunks %d)" % rng.choice([2, 3, 7, 64, 4096]),
                     "(chunks %d %d %d)" % (rng.randint(1, 9), rng.randint(1, 9), rng.randint(1, 9000))]:
            if mode == "(chunks 1)" and len(p["sink"]) > 20000:
                continue
            rl.append("cr %s %s any %d" % (f, mode, len(exp) + 3))
            rmeta.append((line, mode, exp, c, b, h))
        distinct.add((h.schema, c, b, tuple(o[0] for o in ops)))
        if len(samples) < 5:
            samples.append({"codec": c, "approx_block_size": b, "ops": [o[0] for o in ops], "file_bytes": len(p["sink"])})
    rr = C.run_parallel(C.AVRODRIVE, rl)
    # the histories' files with compressed blocks (real schemas, several blocks, flushes): the WHOLE file through the model of the
    # compressed-file reader with the decoder replayed from the H4 trace, random BufReader capacity and source
    wjobs = []
    wmax = 70 if ctx["tier"] == "quick" else 1500
    rng_main, rng = rng, random.Random(ctx["seed"] * 1000003 + 505)
    for (h, ops, expected, c, b), line, res in zip(hs, wl, wr):
        p = cont.parse_cw(res)
        if c == "null" or p is None or p.get("build_err") or len(wjobs) >= wmax:
            continue
        f = p["sink"]
        small = len(f) < 3000
        fam = cont.codec_family(c)
        cap = 0 if fam == "snappy" else (rng.choice([1, 2, 7, 64, 0]) if small else rng.choice([64, 0, 0]))
        mode = rng.choice(["slice", "(chunks 1)", "(chunks 7)", "(chunks %d %d %d)" % (rng.randint(1, 9), rng.randint(1, 300), rng.randint(1, 9000))]) if small \
            else rng.choice(["slice", "(chunks 4096)", "(chunks %d %d)" % (rng.randint(1, 9), rng.randint(1000, 9000))])
        wjobs.append({"file": f, "cap": cap, "mode": mode, "ncalls": len(expected) + 3,
                      "where": "%s approx_block_size %d (%d bytes, %d values) capacity %d %s" % (c, b, len(f), len(expected), cap, mode)})
    wf = containercodec.compare(wjobs)
    rng = rng_main
    # model of the reader (null codec) on the same files
    mlines, midx = [], []
    for i, (line, (wline, mode, exp, c, b, h)) in enumerate(zip(rl, rmeta)):
        if c == "null":
            mlines.append(line + " " + h.schema)
            midx.append(i)
    mm = C.run_parallel(C.AVROMODEL, mlines)
    for i, rm in zip(midx, mm):
        a = cont.parse_cr(rr[i])
        m = cont.parse_cr(rm)
        if a.get("items") != m.get("items"):
            diffs.append({"impl_case": rl[i][:3000], "model_case": mlines[midx.index(i)][:3000], "impl": rr[i][:500], "model": rm[:500]})
    for line, res, (wline, mode, exp, c, b, h) in zip(rl, rr, rmeta):
        pr = cont.parse_cr(res)
        if pr.get("open_err") or "items" not in pr:
            violations.append({"impl_case": wline[:3000], "what": "the written file cannot be opened (%s)" % mode, "reader": res[:300]})
            continue
        ok, k, why = cont.values_prefix_then_eof(pr["items"], exp, True)
        if not ok:
            violations.append({"impl_case": wline[:3000], "what": "read back (%s) differs from what was written: %s" % (mode, why),
                               "reader_case": line[:3000]})
    # ---- the same histories written through sinks that take the file in pieces (lib/cont.py scheduled_runs: k bytes per call, write_vectored
    # gathering across block header / data / sync marker -- a short write may end strictly inside any of the three -- or std's default;
    # 'interrupted' at call indexes of block flushes): writing succeeds and the file reads back (slice and chunked reader) as exactly
    # the written values. A file equal to the accept-everything sink's was read back above; one that differs is read back on its own
    from collections import Counter
    sdist = Counter()
    cand = []
    for i, ((h, ops, expected, c, b), line, res) in enumerate(zip(hs, wl, wr)):
        p = cont.parse_cw(res)
        if i < n and p is not None and not p.get("build_err") and not any(r != "ok" for (k, *_), (r, l) in zip(ops, p["ops"]) if k != "fail"):
            cand.append((i, p))
    rng.shuffle(cand)
    cand = cand[:(45 if ctx["tier"] == "quick" else 1000)]
    fz = C.run_parallel(C.AVRODRIVE, ["freeze " + hs[i][0].schema for i, _ in cand])
    scases = [{"h": hs[i][0], "ops": hs[i][1], "codec": hs[i][3], "bsz": hs[i][4], "meta": [], "start": None,
               "json": C.unhex(C.parse_sx(r)[0][2]), "bp": p, "i": i} for (i, p), r in zip(cand, fz)]
    sruns = cont.scheduled_runs(rng, scases, n_inject_bases=2, bad=False, singles=6, n_random=1)
    sq = []
    for r in sruns:
        c = scases[r["ci"]]
        pi = r["pi"]
        sink_kind = "%s, %s write_vectored" % (r["tag"], "gathering" if r["vectored"] else "default")
        sdist["written-through-scheduled-sink/" + ("gathering" if r["vectored"] else "default-write_vectored")] += 1
        if pi is None or pi.get("build_err") or any(rr_ != "ok" for (k, *_), (rr_, l) in zip(c["ops"], pi["ops"]) if k != "fail"):
            violations.append({"impl_case": r["line"][:3000], "what": "writing failed on a sink taking partial writes / reporting 'interrupted' (%s)" % sink_kind, "impl": r["res"][:300]})
            continue
        d = cont.model_vs_run(r)
        if d:
            diffs.append(d)
        if pi["sink"] != c["bp"]["sink"]:
            sq.append((r, c, sink_kind))
    sq_lines = []
    for r, c, sink_kind in sq:
        for mode in ("slice", "(chunks %d)" % rng.choice([1, 3, 7, 64])):
            sq_lines.append(("cr %s %s any %d" % (C.hx(r["pi"]["sink"]), mode, len(hs[c["i"]][2]) + 3), r, c, sink_kind, mode))
    for (line, r, c, sink_kind, mode), res in zip(sq_lines, C.run_parallel(C.AVRODRIVE, [x[0] for x in sq_lines])):
        h, ops, expected = hs[c["i"]][0], hs[c["i"]][1], hs[c["i"]][2]
        f, f0 = r["pi"]["sink"], c["bp"]["sink"]
        k0 = next((x for x in range(min(len(f), len(f0))) if f[x] != f0[x]), min(len(f), len(f0)))
        how = "the file has %d bytes instead of the %d the accept-everything sink gets, first difference at offset %d" % (len(f), len(f0), k0)
        pr = cont.parse_cr(res)
        if pr.get("open_err") or "items" not in pr:
            violations.append({"impl_case": r["line"][:3000], "what": "the file written through a sink taking partial writes (%s) cannot be opened (%s); %s" % (sink_kind, mode, how), "reader": res[:300]})
            continue
        ok, k, why = cont.values_prefix_then_eof(pr["items"], [h.spec[j]["dany"] for j in expected], True)
        if not ok:
            violations.append({"impl_case": r["line"][:3000], "what": "the file written through a sink taking partial writes (%s) does not read back (%s) as what was written: %s; %s" % (sink_kind, mode, why, how),
                               "reader_case": line[:3000]})
        else:
            diffs.append({"impl_case": r["line"][:3000], "what": "the file written through %s differs from the accept-everything sink's (both read back); %s" % (sink_kind, how)})
    n_sched = len(sruns) + sum(1 for r in sruns if r["rm"] is not None) + len(sq_lines)
    notes = {"whole_file_reader_model_vs_crate(files of the histories)": wf["notes"], "scheduled_sinks": dict(sdist)}
    diffs.extend(wf["diffs"])
    extra_eval = wf["evaluations"] + n_sched
    extra_distinct = set()
    for part in (codecloop.run_loops, codecloop.run_snappy, codecloop.run_oneshot, decodeloop.run_valid):
        try:
            r = part(random.Random(ctx["seed"] * 7919 + 55), ctx["tier"])
        except Exception as e:
            # a part that cannot even evaluate what the crate produced must not hide what the other parts found
            import traceback
            diffs.append({"what": "%s.%s did not run to its end: %r" % (part.__module__, part.__name__, e), "trace": traceback.format_exc()[-1500:]})
            continue
        violations.extend(r["violations"])
        diffs.extend(r["diffs"])
        notes.update(r["notes"])
        extra_eval += r["evaluations"]
        samples = r.get("samples", [])[:3] + samples
        extra_distinct |= r.get("distinct", set())
    return {"evaluations": len(wl) + len(rl) + extra_eval, "distinct_nontrivial": len(distinct) + len(extra_distinct), "notes": notes,
            "rule": "histories (values, failing values, pushes, finish_block, into_inner/drop) x 12 codec/level settings (all six codecs) x "
                    "approx_block_size in {0,1,2,17,64,4096,32768,65535,65536,2^20}, plus payloads that cross internal buffers (8189..70000 "
                    "incompressible/compressible bytes, zero-byte datums); directed: zero-byte values (null, record without fields, record of those) x every codec setting x "
                    "{pre-serialized pushes only (an empty byte string announcing 1..3 values), all values in one push, pushes mixed with serialize calls} x explicit flushes x "
                    "closing by into_inner / drop / finish_block; a sample of the histories also written through sinks that take the file in pieces (lib/cont.py scheduled_runs: "
                    "k bytes per call for k in {1,2,3} and k chosen against the blocks' header / data lengths, write_vectored gathering across block header / data / sync marker (short writes ending "
                    "strictly inside any of them) or std's default, irregular sizes, chopped file header, 'interrupted' at call indexes of block flushes): writing succeeds, file = the "
                    "accept-everything sink's (= the writer model's under the same schedule, null codec), any file that differs read back on its own; every file read back from a slice and from chunked readers "
                    "(1 byte per fill_buf, small and irregular chunks): exactly the written values in order then end of stream; reader model vs crate (null codec); "
                    "encode loops (hook H3): codecs {deflate, bzip2, xz} x levels x START in {1,2,64,4096,32768} x inputs {empty, 1 byte, random / constant / text payloads "
                    "of START-1..START+1, 2*START-1..2*START+1, 4*START-1..4*START+1 bytes (text x3)} on a fresh codec state, plus sequences of blocks on one codec state "
                    "(big, 1 byte, empty, text, bigger; empty, empty, growing, big, 1 byte): every trace replayed through the extracted model loop (same calls, decision, bytes), "
                    "every clause of stream_contract_valid checked on it, block = one-call stream of the library, library decoder gives the input back; snappy: trailer = "
                    "big-endian zlib.crc32, model framing = crate bytes, bit-flipped and little-endian trailers rejected by crate and model; snappy/zstandard codec state reused big then small; "
                    "decode side (hook H4): codecs {deflate default/1, bzip2, xz, zstandard} x payloads {3 small datums, zero-byte datums in 2 blocks, 2 blocks of 300..2000 byte datums, empty bytes} x BufReader capacity {1,2,7,64,8192} x source {slice, 1, 2, 7 bytes per fill_buf}: values read back, every end-of-block check replayed through the extracted model, "
                    "stream_decoder_contract checked on the reads the crate made and on direct probes of the decoders (request sizes {1,2,7,64,mixed,8192} x chunkings {1,2,7,all} x stream complete / cut / followed by other bytes)",
            "samples": samples, "violations": violations, "model_diffs": diffs}
