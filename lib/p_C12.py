"""C12 -- skipping a value consumes exactly the bytes that reading it would."""
import random
import common as C
import gen as G
import codec, wrap, targets
from present import type_name

MODEL_TARGETS = ["model/De.vo", "spec/Denote.vo"]
COQ_TARGETS = ["props/C12.vo"]
THEOREMS = [("C12", ["C12_skip", "C12_skip_as_read", "C12_struct_lacking_fields", "C12_fewer_fields_agree", "C12_map_ignored_values", "C12_union_unit_variant", "C12_blocks_jump"])]
PROOF_FILES = ["proofs/DeProofs.v", "proofs/DS1.v", "proofs/DS2.v", "proofs/DS3.v", "proofs/DS4.v", "proofs/DS5.v", "props/C12.v", "proofs/DS6.v"]
TRUSTED_BASE = [
    "Coq 8.16.1 kernel; no axioms (Print Assumptions: closed)",
    "spec/{AvroValue,Encoding,Denote,Wf}.v from the Avro specification: every legal encoding (any block split, negative counts with byte sizes) as encode_e of an evalue",
    "hand-written model/De.v, Reader.v of de/deserializer/** (incl. the ignored-any fast paths and skip_bytes) tied by the correspondence run",
    "extraction (ExtrOcamlBasic) + ocaml/driver.ml; Rust harness (recording visitors, serde's real IgnoredAny)",
]
ASSUMPTIONS = [
    "proved (slice mode): IgnoredAny on ANY node consumes exactly the encoding of the value, for every legal encoding, and leaves the reader in the same state as reading it (C12_skip, C12_skip_as_read); reader mode follows with C11_de (same outcome and consumed bytes for every chunking)",
    "the embedded forms are proved too: a struct target with ANY subset of the record's fields (C12_struct_lacking_fields, C12_fewer_fields_agree), ignored map values, a unit variant for a union branch, and the jump over byte-size-prefixed blocks whose contents are never inspected (C12_blocks_jump)",
]

def run(ctx):
    rng = random.Random(ctx["seed"] * 1000003 + 12)
    n = 500 if ctx["tier"] == "quick" else 20000
    cases = []      # (nodes, evalue, target, expected-text, kind)
    for _ in range(n):
        nodes, v = G.schema_and_value(rng)          # with random block layouts (negative counts + byte sizes)
        sent = G.rand_int(rng, -2**63, 2**63 - 1)
        vg = G.ValueGen(rng, nodes)
        kind = rng.choice(["record-field", "array", "map-value", "union-unit-variant", "whole"])
        if kind == "record-field":
            w, e = wrap.record_with_sentinel(nodes, v, sent)
            t = "(struct %s (%s i64))" % (C.hx("W__"), C.hx("s"))
            exp = "(struct (%s (i64 %d)))" % (C.hx("s"), sent)
        elif kind == "array":
            items = [x for x in (vg.gen(0) for _ in range(rng.randint(0, 4))) if x is not None]
            w, e = wrap.array_then_sentinel(nodes, vg.blocks(items), sent)
            t = "(struct %s (%s i64))" % (C.hx("W__"), C.hx("s")) if rng.random() < 0.5 else \
                "(struct %s (%s ignored) (%s i64))" % (C.hx("W__"), C.hx("a"), C.hx("s"))
            exp = "(struct (%s (i64 %d)))" % (C.hx("s"), sent) if "ignored" not in t else "(struct (%s ignored) (%s (i64 %d)))" % (C.hx("a"), C.hx("s"), sent)
        elif kind == "map-value":
            items = [x for x in (vg.gen(0) for _ in range(rng.randint(0, 3))) if x is not None]
            keys = ["k%d" % i for i in range(len(items))]
            w, e = wrap.map_then_sentinel(nodes, vg.blocks(["(%s %s)" % (C.hx(k), x) for k, x in zip(keys, items)]), sent)
            t = "(struct %s (%s (map str ignored)) (%s i64))" % (C.hx("W__"), C.hx("m"), C.hx("s"))
            exp = "(struct (%s (map%s)) (%s (i64 %d)))" % (C.hx("m"), "".join(" ((str %s) ignored)" % C.hx(k) for k in keys), C.hx("s"), sent)
        elif kind == "union-unit-variant":
            w, e, forced = wrap.union_branch_then_sentinel(nodes, v, sent)
            vn = forced or type_name(w, w[2].variants[1])
            t = "(struct %s (%s (enum %s (unit %s) (unit %s))) (%s i64))" % (C.hx("W__"), C.hx("u"), C.hx("U"), C.hx("Null"), C.hx(vn), C.hx("s"))
            exp = "(struct (%s (enum %s unit)) (%s (i64 %d)))" % (C.hx("u"), C.hx(vn), C.hx("s"), sent)
        else:
            w, e = nodes, v
            t = "ignored"
            exp = "ignored"
        cases.append((w, e, t, exp, kind))
    sp = codec.spec_batch([(w, e) for w, e, *_ in cases])
    lines = []
    for (w, e, t, exp, kind), s in zip(cases, sp):
        mode = rng.choice(["slice", "slice", "(chunks 1)", "(chunks %d)" % rng.randint(2, 40)])
        lines.append("de %s %s %s %s" % (s["schema"], t, s["enc"], mode))
    impl, model = codec.both(lines)
    violations, diffs, samples, distinct = [], [], [], set()
    from collections import Counter
    dist = Counter()
    for line, ri, rm, (w, e, t, exp, kind) in zip(lines, impl, model, cases):
        distinct.add(line)
        dist[kind] += 1
        if not C.same_outcome(ri, rm):
            diffs.append(codec.diff_entry(line, ri, rm))
        if G.erase_borrow_text(ri) != "(ok %s 0)" % exp:
            violations.append({"impl_case": line, "what": "ignoring a part (%s) did not leave the rest of the data decodable as written" % kind,
                               "impl": ri[:400], "expected": ("(ok %s 0)" % exp)[:400]})
        if len(samples) < 5:
            samples.append({"kind": kind, "target": t[:120]})
    return {"evaluations": len(lines), "distinct_nontrivial": len(distinct),
            "rule": "every schema/value (all node kinds, random block layouts incl. negative counts with byte sizes) embedded as record{ignored: S, "
                    "sentinel}, array<S> then sentinel, map<S> with ignored values then sentinel, union branch S taken as a unit variant then "
                    "sentinel, and ignored as a whole; the target lacks / ignores that part; expected: the sentinel (a long at its boundaries) "
                    "decodes and the input is consumed exactly; slice and chunked readers; model vs crate",
            "samples": samples, "violations": violations, "model_diffs": diffs, "distribution": dict(dist)}
