"""C12 -- skipping a value consumes exactly the bytes that reading it would."""
import random
import common as C
import gen as G
import codec, wrap, targets, prune
from present import type_name

MODEL_TARGETS = ["model/De.vo", "spec/Denote.vo"]
COQ_TARGETS = ["props/C12.vo", "proofs/DeDispatchTie.vo"]
THEOREMS = [("C12", ["C12_skip", "C12_skip_as_read", "C12_struct_lacking_fields", "C12_fewer_fields_agree", "C12_map_ignored_values", "C12_union_unit_variant", "C12_blocks_jump"]),
            ("DeDispatchTie", ["tie_de_any", "tie_de_ignored", "tie_de_forward", "de_any_is_generated", "de_ignored_is_generated", "de_is_generated"])]
PROOF_FILES = ["proofs/DeProofs.v", "proofs/DS1.v", "proofs/DS2.v", "proofs/DS3.v", "proofs/DS4.v", "proofs/DS5.v", "props/C12.v", "proofs/DS6.v", "proofs/DeDispatchTie.v"]
TRUSTED_BASE = [
    "lib/directed.py seq_stats (Python) counts the items of every array / map of the generated value to choose max_seq_size; that this configuration reads the whole value is then CHECKED on the model and on the crate (full typed target and dynamic target), not assumed",
    "dispatch tie: translators/gen_dispatch.py (+ rustmatch.py) reads the arms of every deserialize_* method of DatumDeserializer into gen/GenDeDispatch.v; proofs/DeDispatchTie.v proves that model/De.v's de is the interpretation of those regenerated tables (the meaning of each action symbol, act_sem, is hand-written there)",
    "Coq 8.16.1 kernel; no axioms (Print Assumptions: closed)",
    "spec/{AvroValue,Encoding,Denote,Wf}.v from the Avro specification: every legal encoding (any block split, negative counts with byte sizes) as encode_e of an evalue",
    "hand-written model/De.v, Reader.v of de/deserializer/** (incl. the ignored-any fast paths and skip_bytes) tied by the correspondence run",
    "extraction (ExtrOcamlBasic) + ocaml/driver.ml; Rust harness (recording visitors, serde's real IgnoredAny)",
    "lib/prune.py (Python): the expected value of a target that leaves fields out / ignores parts is the specification's typed value (Denote.dval_typed) with exactly those sub-terms deleted or replaced by `ignored` / `unit`; the model De.v is run on the same target and compared as well",
]
ASSUMPTIONS = [
    "proved (slice mode): IgnoredAny on ANY node consumes exactly the encoding of the value, for every legal encoding, and leaves the reader in the same state as reading it (C12_skip, C12_skip_as_read); reader mode follows with C11_de (same outcome and consumed bytes for every chunking)",
    "the embedded forms are proved too: a struct target with ANY subset of the record's fields (C12_struct_lacking_fields, C12_fewer_fields_agree), ignored map values, a unit variant for a union branch, and the jump over byte-size-prefixed blocks whose contents are never inspected (C12_blocks_jump)",
]

def sized_blocks(rng, items):
    """the items split into blocks of which at least one is written with a negative count and its byte size"""
    out, i = [], 0
    forced = rng.randrange(len(items)) if items else 0
    while i < len(items):
        k = rng.randint(1, len(items) - i)
        neg = 1 if i <= forced < i + k else rng.randint(0, 1)
        out.append("(blk %d %s)" % (neg, " ".join(items[i:i + k])))
        i += k
    return "".join(" " + b for b in out)

def schema_biased(rng, i):
    """schema/value whose root is (by turns) anything / a union / a record / an array or map; values with random block layouts"""
    want = [None, "union", "record", "union", ("array", "map")][i % 5]
    for _ in range(60):
        nodes, v = G.schema_and_value(rng)
        if want is None or nodes[0].t == want or nodes[0].t in want:
            return nodes, v
    return nodes, v

class EdgeValueGen(G.ValueGen):
    """enum values at the ends of the symbol list and around the one-byte / two-byte boundary of the index (63 | 64)"""
    def gen(self, k, depth=0):
        n = self.nodes[k]
        if n.kind() == "enum" and self.rng.random() < 0.7:
            c = [i for i in (0, 62, 63, 64, 65, 127, 128, len(n.symbols) - 1) if i < len(n.symbols)]
            return "(enum %d)" % self.rng.choice(c)
        return G.ValueGen.gen(self, k, depth)

def const_size_item_schemas(rng):
    """item schemas all of whose values LOOK as if they had one encoded size: null, boolean, float, double, duration, fixed,
    enums of 1..200 symbols (the index takes two bytes from symbol 64 on), and records (nested) made of those -- alone and as
    items of an array / values of a map.  -> [(label, nodes)]"""
    N = G.Node
    leaves = lambda: [N("null"), N("boolean"), N("float"), N("double"), N("fixed", name="Du", size=12, lt="duration"),
                      N("fixed", name="Fx%d" % rng.choice([0, 1, 5, 16]), size=0)]
    def enum(n, nm="En"):
        return N("enum", name="%s%d" % (nm, n), symbols=["S%d" % i for i in range(n)])
    out = []
    for n in (1, 2, 63, 64, 65, 66, 100, 127, 128, 129, 130, 200):
        out.append(("enum-%d" % n, [enum(n)]))
        # a record of fixed-size looking fields around the enum
        ls = leaves()
        for x in ls:
            if x.t == "fixed" and x.lt is None:
                x.size = int(x.name[2:])
        pick = rng.sample(ls, rng.randint(1, 3))
        fields, nodes = [], [None]
        for i, x in enumerate(pick[:1] + [enum(n)] + pick[1:]):
            nodes.append(x)
            fields.append(("f%d" % i, len(nodes) - 1))
        nodes[0] = N("record", name="Row", fields=fields)
        out.append(("record-enum-%d" % n, nodes))
        # nested: record { inner: Row-like, e: enum }
        inner = [N("record", name="Outer", fields=[("a", 1), ("in", 2), ("z", 1)]), N("boolean")] + wrap.shift(nodes, 2)
        out.append(("nested-record-enum-%d" % n, inner))
    res = []
    for lab, nodes in out:
        res.append((lab, nodes))
        res.append(("array-of-" + lab, [N("array", items=1)] + wrap.shift(nodes, 1)))
        if rng.random() < 0.5:
            res.append(("map-of-" + lab, [N("map", values=1)] + wrap.shift(nodes, 1)))
    return res

def run(ctx):
    rng = random.Random(ctx["seed"] * 1000003 + 12)
    n = 500 if ctx["tier"] == "quick" else 20000
    cases = []      # (nodes, evalue, target, expected-text, kind)
    for _ in range(n):
        nodes, v = G.schema_and_value(rng)          # with random block layouts (negative counts + byte sizes)
        sent = G.rand_int(rng, -2**63, 2**63 - 1)
        vg = G.ValueGen(rng, nodes)
        kind = rng.choice(["record-field", "array", "map-value", "union-unit-variant", "whole"])
        if kind == "record-field":
            w, e = wrap.record_with_sentinel(nodes, v, sent)
            t = "(struct %s (%s i64))" % (C.hx("W__"), C.hx("s"))
            exp = "(struct (%s (i64 %d)))" % (C.hx("s"), sent)
        elif kind == "array":
            items = [x for x in (vg.gen(0) for _ in range(rng.randint(0, 4))) if x is not None]
            w, e = wrap.array_then_sentinel(nodes, vg.blocks(items), sent)
            t = "(struct %s (%s i64))" % (C.hx("W__"), C.hx("s")) if rng.random() < 0.5 else \
                "(struct %s (%s ignored) (%s i64))" % (C.hx("W__"), C.hx("a"), C.hx("s"))
            exp = "(struct (%s (i64 %d)))" % (C.hx("s"), sent) if "ignored" not in t else "(struct (%s ignored) (%s (i64 %d)))" % (C.hx("a"), C.hx("s"), sent)
        elif kind == "map-value":
            items = [x for x in (vg.gen(0) for _ in range(rng.randint(0, 3))) if x is not None]
            keys = ["k%d" % i for i in range(len(items))]
            w, e = wrap.map_then_sentinel(nodes, vg.blocks(["(%s %s)" % (C.hx(k), x) for k, x in zip(keys, items)]), sent)
            t = "(struct %s (%s (map str ignored)) (%s i64))" % (C.hx("W__"), C.hx("m"), C.hx("s"))
            exp = "(struct (%s (map%s)) (%s (i64 %d)))" % (C.hx("m"), "".join(" ((str %s) ignored)" % C.hx(k) for k in keys), C.hx("s"), sent)
        elif kind == "union-unit-variant":
            w, e, forced = wrap.union_branch_then_sentinel(nodes, v, sent)
            vn = forced or type_name(w, w[2].variants[1])
            t = "(struct %s (%s (enum %s (unit %s) (unit %s))) (%s i64))" % (C.hx("W__"), C.hx("u"), C.hx("U"), C.hx("Null"), C.hx(vn), C.hx("s"))
            exp = "(struct (%s (enum %s unit)) (%s (i64 %d)))" % (C.hx("u"), C.hx(vn), C.hx("s"), sent)
        else:
            w, e = nodes, v
            t = "ignored"
            exp = "ignored"
        cases.append((w, e, t, exp, kind))
    # what comes AFTER the ignored part is a container that is read (and then the sentinel): W {x: S, c: array<T> | map<T>, s}
    # with c written in blocks of which at least one carries its byte size; the target lacks x (or takes it as IgnoredAny)
    # and reads c and s. A skip that leaves anything behind (a wrong length, reader state) shows in c's items. S is biased
    # towards unions, records holding unions, and unions of arrays / maps with sized blocks.
    after = []      # (nodes, evalue, how-x-is-ignored)
    for i in range(n // 2):
        nodes, v = schema_biased(rng, i)
        tn, _ = G.schema_and_value(rng, max_nodes=rng.choice([1, 1, 2, 4]), max_depth=rng.choice([1, 2]))
        tg = G.ValueGen(rng, tn)
        items = [x for x in (tg.gen(0) for _ in range(rng.randint(1, 5))) if x is not None]
        is_map = rng.random() < 0.4
        if is_map:
            items = ["(%s %s)" % (C.hx("k%d" % j), x) for j, x in enumerate(items)]
        after.append(wrap.ignored_then_container(nodes, v, tn, sized_blocks(rng, items), is_map, G.rand_int(rng, -2**63, 2**63 - 1))
                     + (rng.choice(["unknown", "unknown", "ignored"]),))
    for (w, e, how), s in zip(after, codec.spec_batch([(w, e) for w, e, _ in after])):
        t = C.parse_sx(s["ttarget"])[0]
        d = C.parse_sx(s["dtyped"])[0]
        assert t[0] == "struct" and t[2][0] == C.hx("x")
        m = ["struct", t[1], [prune.DROP, t[2][0]] if how == "unknown" else [t[2][0], "ignored"]] + t[3:]
        cases.append((w, e, C.show_sx(prune.strip(m)), C.show_sx(prune.project(m, d)), "ignored-then-read-" + how))
    # random typed targets with any subset of fields left out / parts ignored / branches as unit variants, on schemas with
    # several fields: everything that is read must be the specification's value
    for _ in range(n // 2):
        nodes, v = G.schema_and_value(rng, max_nodes=rng.choice([6, 10, 16]), max_depth=rng.choice([3, 5]))
        cases.append((nodes, v, None, None, "typed-partly-ignored"))
    # items whose encoded size looks constant (enums of 1..200 symbols with indices on both sides of 63|64, records of
    # fixed-size fields around them), in arrays / maps written with positive-count blocks and with sized blocks, ignored in
    # every way (unknown field, IgnoredAny field, ignored items / values, unit variant), followed by a field that is read
    for lab, nodes in const_size_item_schemas(rng):
        vg = EdgeValueGen(rng, nodes, layouts=rng.random() < 0.5)
        for _ in range(2 if ctx["tier"] == "quick" else 10):
            v = vg.gen(0)
            if v is None:
                continue
            for w, e, t, exp, kind in wrap.ignoring_forms(rng, nodes, v, vg, G.rand_int(rng, -2**63, 2**63 - 1)):
                cases.append((w, e, t, exp, "const-size-items-" + kind))
    # sequences of WIDE items (strings of 8..40 bytes, doubles, records, nested arrays: many more bytes than items) written in
    # one or several byte-size prefixed blocks, ignored in every way: for the small max_seq_size configurations below
    # (a limit on ITEMS must not be applied to what a skipped block measures in BYTES)
    N = G.Node
    for _ in range(60 if ctx["tier"] == "quick" else 2000):
        kind = rng.choice(["string", "string", "double", "record", "array", "bytes"])
        if kind == "record":
            inner = [N("record", name="ns.Wide", fields=[("a", 1), ("b", 2)]), N("double"), N("string")]
        elif kind == "array":
            inner = [N("array", items=1), N("long")]
        else:
            inner = [N(kind)]
        ivg = G.ValueGen(rng, inner)
        def wide():
            if kind in ("string", "bytes"):
                return "(%s %s)" % (kind, C.hx(bytes(0x61 + rng.randrange(26) for _ in range(rng.randint(8, 40)))))
            return ivg.gen(0)
        items = [wide() for _ in range(rng.randint(1, 20))]
        is_map = rng.random() < 0.35
        nodes = [N("map", values=1) if is_map else N("array", items=1)] + wrap.shift(inner, 1)
        if is_map:
            items = ["(%s %s)" % (C.hx("key%d" % j), x) for j, x in enumerate(items)]
        v = "(%s%s)" % ("map" if is_map else "array", sized_blocks(rng, items))
        for w, e, t, exp, k2 in wrap.ignoring_forms(rng, nodes, v, G.ValueGen(rng, nodes), G.rand_int(rng, -2**63, 2**63 - 1)):
            cases.append((w, e, t, exp, "wide-items-sized-blocks-" + k2))
    sp = codec.spec_batch([(w, e) for w, e, *_ in cases])
    lines = []
    for i, ((w, e, t, exp, kind), s) in enumerate(zip(cases, sp)):
        if t is None:
            pr = prune.pruned(rng, s["ttarget"], s["dtyped"]) or (s["ttarget"], s["dtyped"], None)
            t, exp = pr[0], pr[1]
            cases[i] = (w, e, t, exp, kind)
        mode = rng.choice(["slice", "slice", "(chunks 1)", "(chunks %d)" % rng.randint(2, 40)])
        lines.append("de %s %s %s %s" % (s["schema"], t, s["enc"], mode))
    # the same cases with DeserializerConfig::allowed_depth set to the least budget with which READING the whole value succeeds
    # -- under the full typed target of the specification AND under the dynamic target -- found by bisection on the model: the
    # target that ignores parts / lacks fields must succeed there too, with the same values (ignoring may not need more nesting
    # budget than reading). Both readings are asked for because deserialize_option delivers None for the null branch of a
    # union without charging the union's level, which `any` and IgnoredAny do charge (counted below as 'option-none-free').
    def least_budget(target_of):
        base = ["de %s %s %s slice" % (s["schema"], target_of(s), s["enc"]) for s in sp]
        lo, hi = [-1] * len(sp), [64] * len(sp)          # reading fails at lo (or lo = -1), succeeds at hi
        while any(h - l > 1 for l, h in zip(lo, hi)):
            idx = [i for i in range(len(sp)) if hi[i] - lo[i] > 1]
            res = C.run_parallel(C.AVROMODEL, ["%s (cfg 1000000000 %d)" % (base[i], (lo[i] + hi[i]) // 2) for i in idx])
            for i, r in zip(idx, res):
                if r.startswith("(ok"):
                    hi[i] = (lo[i] + hi[i]) // 2
                else:
                    lo[i] = (lo[i] + hi[i]) // 2
        return base, hi
    full, hi_t = least_budget(lambda s: s["ttarget"])
    full_any, hi_a = least_budget(lambda s: "any")
    hi = [max(a, b) for a, b in zip(hi_t, hi_a)]
    option_none_free = sum(1 for a, b in zip(hi_t, hi_a) if a < b)
    n_plain = len(lines)
    base_cases = list(cases)
    dl_full = []
    for i, ((w, e, t, exp, kind), s) in enumerate(zip(base_cases, sp)):
        mode = rng.choice(["slice", "slice", "(chunks 1)", "(chunks %d)" % rng.randint(2, 40)])
        lines.append("de %s %s %s %s (cfg 1000000000 %d)" % (s["schema"], t, s["enc"], mode, hi[i]))
        cases.append((w, e, t, exp, "min-depth-" + kind.replace("const-size-items-", "")))
        dl_full.append("%s (cfg 1000000000 %d)" % (full[i], hi[i]))
        dl_full.append("%s (cfg 1000000000 %d)" % (full_any[i], hi[i]))
    # ... and with DeserializerConfig::max_seq_size set to the least limit with which READING the whole value succeeds: the item
    # count of its longest array / map (lib/directed.py seq_stats; confirmed by reading under the full typed target and the
    # dynamic target, on the model and on the crate): the target that ignores parts must succeed there too, with the same
    # values -- whatever the block layout of what is skipped (a skipped block's byte size is not an item count)
    import directed as D
    for i, ((w, e, t, exp, kind), s) in enumerate(zip(base_cases, sp)):
        longest, total, nseq = D.seq_stats(e)
        if nseq == 0 or longest == 0:
            continue
        mode = rng.choice(["slice", "slice", "(chunks 1)", "(chunks %d)" % rng.randint(2, 40)])
        lines.append("de %s %s %s %s (cfg %d 64)" % (s["schema"], t, s["enc"], mode, longest))
        cases.append((w, e, t, exp, "min-max_seq_size-" + kind.replace("const-size-items-", "").replace("wide-items-sized-blocks-", "wide-")))
        dl_full.append("%s (cfg %d 64)" % (full[i], longest))
        dl_full.append("%s (cfg %d 64)" % (full_any[i], longest))
    impl, model = codec.both(lines)
    for line, rm in zip(dl_full, C.run_parallel(C.AVROMODEL, dl_full)):
        if not rm.startswith("(ok"):
            raise RuntimeError("the model does not read the whole value under the configuration chosen as minimal: " + line[:300])
    violations, diffs, samples, distinct = [], [], [], set()
    from collections import Counter
    dist = Counter()
    dist["option-none-free (typed reading needs less budget than dynamic reading)"] = option_none_free
    # (reading the whole value at that budget succeeds on the crate as on the model: otherwise a difference, not a violation)
    for line, ri in zip(dl_full, C.run_parallel(C.AVRODRIVE, dl_full)):
        if not ri.startswith("(ok"):
            diffs.append(codec.diff_entry(line, ri, "(ok ...) at the minimal allowed_depth found on the model"))
    for line, ri, rm, (w, e, t, exp, kind) in zip(lines, impl, model, cases):
        distinct.add(line)
        dist[kind] += 1
        if not C.same_outcome(ri, rm):
            diffs.append(codec.diff_entry(line, ri, rm))
        if G.erase_borrow_text(ri) != "(ok %s 0)" % exp:
            violations.append({"impl_case": line, "what": "ignoring a part (%s) did not leave the rest of the data decodable as written" % kind,
                               "impl": ri[:400], "expected": ("(ok %s 0)" % exp)[:400]})
        if len(samples) < 5:
            samples.append({"kind": kind, "target": t[:120]})
    return {"evaluations": len(lines), "distinct_nontrivial": len(distinct),
            "rule": "every schema/value (all node kinds, random block layouts incl. negative counts with byte sizes) embedded as record{ignored: S, "
                    "sentinel}, array<S> then sentinel, map<S> with ignored values then sentinel, union branch S taken as a unit variant then "
                    "sentinel, and ignored as a whole; the target lacks / ignores that part; expected: the sentinel (a long at its boundaries) "
                    "decodes and the input is consumed exactly; record{ignored: S, array<T> | map<T> that IS read and has byte-size prefixed "
                    "blocks, sentinel} with S biased to unions / records of unions / unions of arrays and maps: the container read after the "
                    "ignored part must have exactly the specification's items; random typed targets with fields left out / parts ignored / "
                    "branches as unit variants: expected the specification's typed value with those parts removed; items whose encoded size looks "
                    "constant (enums of 1..200 symbols with indices around 63|64, flat and nested records of null / boolean / float / double / "
                    "fixed / duration / enum fields) alone, in arrays and maps, positive-count and sized blocks, ignored in every way and followed "
                    "by a field that is read; EVERY case again with allowed_depth = the least budget with which the model reads the whole value "
                    "under the full typed target and under the dynamic target (bisection): the ignoring target must succeed with the same values; and again with max_seq_size = the item count of the value's longest array / map (the least limit with "
                    "which the whole value is read, confirmed on model and crate), incl. directed arrays / maps of wide items (strings, doubles, "
                    "records, nested arrays) in byte-size prefixed blocks whose byte total exceeds that limit; slice and chunked readers; model vs crate",
            "samples": samples, "violations": violations, "model_diffs": diffs, "distribution": dict(dist)}
