"""C14 -- reusing a serializer configuration never changes output; failures leave it clean."""
import random
import common as C
import gen as G
import codec
from present import Presenter

MODEL_TARGETS = ["model/SerHistory.vo"]
COQ_TARGETS = ["props/C14.vo"]
THEOREMS = [("C14", ["C14_pool_inv", "C14_indep", "C14_indep_budget", "C14_history", "C14_history_independent_with_slices", "C14_slice_job_pools"])]
PROOF_FILES = ["proofs/RecordProofs.v", "proofs/HistoryProofs.v", "proofs/SinkWriteProofs.v", "proofs/SerBudgetProofs.v", "props/C14.v"]
TRUSTED_BASE = [
    "Coq 8.16.1 kernel; no axioms (Print Assumptions: closed)",
    "hand-written model/Ser.v including the two buffer pools and the Drop code on every error path, tied by the correspondence run (per-call outcomes and bytes of whole histories)",
    "extraction (ExtrOcamlBasic) + ocaml/driver.ml; Rust harness (budgeted sink = I/O error after n bytes)",
]
ASSUMPTIONS = [
    "probes whose Serialize impl advertises a wrong sequence length (lying_length_histories) are judged like every probe: outcome and bytes on the used configuration = those on a fresh one (crate vs crate), and model vs crate on every call (SerHistory)",
    "Vec capacity behaviour is abstracted to a 'capacity > 0' flag per buffer (it decides whether a buffer returns to the pool, never what is written)",
]

def injected_failure(rng, sv):
    """damage a presentation at a random depth: replace a random sub-term by `fail` or a type mismatch"""
    toks = sv.split(" ")
    cands = [i for i, t in enumerate(toks) if t.startswith("(i32") or t.startswith("(str") or t.startswith("(i64") or t == "unit" or t.startswith("(bool")
             or t.startswith("(f64") or t.startswith("(bytes") or t.startswith("(u32")]
    if not cands:
        return "fail"
    i = rng.choice(cands)
    # drop the argument tokens of that leaf
    depth_close = toks[i].count("(") - toks[i].count(")")
    j = i
    while depth_close > 0 and j + 1 < len(toks):
        j += 1
        depth_close += toks[j].count("(") - toks[j].count(")")
    tail_closers = ""
    if depth_close < 0:
        tail_closers = ")" * (-depth_close)
    repl = rng.choice(["fail", "(seq none fail)", "(f32 0)", "(map none (key (i32 1)))", "(some fail)"])
    return " ".join(toks[:i] + [repl + tail_closers] + toks[j + 1:])

def directed_histories():
    """every kind of half-way failure x every kind of probe that takes a pooled buffer, as 2- and 3-call histories on one
    configuration (cell enumeration; the random histories below rarely line these up)"""
    N = G.Node
    hx = C.hx
    nodes = [N("record", name="R", fields=[("a", 1), ("b", 2), ("c", 3), ("d", 4)]), N("int"),
             N("record", name="Nn", fields=[("x", 1), ("y", 3)]), N("string"), N("bytes")]
    sch = G.schema_sx(nodes)
    def st(name, *fs):
        return "(struct %s %d%s)" % (hx(name), len(fs), "".join(" (%s %s)" % (hx(f), v) for f, v in fs))
    def mp(*fs):
        return "(map none%s)" % "".join(" (entry (str %s) %s)" % (hx(f), v) for f, v in fs)
    nn_ok = st("Nn", ("x", "(i32 7)"), ("y", "(str %s)" % hx("yy")))
    nn_rev = st("Nn", ("y", "(str %s)" % hx("yy")), ("x", "(i32 7)"))
    nn_fail2 = st("Nn", ("x", "(i32 7)"), ("y", "fail"))
    nn_bad2 = st("Nn", ("x", "(i32 7)"), ("y", "(f32 0)"))
    nn_rev_fail = st("Nn", ("y", "(str %s)" % hx("yy")), ("x", "fail"))
    a, c, d = "(i32 1)", "(str %s)" % hx("hi"), "(bytes x0102)"
    dseq = "(seq none (u8 1) (u8 2) (u8 3))"
    failures = [
        ("buffered-field-fails-late", st("R", ("c", c), ("b", nn_fail2), ("a", a), ("d", d)), "none"),
        ("buffered-field-mismatch-late", st("R", ("c", c), ("b", nn_bad2), ("a", a), ("d", d)), "none"),
        ("nested-buffered-fails", st("R", ("d", d), ("b", nn_rev_fail), ("a", a), ("c", c)), "none"),
        ("missing-after-buffering", st("R", ("c", c), ("b", nn_ok), ("d", d)), "none"),
        ("duplicate-buffered", st("R", ("c", c), ("c", c), ("a", a), ("b", nn_ok), ("d", d)), "none"),
        ("unknown-after-buffering", st("R", ("d", d), ("c", c), ("zz", a), ("a", a), ("b", nn_ok)), "none"),
        ("map-form-fails-late", mp(("c", c), ("b", nn_fail2), ("a", a), ("d", d)), "none"),
        ("seq-to-bytes-fails-late", st("R", ("a", a), ("b", nn_ok), ("c", c), ("d", "(seq none (u8 1) (u8 2) (str %s))" % hx("x"))), "none"),
        ("seq-to-bytes-buffered-fails-late", st("R", ("d", "(seq none (u8 1) (u8 2) fail)"), ("a", a), ("b", nn_ok), ("c", c)), "none"),
    ] + [("sink-fails-at-%d" % k, st("R", ("d", dseq), ("c", c), ("b", nn_rev), ("a", a)), str(k)) for k in (0, 1, 2, 3, 5, 6, 9, 12)]
    probes = [
        ("reordered", st("R", ("d", d), ("c", c), ("b", nn_rev), ("a", a))),
        ("seq-to-bytes", st("R", ("a", a), ("b", nn_ok), ("c", c), ("d", dseq))),
        ("seq-to-bytes-reordered", st("R", ("d", dseq), ("b", nn_rev), ("c", c), ("a", a))),
        ("map-reordered", mp(("c", c), ("d", d), ("a", a), ("b", nn_rev))),
        ("in-order", st("R", ("a", a), ("b", nn_ok), ("c", c), ("d", d))),
    ]
    out = []
    for fk, fsv, fb in failures:
        for pk, psv in probes:
            out.append(("hist %s 1 (job %s %s) (job %s none)" % (sch, fsv, fb, psv), (sch, 1, psv, [fk])))
            for fk2, fsv2, fb2 in failures[::3]:
                out.append(("hist %s 1 (job %s %s) (job %s %s) (job %s none)" % (sch, fsv, fb, fsv2, fb2, psv), (sch, 1, psv, [fk, fk2])))
    return out

def lying_length_histories():
    """probes whose Serialize impl ADVERTISES a sequence length different from the number of elements it yields
    (serialize_seq(Some(n)) then fewer / more elements, also n = 0 and no elements at all) for `bytes` and `fixed` targets
    under allow_slow_sequence_to_bytes, at the root and as record fields (in order / presented before their turn), after
    every kind of history that leaves buffers in the configuration's pool (out-of-order record fields, sequences of unknown
    length buffered as bytes, the same failing half-way or hitting a sink error) or leaves it empty (in-order values, known-length
    sequences): outcome and bytes must be those of a fresh configuration"""
    N = G.Node
    hx = C.hx
    nodes = [N("record", name="R", fields=[("a", 1), ("d", 2), ("e", 3)]), N("int"), N("bytes"), N("fixed", name="F", size=3)]
    sch = G.schema_sx(nodes)
    def st(*fs):
        return "(struct %s %d%s)" % (hx("R"), len(fs), "".join(" (%s %s)" % (hx(f), v) for f, v in fs))
    def seq(adv, n):
        return "(seq %s%s)" % (adv, "".join(" (u8 %d)" % (i + 1) for i in range(n)))
    a, d, e = "(i32 1)", "(bytes x0102)", "(bytes x010203)"
    jobs = [
        ("in-order", st(("a", a), ("d", d), ("e", e)), "none"),
        ("known-length-seqs", st(("a", a), ("d", seq(2, 2)), ("e", seq(3, 3))), "none"),
        ("reordered", st(("e", e), ("d", d), ("a", a)), "none"),
        ("reordered-map", "(map none (entry (str %s) %s) (entry (str %s) %s) (entry (str %s) %s))" % (hx("d"), d, hx("a"), a, hx("e"), e), "none"),
        ("unknown-length-seq-to-bytes", st(("a", a), ("d", seq("none", 3)), ("e", e)), "none"),
        ("unknown-length-seq-to-fixed", st(("a", a), ("d", d), ("e", seq("none", 3))), "none"),
        ("reordered-fails-late", st(("e", e), ("d", d), ("a", "fail")), "none"),
        ("unknown-length-seq-fails-late", st(("a", a), ("d", "(seq none (u8 1) (u8 2) fail)"), ("e", e)), "none"),
        ("reordered-missing", st(("e", e), ("d", d)), "none"),
        ("reordered-sink-fails", st(("e", e), ("d", d), ("a", a)), "2"),
        ("unknown-length-seq-sink-fails", st(("a", a), ("d", seq("none", 3)), ("e", e)), "2"),
    ]
    probes = []
    for adv, n in [(3, 2), (3, 4), (0, 1), (2, 0), (1, 0), (3, 3), (5, 1), (1, 5), (0, 0)]:
        tag = "advertised-%d-yields-%d" % (adv, n)
        probes.append(("bytes-field/" + tag, st(("a", a), ("d", seq(adv, n)), ("e", e))))
        probes.append(("bytes-field-before-its-turn/" + tag, st(("d", seq(adv, n)), ("e", e), ("a", a))))
        probes.append(("fixed-field/" + tag, st(("a", a), ("d", d), ("e", seq(adv, n)))))
        probes.append(("fixed-field-before-its-turn/" + tag, st(("e", seq(adv, n)), ("a", a), ("d", d))))
        probes.append(("both/" + tag, st(("a", a), ("d", seq(adv, n)), ("e", seq(adv, n)))))
    out = []
    for pk, psv in probes:
        for i, (jk, jsv, jb) in enumerate(jobs):
            out.append(("hist %s 1 (job %s %s) (job %s none)" % (sch, jsv, jb, psv), (sch, 1, psv, ["lying-length/" + jk, pk])))
        # two jobs: a pooled buffer AND a pooled buffer list
        out.append(("hist %s 1 (job %s none) (job %s none) (job %s none)" % (sch, jobs[2][1], jobs[4][1], psv), (sch, 1, psv, ["lying-length/reordered+unknown-length-seq", pk])))
    # at the root
    for rnodes in ([N("bytes")], [N("fixed", name="F", size=3)]):
        rs = G.schema_sx(rnodes)
        for adv, n in [(3, 2), (3, 4), (0, 1), (2, 0), (3, 3)]:
            psv = seq(adv, n)
            for jk, jsv in [("unknown-length-seq", seq("none", 3)), ("unknown-length-seq-fails-late", "(seq none (u8 1) fail)"), ("known-length-seq", seq(3, 3)), ("plain", "(bytes x010203)")]:
                out.append(("hist %s 1 (job %s none) (job %s none)" % (rs, jsv, psv), (rs, 1, psv, ["lying-length/root/" + jk, "root-%s/advertised-%d-yields-%d" % (rnodes[0].kind(), adv, n)])))
    return out

def large_value_histories(rng, tier):
    """pooled buffers that GREW: a field presented before its turn is serialized into a pooled temporary buffer, which goes back
    to the pool when it has been flushed (in-order flush loop, end(), Drop after a failure) -- here with values of 4 KB .. 200 KB
    (around 4 KiB, 64 KiB, 128 KiB: the sizes at which an implementation might trim / replace a buffer), in every shape that
    buffers (string / bytes / sequence-as-bytes field first, nested record first with its own fields reversed, map form), the
    job succeeding, failing late, or hitting a sink error far into the value; then every kind of probe that takes a pooled buffer"""
    N = G.Node
    hx = C.hx
    nodes = [N("record", name="R", fields=[("a", 1), ("b", 2), ("c", 3), ("d", 4)]), N("int"),
             N("record", name="Nn", fields=[("x", 1), ("y", 3)]), N("string"), N("bytes")]
    sch = G.schema_sx(nodes)
    def st(name, *fs):
        return "(struct %s %d%s)" % (hx(name), len(fs), "".join(" (%s %s)" % (hx(f), v) for f, v in fs))
    def mp(*fs):
        return "(map none%s)" % "".join(" (entry (str %s) %s)" % (hx(f), v) for f, v in fs)
    nn_ok = st("Nn", ("x", "(i32 7)"), ("y", "(str %s)" % hx("yy")))
    nn_rev = st("Nn", ("y", "(str %s)" % hx("yy")), ("x", "(i32 7)"))
    a, c, d = "(i32 1)", "(str %s)" % hx("hi"), "(bytes x0102)"
    dseq = "(seq none (u8 1) (u8 2) (u8 3))"
    probes = [
        ("reordered", st("R", ("d", d), ("c", c), ("b", nn_rev), ("a", a))),
        ("seq-to-bytes", st("R", ("a", a), ("b", nn_ok), ("c", c), ("d", dseq))),
        ("seq-to-bytes-reordered", st("R", ("d", dseq), ("b", nn_rev), ("c", c), ("a", a))),
        ("map-reordered", mp(("c", c), ("d", d), ("a", a), ("b", nn_rev))),
        ("in-order", st("R", ("a", a), ("b", nn_ok), ("c", c), ("d", d))),
    ]
    def text(n):
        return bytes(0x20 + rng.randrange(90) for _ in range(n))
    def shapes(n):
        bs = "(str %s)" % hx(text(n))
        bb = "(bytes %s)" % hx(rng.randbytes(n))
        nn_big_rev = st("Nn", ("y", bs), ("x", "(i32 7)"))
        nn_big = st("Nn", ("x", "(i32 7)"), ("y", bs))
        out = [
            ("string-field-first", st("R", ("c", bs), ("a", a), ("b", nn_ok), ("d", d))),
            ("string-field-first-flushed-last", st("R", ("c", bs), ("d", d), ("b", nn_ok), ("a", a))),
            ("bytes-field-first", st("R", ("d", bb), ("a", a), ("b", nn_ok), ("c", c))),
            ("nested-first-reversed", st("R", ("b", nn_big_rev), ("a", a), ("c", c), ("d", d))),
            ("nested-in-order-inner-reversed", st("R", ("a", a), ("b", nn_big_rev), ("c", c), ("d", d))),
            ("map-form", mp(("c", bs), ("b", nn_big), ("a", a), ("d", d))),
            ("two-buffers", st("R", ("d", bb), ("c", bs), ("a", a), ("b", nn_ok))),
        ]
        if n <= 5000:       # (the model's sequence-as-bytes serializer is quadratic in the number of elements)
            out.append(("seq-to-bytes-first", st("R", ("d", "(seq none %s)" % " ".join("(u8 %d)" % rng.randrange(256) for _ in range(n))), ("a", a), ("b", nn_ok), ("c", c))))
        return out
    sizes = [4095, 4097, 65535, 65536, 65537, 70000, 100000, 131073, 200000, rng.randint(66000, 200000)]
    if tier == "quick":
        sizes = [rng.choice([4095, 4097]), 65535, rng.choice([65536, 65537]), 70000, rng.choice([100000, 131073]), 200000, rng.randint(66000, 200000)]
    out = []
    k = rng.randrange(100)
    for n in sizes:
        for sk, sv in shapes(n):
            k += 1
            fate = ["ok", "ok", "ok", "fails-late", "sink-fails-far"][k % 5] if tier == "quick" else None
            for ft in ([fate] if fate else ["ok", "fails-late", "sink-fails-far"]):
                if ft == "ok":
                    job = "(job %s none)" % sv
                elif ft == "fails-late":
                    # the last leaf of the presentation replaced by a failing one: everything before it has been buffered / written
                    i = sv.rstrip(")").rfind("(")
                    job = "(job %s none)" % (sv[:i] + "fail" + ")" * (sv.count("(", 0, i) - sv.count(")", 0, i)))
                else:
                    job = "(job %s %d)" % (sv, rng.choice([n - 1, n // 2, n + 3]))
                pks = probes if tier != "quick" else [probes[k % 5], probes[(k + 2) % 5]]
                for pk, psv in pks:
                    out.append(("hist %s 1 %s (job %s none)" % (sch, job, psv), (sch, 1, psv, ["large-%s-%s" % (sk, ft)])))
                if ft == "ok" and (tier != "quick" or k % 3 == 0):
                    pk, psv = probes[k % 5]
                    out.append(("hist %s 1 %s %s (job %s none)" % (sch, job, job, psv), (sch, 1, psv, ["large-%s-%s" % (sk, ft)] * 2)))
    return out

def run(ctx):
    rng = random.Random(ctx["seed"] * 1000003 + 14)
    nh = 500 if ctx["tier"] == "quick" else 20000
    lines, meta = [], []
    for _ in range(nh):
        nodes, v0 = G.schema_and_value(rng, layouts=False)
        vg = G.ValueGen(rng, nodes, layouts=False)
        vals = [v0] + [x for x in (vg.gen(0) for _ in range(rng.randint(1, 6))) if x is not None]
        sp = codec.spec_batch([(nodes, v) for v in vals])
        slow = 0
        jobs = []
        kinds = []
        svs = []
        for s in sp:
            pr = Presenter(rng, nodes, break_prob=0.0, by_type_prob=0.1)
            sv = pr.pres(0, C.parse_sx(s["evalue"])[0])
            slow |= int(pr.needs_slow)
            svs.append(sv)
        probe = svs[-1]
        for sv in svs[:-1]:
            r = rng.random()
            if r < 0.35:
                jobs.append("(job %s none)" % sv); kinds.append("ok")
            elif r < 0.7:
                jobs.append("(job %s none)" % injected_failure(rng, sv)); kinds.append("value-failure")
            else:
                jobs.append("(job %s %d)" % (sv, rng.choice([0, 1, 2, 3, 5, 8, 13, 40]))); kinds.append("sink-failure")
        sch = G.schema_sx(nodes)
        lines.append("hist %s %d %s (job %s none)" % (sch, slow, " ".join(jobs), probe))
        meta.append((sch, slow, probe, kinds))
    for line, m in directed_histories():
        lines.append(line); meta.append(m)
    for line, m in lying_length_histories():
        lines.append(line); meta.append(m)
    nsmall = len(lines)
    for line, m in large_value_histories(rng, ctx["tier"]):
        lines.append(line); meta.append(m)
    impl, model = codec.both(lines[:nsmall])
    # the large ones: the extracted model recurses along the value's bytes (large stack)
    import cont
    impl += C.run_parallel(C.AVRODRIVE, lines[nsmall:], jobs=16)
    model += cont.run_model(lines[nsmall:])
    fresh = C.run_parallel(C.AVRODRIVE, ["hist %s %d (job %s none)" % (sch, slow, probe) for sch, slow, probe, _ in meta])
    violations, diffs, samples, distinct = [], [], [], set()
    from collections import Counter
    dist = Counter()
    for line, ri, rm, rf, (sch, slow, probe, kinds) in zip(lines, impl, model, fresh, meta):
        distinct.add(line)
        pi = C.parse_sx(ri)
        pm = C.parse_sx(rm)
        pf = C.parse_sx(rf)
        if not pi or pi[0][0] != "ok":
            violations.append({"impl_case": line, "what": "history crashed", "impl": ri[:300]})
            continue
        ri_items = [C.canon_impl(C.show_sx(x)) for x in pi[0][1:]]
        if "(unmodelled)" not in rm:
            rm_items = [C.show_sx(x) for x in pm[0][1:]] if pm and pm[0][0] == "ok" else None
            if rm_items is None or len(rm_items) != len(ri_items) or any(not C.same_outcome(a, b) for a, b in zip(ri_items, rm_items)):
                diffs.append(codec.diff_entry(line, ri, rm))
        for k in kinds:
            dist[k] += 1
        if any(x.startswith("(panic") for x in ri_items):
            violations.append({"impl_case": line, "what": "an internal consistency assertion fired (panic) during a history", "impl": ri[:400]})
        probe_reused = ri_items[-1]
        probe_fresh = C.canon_impl(C.show_sx(pf[0][1])) if pf and pf[0][0] == "ok" else rf
        if probe_reused != probe_fresh:
            violations.append({"impl_case": line, "what": "the probe on the reused configuration differs from the probe on a fresh one",
                               "reused": probe_reused[:300], "fresh": probe_fresh[:300]})
        if len(line) > 20000:
            dist["large-values/" + kinds[0].split("-")[-1]] += 1
        if len(samples) < 5:
            samples.append({"history": kinds, "probe_outcome": probe_reused[:40]})
    return {"evaluations": len(lines) + len(fresh), "distinct_nontrivial": len(distinct),
            "rule": "histories of 1..6 to_datum calls on one SerializerConfig: successful values (random presentations incl. out-of-order and "
                    "omitted record fields, buffered byte sequences), values failing at a random depth (Serialize impl error, type mismatch), sinks "
                    "failing after 0..40 bytes; then a probe, compared with the same probe on a fresh configuration; directed: every kind of half-way failure x "
                    "every kind of probe taking a pooled buffer; LARGE values (4 KB .. 200 KB around 4 KiB / 64 KiB / 128 KiB) in fields presented before their turn "
                    "(string / bytes / sequence-as-bytes / nested record / map form / two buffers at once), the job succeeding (buffer flushed by the in-order "
                    "loop or at the end), failing late or hitting a sink error far into the value, once or twice, then a probe; directed: probes whose Serialize impl advertises a sequence length different from the "
                    "number of elements it yields (serialize_seq(Some(n)) then fewer / more / no elements, n = 0) for bytes and fixed targets (root, record field in order / before its turn) "
                    "x histories that leave pooled buffers (out-of-order fields, unknown-length sequences buffered as bytes, the same failing late / on a sink error) or none; model vs crate: every "
                    "call's outcome and bytes",
            "samples": samples, "violations": violations, "model_diffs": diffs, "distribution": dict(dist)}
