"""Container-file histories: generation and the checks shared by C05, C06, C15, C16, C17."""
import zlib, bz2, lzma
import common as C
import gen as G
import codec
from present import Presenter

SYNC = bytes(range(0x30, 0x40))
CODECS = ["null", "(deflate default)", "(deflate 1)", "(deflate 9)", "(bzip2 default)", "(bzip2 1)", "snappy",
          "(xz default)", "(xz 1)", "(zstandard default)", "(zstandard 1)", "(zstandard 19)"]
CODEC_NAMES = {"null": "null", "deflate": "deflate", "bzip2": "bzip2", "snappy": "snappy", "xz": "xz",
               "zstandard": "zstandard"}

def codec_family(c):
    return c.strip("()").split()[0]

class History:
    """one schema, a list of values, an op sequence"""
    def __init__(self, rng, n_values=None, big=False, schema_kw=None):
        self.rng = rng
        kw = schema_kw or {"max_nodes": rng.choice([1, 3, 6]), "max_depth": 3}
        nodes, v0 = G.schema_and_value(rng, **kw)
        if big:
            # big: values carry long byte strings / strings -- the schema must have a place for them
            for _ in range(40):
                if any(nd.kind() in ("bytes", "string") for nd in nodes):
                    break
                nodes, v0 = G.schema_and_value(rng, **kw)
        self.nodes = nodes
        vg = G.ValueGen(rng, nodes, layouts=False, big=big)
        n = n_values if n_values is not None else (rng.choice([0, 1, 2, 3, 5, 8]) if not big else rng.choice([2, 3, 5, 8]))
        vals = ([v0] if not big else []) + [vg.gen(0) for _ in range(max(0, n - (0 if big else 1)))]
        self.values = [v for v in vals if v is not None][:n] if n > 0 else []
        self.schema = G.schema_sx(nodes)

    def prepare(self):
        """asks the spec for encodings / expected events / canonical presentations"""
        self.spec = codec.spec_batch([(self.nodes, v) for v in self.values]) if self.values else []

def prepare_all(hs):
    """History.prepare for many histories in one (parallel) batch of the specification oracle"""
    pairs = [(h.nodes, v) for h in hs for v in h.values]
    res = codec.spec_batch(pairs) if pairs else []
    i = 0
    for h in hs:
        h.spec = res[i:i + len(h.values)]
        i += len(h.values)

def damaged(rng, sv):
    """a presentation damaged at a random leaf (Serialize impl failure or type mismatch): the value fails, possibly after
    part of it -- out-of-order record fields, buffered byte sequences -- has been produced"""
    toks = sv.split(" ")
    cands = [i for i, t in enumerate(toks) if t.startswith(("(i32", "(str", "(i64", "(bool", "(f64", "(bytes", "(u32")) or t == "unit"]
    if not cands:
        return "fail"
    i = rng.choice(cands)
    depth_close = toks[i].count("(") - toks[i].count(")")
    j = i
    while depth_close > 0 and j + 1 < len(toks):
        j += 1
        depth_close += toks[j].count("(") - toks[j].count(")")
    tail = ")" * (-depth_close) if depth_close < 0 else ""
    return " ".join(toks[:i] + [rng.choice(["fail", "(seq none fail)", "(f32 0)", "(some fail)"]) + tail] + toks[j + 1:])

def make_ops(rng, h, allow_fail=True, allow_push=True, end=None, reorder=False):
    """returns (ops as sexp strings, expected: list of indexes into h.values in file order, flush points).
    reorder: values are presented in random serde shapes (record fields out of order / omitted when nullable, structs or
    maps, ...) and failing values are such presentations damaged at a random leaf -- the writer reuses one serializer
    configuration, so what a failed value left behind must not leak into the next one"""
    ops, expected = [], []
    for i, s in enumerate(h.spec):
        r = rng.random()
        if allow_fail and reorder and r < 0.3:
            pr = Presenter(rng, h.nodes, break_prob=0.0, by_type_prob=0.1)
            ops.append(("fail", "(ser %s)" % damaged(rng, pr.pres(0, C.parse_sx(s["evalue"])[0]))))
        elif allow_fail and r < 0.15:
            ops.append(("fail", "(ser %s)" % rng.choice(["fail", "(seq none fail)", "(struct %s 1 (%s fail))" % (C.hx("X"), C.hx("f0")),
                                                         "(newtype_struct %s (some fail))" % C.hx("N")])))
        if allow_push and r > 0.8:
            # pre-serialized push of this value (and maybe the next one)
            ops.append(("push", "(push %s 1)" % s["canon"], [i]))
            expected.append(i)
        elif reorder:
            pr = Presenter(rng, h.nodes, break_prob=0.0, by_type_prob=0.1)
            sv = pr.pres(0, C.parse_sx(s["evalue"])[0])
            if pr.needs_slow or pr.expect != "value":
                sv = s["present"]
            ops.append(("ser", "(ser %s)" % sv, [i]))
            expected.append(i)
        else:
            # canonical presentation: the block bytes are then the canonical encodings
            ops.append(("ser", "(ser %s)" % s["present"], [i]))
            expected.append(i)
        if rng.random() < 0.2:
            ops.append(("finish", "finish"))
    e = end if end is not None else rng.choice(["into_inner", "drop", "finish", "none", "into_inner"])
    if e != "none":
        ops.append((e, e))
    return ops, expected

def cw_line(h, codec_sx, block_size, sink, meta, ops, with_json=None):
    metas = "(meta%s)" % "".join(" (%s %s)" % (C.hx(k), C.hx(v)) for k, v in meta)
    pre = "cw "
    if with_json is not None:
        pre += C.hx(with_json) + " "
    return "%s%s %s %d %s %s %s %s" % (pre, h.schema, codec_sx, block_size, C.hx(SYNC), sink, metas,
                                       " ".join(o[1] for o in ops))

def parse_cw(res):
    """-> dict(build=(len), ops=[(res, len)], sink=bytes) ; res in ok/err/gone/panic..."""
    p = C.parse_sx(res)
    if not p:
        return None
    p = p[0]
    if p[0] != "ok":
        return {"build_err": True, "raw": res}
    built = p[1]
    ops = []
    for o in p[2:-1]:
        r = o[0]
        if isinstance(r, list):
            r = r[0]
        ops.append((r, int(o[1])))
    return {"build_err": False, "built": int(built[1]), "ops": ops, "sink": C.unhex(p[-1])}

def parse_cr(res):
    """-> dict(open_err, json, meta, items=[('ok', text) | ('eof',) | ('err', class)])"""
    p = C.parse_sx(res)
    if not p:
        return {"crash": res}
    p = p[0]
    if p[0] == "open-err":
        return {"open_err": p[1] if len(p) > 1 else True}
    if p[0] != "ok":
        return {"crash": res}
    i = 1
    out = {"open_err": None}
    if isinstance(p[1], str):
        out["json"] = C.unhex(p[1])
        i = 2
    out["meta"] = [(C.unhex(kv[0]), C.unhex(kv[1])) for kv in p[i][1:]]
    items = []
    for it in p[i + 1:]:
        if it == "eof":
            items.append(("eof",))
        elif it[0] == "ok":
            items.append(("ok", G.erase_borrow_text(C.show_sx(it[1]))))
        elif it[0] == "err":
            items.append(("err", it[1]))
        else:
            items.append((C.show_sx(it),))
    out["items"] = items
    return out

def values_prefix_then_eof(items, expected_texts, must_be_all):
    """the reader's items must be a prefix of the expected values followed by eof, eof, with no
    error; returns (ok, k, why)"""
    k = 0
    for it in items:
        if it[0] == "ok":
            if k >= len(expected_texts) or it[1] != expected_texts[k]:
                return False, k, "value %d differs or was never written: %s" % (k, it[1][:200])
            k += 1
        elif it[0] == "eof":
            break
        else:
            return False, k, "reader reported %s" % (it,)
    else:
        return False, k, "no end of stream"
    if must_be_all and k != len(expected_texts):
        return False, k, "only %d of %d values present after a flush point" % (k, len(expected_texts))
    return True, k, ""

# ---------------------------------------------------------------- hook H3: the encode loops' starting buffer length
# the crate starts the output buffer of the deflate / bzip2 / xz loops at 32 KiB and doubles it; with hook H3 the start is
# chosen by the run, so that small blocks already take the loops through several growth steps
H3_STARTS = [1, 2, 64, 1024, 4096, 32768]
LOOP_FAMILIES = ("deflate", "bzip2", "xz")

def with_start(start, cwline):
    """`cw ...` -> `cwh START ...` (harness only; the writer model does not depend on START)"""
    assert cwline.startswith("cw ")
    return cwline if start is None else "cwh %d %s" % (start, cwline[3:])

def raw_model_line(cwline_with_json):
    """`cw xJSON ...` -> `cwraw xJSON ...`: Container.v's writer with the identity as block compressor, for any codec"""
    assert cwline_with_json.startswith("cw ")
    return "cwraw " + cwline_with_json[3:]

WORDS = [b"avro", b"block", b"codec", b"deflate", b"stream", b"buffer", b"schema", b"record", b"union", b"fixed",
         b"sync", b"marker", b"header", b"long", b"bytes", b"string", b"map", b"array", b"enum", b"null"]

def payload(rng, kind, n):
    """n bytes: incompressible ('rand'), one repeated byte ('zero'), words with noise ('text', ratio ~3)"""
    if n <= 0:
        return b""
    if kind == "rand":
        return rng.randbytes(n)
    if kind == "zero":
        return bytes([rng.randrange(3)]) * n
    out = bytearray()
    while len(out) < n:
        out += rng.choice(WORDS) + (b" " if rng.random() < 0.8 else bytes([0x21 + rng.randrange(90)]))
    return bytes(out[:n])

BIG_SHAPES = ["bytes", "record", "string", "fixed", "doubles", "many"]

def big_sizes(rng, start):
    """payload sizes around the growth steps of a buffer starting at `start`, and past the point (~64 KB of incompressible
    input) where the deflate library stops taking input in before its output has been drained"""
    around = [start - 1, start, start + 1, 2 * start - 1, 2 * start + 1, 4 * start + 3, 8 * start + 5, 16 * start + 1, 40 * start]
    around = [n for n in around if 1 <= n <= 140000]
    far = [33000, 40000, 60000, 66000, 70000, 100000, 131073, 200000]
    return around, far

class BigHistory(History):
    """values whose encodings make a block's compressed form outgrow the encode loops' output buffer several times:
    shapes: one `bytes` / `string` / `fixed` / record {id: long, payload: bytes} / array of random doubles per value, or
    many 1000-byte values gathered into big blocks; contents incompressible (mostly), text-like or constant"""
    def __init__(self, rng, start, shape, content=None, want_far=False):
        self.rng = rng
        self.start = start
        self.shape = shape
        around, far = big_sizes(rng, start)
        content = content or rng.choice(["rand", "rand", "rand", "text", "zero"])
        self.content = content
        scale = {"rand": 1, "text": 3, "zero": 1}[content]
        self.want_far = want_far
        first = [True]
        budget = [300000]
        def size():
            if want_far and first[0]:
                # at least one value past the point where the deflate library stops taking input in
                first[0] = False
                n = rng.choice([66000, 70000, 100000, 131073, 200000])
            else:
                n = rng.choice(far) if rng.random() < 0.15 else rng.choice(around)
            # one history stays below ~300 KB of payload (the extracted model and parser recurse along the bytes)
            n = max(1, min(n * scale, 220000, budget[0]))
            budget[0] = max(1, budget[0] - n)
            return n
        nvals = rng.choice([1, 2, 3])
        if shape == "bytes":
            self.nodes = [G.Node("bytes")]
            self.values = ["(bytes %s)" % C.hx(payload(rng, content, size())) for _ in range(nvals)]
        elif shape == "string":
            # text: every byte below 0x80, so any payload is valid UTF-8; the 'rand' content is random 7-bit text
            self.nodes = [G.Node("string")]
            def txt(n):
                b = payload(rng, content, n)
                return bytes(x & 0x7f for x in b)
            self.values = ["(string %s)" % C.hx(txt(size())) for _ in range(nvals)]
        elif shape == "fixed":
            n = size()
            nvals = max(1, min(nvals, 300000 // n))
            self.nodes = [G.Node("fixed", name="F", size=n)]
            self.values = ["(fixed %s)" % C.hx(payload(rng, content, n)) for _ in range(nvals)]
        elif shape == "record":
            self.nodes = [G.Node("record", name="R", fields=[("id", 1), ("payload", 2)]), G.Node("long"), G.Node("bytes")]
            self.values = ["(record (long %d) (bytes %s))" % (i, C.hx(payload(rng, content, size()))) for i in range(nvals)]
        elif shape == "doubles":
            self.nodes = [G.Node("array", items=1), G.Node("double")]
            def arr(n):
                k = max(1, min(n, 16000) // 8)      # the model's array serializer is slow on long arrays
                if content == "rand":
                    its = ["(double %d)" % G.f64_bits(rng) for _ in range(k)]
                else:
                    x = G.f64_bits(rng)
                    its = ["(double %d)" % x] * k
                return "(array (blk 0 %s))" % " ".join(its)
            self.values = [arr(size()) for _ in range(rng.choice([1, 2]))]
        elif shape == "many":
            # the demo shape of real use: many medium values, the block is what gets big
            self.nodes = [G.Node("record", name="R", fields=[("id", 1), ("payload", 2)]), G.Node("long"), G.Node("bytes")]
            per = rng.choice([100, 1000, 3000])
            total = size() if not want_far else rng.choice([70000, 100000, 140000])
            k = max(2, min(150, total // per))
            self.values = ["(record (long %d) (bytes %s))" % (i, C.hx(payload(rng, content, per))) for i in range(k)]
        else:
            raise ValueError(shape)
        self.schema = G.schema_sx(self.nodes)

def big_block_size(rng, h):
    if h.shape == "many":
        return rng.choice([65536, 100000, 1 << 20]) if h.want_far else rng.choice([4096, 40000, 65536, 65536, 100000, 1 << 20])
    return rng.choice([0, 64, 4096, 65536, 65536, 1 << 20])

def big_plan(rng, tier, codecs=None):
    """directed enumeration for the encode loops: every codec setting x every starting length of the output buffer
    (hook H3; only 32768 and one small one for the codecs without a loop) x rotating value shapes; for every loop codec
    setting and START alternately blocks of more than 64 KB of incompressible data. -> [(codec, start, shape, content, far)]"""
    plan = []
    reps = 1 if tier == "quick" else 6
    k = rng.randrange(100)
    for rep in range(reps):
        for ci, c in enumerate(codecs or CODECS):
            fam = codec_family(c)
            starts = H3_STARTS if fam in LOOP_FAMILIES else [32768, rng.choice([1, 64])]
            for si, start in enumerate(starts):
                k += 1
                shapes = [sh for sh in BIG_SHAPES if not (sh == "doubles" and start > 4096)]
                shape = shapes[k % len(shapes)]
                far = (k + ci) % 2 == 0 or (start == 32768 and fam in LOOP_FAMILIES)
                if shape == "doubles":
                    far = False
                content = "rand" if far or (k % 5) else rng.choice(["text", "zero"])
                plan.append((c, start, shape, content, far))
    return plan

def growth_steps(start, size):
    """how many times a buffer starting at `start` must have doubled to hold `size` bytes"""
    k = 0
    while start < size:
        start *= 2
        k += 1
    return k

# ---------------------------------------------------------------- independent decoding of block data
def py_block_decode(fam, data):
    """Python's zlib / bz2 / lzma (independent of the Rust crates): the data must be exactly ONE complete stream --
    a stream cut short, or bytes behind its end, is an error"""
    if fam == "null":
        return data
    if fam == "deflate":
        d = zlib.decompressobj(-15)
    elif fam == "bzip2":
        d = bz2.BZ2Decompressor()
    elif fam == "xz":
        d = lzma.LZMADecompressor(format=lzma.FORMAT_XZ)
    else:
        raise KeyError(fam)
    out = d.decompress(data)
    if not d.eof:
        raise ValueError("the %s stream is not complete (cut short after %d decoded bytes)" % (fam, len(out)))
    if d.unused_data:
        raise ValueError("%d bytes behind the end of the %s stream" % (len(d.unused_data), fam))
    return out

class BlockDecoder:
    """payloads of block data by decoders other than the crate's reader: Python's zlib/bz2/lzma for deflate/bzip2/xz; for
    snappy and zstandard (no decoder in Python's standard library) the harness command `blockdec`: snap's raw decoder
    (+ the 4-byte trailer checked here: big-endian zlib.crc32 of the payload) and zstd's decode_all"""
    def __init__(self):
        self.cache = {}
        self.todo = {"snappy": [], "zstandard": []}
    def want(self, fam, data):
        key = (fam, data)
        if key in self.cache:
            return
        if fam in self.todo:
            self.cache[key] = None
            self.todo[fam].append(data)
        else:
            try:
                self.cache[key] = (py_block_decode(fam, data), "")
            except Exception as e:
                self.cache[key] = (None, str(e)[:200])
    def flush(self):
        for fam, datas in self.todo.items():
            if not datas:
                continue
            lines, groups = [], []
            cur, size = [], 0
            for d in datas:
                cur.append(d)
                size += len(d)
                if size > 400000 or len(cur) >= 50:
                    groups.append(cur); cur, size = [], 0
            if cur:
                groups.append(cur)
            lines = ["blockdec %s %s" % (fam, " ".join(C.hx(d) for d in g)) for g in groups]
            for g, res in zip(groups, C.run_parallel(C.AVRODRIVE, lines)):
                p = C.parse_sx(res)
                items = p[0][1:] if p and isinstance(p[0], list) and p[0][0] == "ok" else []
                for i, d in enumerate(g):
                    it = items[i] if i < len(items) else "bad"
                    if it == "bad" or not isinstance(it, list):
                        self.cache[(fam, d)] = (None, "the %s library's decoder rejects the block data" % fam)
                        continue
                    pl = C.unhex(it[1])
                    if fam == "snappy":
                        want = (zlib.crc32(pl) & 0xffffffff).to_bytes(4, "big")
                        if d[-4:] != want:
                            self.cache[(fam, d)] = (None, "snappy block does not end with the big-endian CRC32 of its payload (%s, expected %s)" % (d[-4:].hex(), want.hex()))
                            continue
                    self.cache[(fam, d)] = (pl, "")
            self.todo[fam] = []
    def get(self, fam, data):
        r = self.cache.get((fam, data))
        if r is None:
            self.flush()
            r = self.cache.get((fam, data))
        return r

def parse_fileparse(res):
    """result of the extracted reference parser -> None | dict(meta=[(k, v)], sync, blocks=[(count, data)])"""
    p = C.parse_sx(res)
    if p and isinstance(p[0], list) and p[0] and p[0][0] == "invalid":
        return None
    if not p or not isinstance(p[0], list) or p[0][0] != "ok":
        raise RuntimeError("the reference parser did not run (not a verdict): %s" % res[:100])
    p = p[0]
    return {"meta": [(C.unhex(kv[0]), C.unhex(kv[1])) for kv in p[1][1:]], "sync": C.unhex(p[2]),
            "blocks": [(int(bk[1]), C.unhex(bk[2])) for bk in p[3:]]}

def raw_view(header, sync, blocks):
    """the file with every block's data replaced by its payload (what Container.v's writer gives with the identity as
    block compressor): header ++ per block varint(count) varint(|payload|) payload sync"""
    out = bytearray(header)
    for cnt, pl in blocks:
        out += G.varint(cnt) + G.varint(len(pl)) + pl + sync
    return bytes(out)

def run_model(lines):
    """the extracted model / reference parser on long inputs: run with a large stack (they recurse along the bytes)"""
    import codecloop
    return codecloop.run_model(lines, jobs=16)
