"""Container-file histories: generation and the checks shared by C05, C06, C15, C16, C17."""
import zlib, bz2, lzma
import common as C
import gen as G
import codec
from present import Presenter

SYNC = bytes(range(0x30, 0x40))
CODECS = ["null", "(deflate default)", "(deflate 1)", "(deflate 9)", "(bzip2 default)", "(bzip2 1)", "snappy",
          "(xz default)", "(xz 1)", "(zstandard default)", "(zstandard 1)", "(zstandard 19)"]
CODEC_NAMES = {"null": "null", "deflate": "deflate", "bzip2": "bzip2", "snappy": "snappy", "xz": "xz",
               "zstandard": "zstandard"}

def codec_family(c):
    return c.strip("()").split()[0]

class History:
    """one schema, a list of values, an op sequence"""
    def __init__(self, rng, n_values=None, big=False, schema_kw=None):
        self.rng = rng
        kw = schema_kw or {"max_nodes": rng.choice([1, 3, 6]), "max_depth": 3}
        nodes, v0 = G.schema_and_value(rng, **kw)
        if big:
            # big: values carry long byte strings / strings -- the schema must have a place for them
            for _ in range(40):
                if any(nd.kind() in ("bytes", "string") for nd in nodes):
                    break
                nodes, v0 = G.schema_and_value(rng, **kw)
        self.nodes = nodes
        vg = G.ValueGen(rng, nodes, layouts=False, big=big)
        n = n_values if n_values is not None else (rng.choice([0, 1, 2, 3, 5, 8]) if not big else rng.choice([2, 3, 5, 8]))
        vals = ([v0] if not big else []) + [vg.gen(0) for _ in range(max(0, n - (0 if big else 1)))]
        self.values = [v for v in vals if v is not None][:n] if n > 0 else []
        self.schema = G.schema_sx(nodes)

    def prepare(self):
        """asks the spec for encodings / expected events / canonical presentations"""
        self.spec = codec.spec_batch([(self.nodes, v) for v in self.values]) if self.values else []

def prepare_all(hs):
    """History.prepare for many histories in one (parallel) batch of the specification oracle"""
    pairs = [(h.nodes, v) for h in hs for v in h.values]
    res = codec.spec_batch(pairs) if pairs else []
    i = 0
    for h in hs:
        h.spec = res[i:i + len(h.values)]
        i += len(h.values)

def damaged(rng, sv):
    """a presentation damaged at a random leaf (Serialize impl failure or type mismatch): the value fails, possibly after
    part of it -- out-of-order record fields, buffered byte sequences -- has been produced"""
    toks = sv.split(" ")
    cands = [i for i, t in enumerate(toks) if t.startswith(("(i32", "(str", "(i64", "(bool", "(f64", "(bytes", "(u32")) or t == "unit"]
    if not cands:
        return "fail"
    i = rng.choice(cands)
    depth_close = toks[i].count("(") - toks[i].count(")")
    j = i
    while depth_close > 0 and j + 1 < len(toks):
        j += 1
        depth_close += toks[j].count("(") - toks[j].count(")")
    tail = ")" * (-depth_close) if depth_close < 0 else ""
    return " ".join(toks[:i] + [rng.choice(["fail", "(seq none fail)", "(f32 0)", "(some fail)"]) + tail] + toks[j + 1:])

def make_ops(rng, h, allow_fail=True, allow_push=True, end=None, reorder=False):
    """returns (ops as sexp strings, expected: list of indexes into h.values in file order, flush points).
    reorder: values are presented in random serde shapes (record fields out of order / omitted when nullable, structs or
    maps, ...) and failing values are such presentations damaged at a random leaf -- the writer reuses one serializer
    configuration, so what a failed value left behind must not leak into the next one"""
    ops, expected = [], []
    for i, s in enumerate(h.spec):
        r = rng.random()
        if allow_fail and reorder and r < 0.3:
            pr = Presenter(rng, h.nodes, break_prob=0.0, by_type_prob=0.1)
            ops.append(("fail", "(ser %s)" % damaged(rng, pr.pres(0, C.parse_sx(s["evalue"])[0]))))
        elif allow_fail and r < 0.15:
            ops.append(("fail", "(ser %s)" % rng.choice(["fail", "(seq none fail)", "(struct %s 1 (%s fail))" % (C.hx("X"), C.hx("f0")),
                                                         "(newtype_struct %s (some fail))" % C.hx("N")])))
        if allow_push and r > 0.8:
            # pre-serialized push of this value (and maybe the next one)
            ops.append(("push", "(push %s 1)" % s["canon"], [i]))
            expected.append(i)
        elif reorder:
            pr = Presenter(rng, h.nodes, break_prob=0.0, by_type_prob=0.1)
            sv = pr.pres(0, C.parse_sx(s["evalue"])[0])
            if pr.needs_slow or pr.expect != "value":
                sv = s["present"]
            ops.append(("ser", "(ser %s)" % sv, [i]))
            expected.append(i)
        else:
            # canonical presentation: the block bytes are then the canonical encodings
            ops.append(("ser", "(ser %s)" % s["present"], [i]))
            expected.append(i)
        if rng.random() < 0.2:
            ops.append(("finish", "finish"))
    e = end if end is not None else rng.choice(["into_inner", "drop", "finish", "none", "into_inner"])
    if e != "none":
        ops.append((e, e))
    return ops, expected

def cw_line(h, codec_sx, block_size, sink, meta, ops, with_json=None):
    metas = "(meta%s)" % "".join(" (%s %s)" % (C.hx(k), C.hx(v)) for k, v in meta)
    pre = "cw "
    if with_json is not None:
        pre += C.hx(with_json) + " "
    return "%s%s %s %d %s %s %s %s" % (pre, h.schema, codec_sx, block_size, C.hx(SYNC), sink, metas,
                                       " ".join(o[1] for o in ops))

def parse_cw(res):
    """-> dict(build=(len), ops=[(res, len)], sink=bytes) ; res in ok/err/gone/panic..."""
    p = C.parse_sx(res)
    if not p:
        return None
    p = p[0]
    if p[0] != "ok":
        return {"build_err": True, "raw": res}
    built = p[1]
    ops = []
    for o in p[2:-1]:
        r = o[0]
        if isinstance(r, list):
            r = r[0]
        ops.append((r, int(o[1])))
    calls = [int(o[2]) for o in p[2:-1] if len(o) > 2]
    return {"build_err": False, "built": int(built[1]), "ops": ops, "sink": C.unhex(p[-1]),
            "built_calls": int(built[2]) if len(built) > 2 else None, "calls": calls if len(calls) == len(ops) else None}

def parse_cr(res):
    """-> dict(open_err, json, meta, items=[('ok', text) | ('eof',) | ('err', class)])"""
    p = C.parse_sx(res)
    if not p:
        return {"crash": res}
    p = p[0]
    if p[0] == "open-err":
        return {"open_err": p[1] if len(p) > 1 else True}
    if p[0] != "ok":
        return {"crash": res}
    i = 1
    out = {"open_err": None}
    if isinstance(p[1], str):
        out["json"] = C.unhex(p[1])
        i = 2
    out["meta"] = [(C.unhex(kv[0]), C.unhex(kv[1])) for kv in p[i][1:]]
    items = []
    for it in p[i + 1:]:
        if it == "eof":
            items.append(("eof",))
        elif it[0] == "ok":
            items.append(("ok", G.erase_borrow_text(C.show_sx(it[1]))))
        elif it[0] == "err":
            items.append(("err", it[1]))
        else:
            items.append((C.show_sx(it),))
    out["items"] = items
    return out

def values_prefix_then_eof(items, expected_texts, must_be_all):
    """the reader's items must be a prefix of the expected values followed by eof, eof, with no
    error; returns (ok, k, why)"""
    k = 0
    for it in items:
        if it[0] == "ok":
            if k >= len(expected_texts) or it[1] != expected_texts[k]:
                return False, k, "value %d differs or was never written: %s" % (k, it[1][:200])
            k += 1
        elif it[0] == "eof":
            break
        else:
            return False, k, "reader reported %s" % (it,)
    else:
        return False, k, "no end of stream"
    if must_be_all and k != len(expected_texts):
        return False, k, "only %d of %d values present after a flush point" % (k, len(expected_texts))
    return True, k, ""

# ---------------------------------------------------------------- hook H3: the encode loops' starting buffer length
# the crate starts the output buffer of the deflate / bzip2 / xz loops at 32 KiB and doubles it; with hook H3 the start is
# chosen by the run, so that small blocks already take the loops through several growth steps
H3_STARTS = [1, 2, 64, 1024, 4096, 32768]
LOOP_FAMILIES = ("deflate", "bzip2", "xz")

def with_start(start, cwline):
    """`cw ...` -> `cwh START ...` (harness only; the writer model does not depend on START)"""
    assert cwline.startswith("cw ")
    return cwline if start is None else "cwh %d %s" % (start, cwline[3:])

def raw_model_line(cwline_with_json):
    """`cw xJSON ...` -> `cwraw xJSON ...`: Container.v's writer with the identity as block compressor, for any codec"""
    assert cwline_with_json.startswith("cw ")
    return "cwraw " + cwline_with_json[3:]

WORDS = [b"avro", b"block", b"codec", b"deflate", b"stream", b"buffer", b"schema", b"record", b"union", b"fixed",
         b"sync", b"marker", b"header", b"long", b"bytes", b"string", b"map", b"array", b"enum", b"null"]

def payload(rng, kind, n):
    """n bytes: incompressible ('rand'), one repeated byte ('zero'), words with noise ('text', ratio ~3)"""
    if n <= 0:
        return b""
    if kind == "rand":
        return rng.randbytes(n)
    if kind == "zero":
        return bytes([rng.randrange(3)]) * n
    out = bytearray()
    while len(out) < n:
        out += rng.choice(WORDS) + (b" " if rng.random() < 0.8 else bytes([0x21 + rng.randrange(90)]))
    return bytes(out[:n])

BIG_SHAPES = ["bytes", "record", "string", "fixed", "doubles", "many"]

def big_sizes(rng, start):
    """payload sizes around the growth steps of a buffer starting at `start`, and past the point (~64 KB of incompressible
    input) where the deflate library stops taking input in before its output has been drained"""
    around = [start - 1, start, start + 1, 2 * start - 1, 2 * start + 1, 4 * start + 3, 8 * start + 5, 16 * start + 1, 40 * start]
    around = [n for n in around if 1 <= n <= 140000]
    far = [33000, 40000, 60000, 66000, 70000, 100000, 131073, 200000]
    return around, far

class BigHistory(History):
    """values whose encodings make a block's compressed form outgrow the encode loops' output buffer several times:
    shapes: one `bytes` / `string` / `fixed` / record {id: long, payload: bytes} / array of random doubles per value, or
    many 1000-byte values gathered into big blocks; contents incompressible (mostly), text-like or constant"""
    def __init__(self, rng, start, shape, content=None, want_far=False):
        self.rng = rng
        self.start = start
        self.shape = shape
        around, far = big_sizes(rng, start)
        content = content or rng.choice(["rand", "rand", "rand", "text", "zero"])
        self.content = content
        scale = {"rand": 1, "text": 3, "zero": 1}[content]
        self.want_far = want_far
        first = [True]
        budget = [300000]
        def size():
            if want_far and first[0]:
                # at least one value past the point where the deflate library stops taking input in
                first[0] = False
                n = rng.choice([66000, 70000, 100000, 131073, 200000])
            else:
                n = rng.choice(far) if rng.random() < 0.15 else rng.choice(around)
            # one history stays below ~300 KB of payload (the extracted model and parser recurse along the bytes)
            n = max(1, min(n * scale, 220000, budget[0]))
            budget[0] = max(1, budget[0] - n)
            return n
        nvals = rng.choice([1, 2, 3])
        if shape == "bytes":
            self.nodes = [G.Node("bytes")]
            self.values = ["(bytes %s)" % C.hx(payload(rng, content, size())) for _ in range(nvals)]
        elif shape == "string":
            # text: every byte below 0x80, so any payload is valid UTF-8; the 'rand' content is random 7-bit text
            self.nodes = [G.Node("string")]
            def txt(n):
                b = payload(rng, content, n)
                return bytes(x & 0x7f for x in b)
            self.values = ["(string %s)" % C.hx(txt(size())) for _ in range(nvals)]
        elif shape == "fixed":
            n = size()
            nvals = max(1, min(nvals, 300000 // n))
            self.nodes = [G.Node("fixed", name="F", size=n)]
            self.values = ["(fixed %s)" % C.hx(payload(rng, content, n)) for _ in range(nvals)]
        elif shape == "record":
            self.nodes = [G.Node("record", name="R", fields=[("id", 1), ("payload", 2)]), G.Node("long"), G.Node("bytes")]
            self.values = ["(record (long %d) (bytes %s))" % (i, C.hx(payload(rng, content, size()))) for i in range(nvals)]
        elif shape == "doubles":
            self.nodes = [G.Node("array", items=1), G.Node("double")]
            def arr(n):
                k = max(1, min(n, 16000) // 8)      # the model's array serializer is slow on long arrays
                if content == "rand":
                    its = ["(double %d)" % G.f64_bits(rng) for _ in range(k)]
                else:
                    x = G.f64_bits(rng)
                    its = ["(double %d)" % x] * k
                return "(array (blk 0 %s))" % " ".join(its)
            self.values = [arr(size()) for _ in range(rng.choice([1, 2]))]
        elif shape == "many":
            # the demo shape of real use: many medium values, the block is what gets big
            self.nodes = [G.Node("record", name="R", fields=[("id", 1), ("payload", 2)]), G.Node("long"), G.Node("bytes")]
            per = rng.choice([100, 1000, 3000])
            total = size() if not want_far else rng.choice([70000, 100000, 140000])
            k = max(2, min(150, total // per))
            self.values = ["(record (long %d) (bytes %s))" % (i, C.hx(payload(rng, content, per))) for i in range(k)]
        else:
            raise ValueError(shape)
        self.schema = G.schema_sx(self.nodes)

def big_block_size(rng, h):
    if h.shape == "many":
        return rng.choice([65536, 100000, 1 << 20]) if h.want_far else rng.choice([4096, 40000, 65536, 65536, 100000, 1 << 20])
    return rng.choice([0, 64, 4096, 65536, 65536, 1 << 20])

def big_plan(rng, tier, codecs=None):
    """directed enumeration for the encode loops: every codec setting x every starting length of the output buffer
    (hook H3; only 32768 and one small one for the codecs without a loop) x rotating value shapes; for every loop codec
    setting and START alternately blocks of more than 64 KB of incompressible data. -> [(codec, start, shape, content, far)]"""
    plan = []
    reps = 1 if tier == "quick" else 6
    k = rng.randrange(100)
    for rep in range(reps):
        for ci, c in enumerate(codecs or CODECS):
            fam = codec_family(c)
            starts = H3_STARTS if fam in LOOP_FAMILIES else [32768, rng.choice([1, 64])]
            for si, start in enumerate(starts):
                k += 1
                shapes = [sh for sh in BIG_SHAPES if not (sh == "doubles" and start > 4096)]
                shape = shapes[k % len(shapes)]
                far = (k + ci) % 2 == 0 or (start == 32768 and fam in LOOP_FAMILIES)
                if shape == "doubles":
                    far = False
                content = "rand" if far or (k % 5) else rng.choice(["text", "zero"])
                plan.append((c, start, shape, content, far))
    return plan

def growth_steps(start, size):
    """how many times a buffer starting at `start` must have doubled to hold `size` bytes"""
    k = 0
    while start < size:
        start *= 2
        k += 1
    return k

# ---------------------------------------------------------------- independent decoding of block data
def py_block_decode(fam, data):
    """Python's zlib / bz2 / lzma (independent of the Rust crates): the data must be exactly ONE complete stream --
    a stream cut short, or bytes behind its end, is an error"""
    if fam == "null":
        return data
    if fam == "deflate":
        d = zlib.decompressobj(-15)
    elif fam == "bzip2":
        d = bz2.BZ2Decompressor()
    elif fam == "xz":
        d = lzma.LZMADecompressor(format=lzma.FORMAT_XZ)
    else:
        raise KeyError(fam)
    out = d.decompress(data)
    if not d.eof:
        raise ValueError("the %s stream is not complete (cut short after %d decoded bytes)" % (fam, len(out)))
    if d.unused_data:
        raise ValueError("%d bytes behind the end of the %s stream" % (len(d.unused_data), fam))
    return out

class BlockDecoder:
    """payloads of block data by decoders other than the crate's reader: Python's zlib/bz2/lzma for deflate/bzip2/xz; for
    snappy and zstandard (no decoder in Python's standard library) the harness command `blockdec`: snap's raw decoder
    (+ the 4-byte trailer checked here: big-endian zlib.crc32 of the payload) and zstd's decode_all"""
    def __init__(self):
        self.cache = {}
        self.todo = {"snappy": [], "zstandard": []}
    def want(self, fam, data):
        key = (fam, data)
        if key in self.cache:
            return
        if fam in self.todo:
            self.cache[key] = None
            self.todo[fam].append(data)
        else:
            try:
                self.cache[key] = (py_block_decode(fam, data), "")
            except Exception as e:
                self.cache[key] = (None, str(e)[:200])
    def flush(self):
        for fam, datas in self.todo.items():
            if not datas:
                continue
            lines, groups = [], []
            cur, size = [], 0
            for d in datas:
                cur.append(d)
                size += len(d)
                if size > 400000 or len(cur) >= 50:
                    groups.append(cur); cur, size = [], 0
            if cur:
                groups.append(cur)
            lines = ["blockdec %s %s" % (fam, " ".join(C.hx(d) for d in g)) for g in groups]
            for g, res in zip(groups, C.run_parallel(C.AVRODRIVE, lines)):
                p = C.parse_sx(res)
                items = p[0][1:] if p and isinstance(p[0], list) and p[0][0] == "ok" else []
                for i, d in enumerate(g):
                    it = items[i] if i < len(items) else "bad"
                    if it == "bad" or not isinstance(it, list):
                        self.cache[(fam, d)] = (None, "the %s library's decoder rejects the block data" % fam)
                        continue
                    pl = C.unhex(it[1])
                    if fam == "snappy":
                        want = (zlib.crc32(pl) & 0xffffffff).to_bytes(4, "big")
                        if d[-4:] != want:
                            self.cache[(fam, d)] = (None, "snappy block does not end with the big-endian CRC32 of its payload (%s, expected %s)" % (d[-4:].hex(), want.hex()))
                            continue
                    self.cache[(fam, d)] = (pl, "")
            self.todo[fam] = []
    def get(self, fam, data):
        r = self.cache.get((fam, data))
        if r is None:
            self.flush()
            r = self.cache.get((fam, data))
        return r

def parse_fileparse(res):
    """result of the extracted reference parser -> None | dict(meta=[(k, v)], sync, blocks=[(count, data)])"""
    p = C.parse_sx(res)
    if p and isinstance(p[0], list) and p[0] and p[0][0] == "invalid":
        return None
    if not p or not isinstance(p[0], list) or p[0][0] != "ok":
        raise RuntimeError("the reference parser did not run (not a verdict): %s" % res[:100])
    p = p[0]
    return {"meta": [(C.unhex(kv[0]), C.unhex(kv[1])) for kv in p[1][1:]], "sync": C.unhex(p[2]),
            "blocks": [(int(bk[1]), C.unhex(bk[2])) for bk in p[3:]]}

def raw_view(header, sync, blocks):
    """the file with every block's data replaced by its payload (what Container.v's writer gives with the identity as
    block compressor): header ++ per block varint(count) varint(|payload|) payload sync"""
    out = bytearray(header)
    for cnt, pl in blocks:
        out += G.varint(cnt) + G.varint(len(pl)) + pl + sync
    return bytes(out)

# ---------------------------------------------------------------- sink schedules (C06, C15, C16)
# The harness' scheduled sink (harness/src/io.rs ScheduledWriter) and VectoredWrite.v's sink (next_ans / available) are
# the same machine: one answer per call of `write` / `write_vectored` -- (a K): accept min(max(K,1), available) bytes, i:
# Err(Interrupted), z: Ok(0), h: a hard error; the last answer repeats. VECTORED = 1: write_vectored GATHERS across all the
# slices it is given (a short write may end anywhere, also strictly inside the 2nd or 3rd slice: block data, sync marker);
# VECTORED = 0: std's default write_vectored (first non-empty slice only, a call never spans a slice boundary).
HDR_ONE = "(a 1000000)"     # first answer: the file header (ONE write_all of build) goes out in one call, so that every
                            # later call index is a call of some block flush

def read_varint(b, pos):
    shift, z = 0, 0
    while True:
        x = b[pos]; pos += 1
        z |= (x & 0x7f) << shift
        shift += 7
        if not x & 0x80:
            break
    return (z >> 1) ^ -(z & 1), pos

def file_blocks(sink, built):
    """[(block header length, data length)] of the blocks behind the first `built` bytes of a file as the writer lays it
    out (count, size, data, 16-byte marker); stops at the first thing that is not laid out like that"""
    out, pos = [], built
    try:
        while pos < len(sink):
            p0 = pos
            _, pos = read_varint(sink, pos)
            size, pos = read_varint(sink, pos)
            if size < 0 or pos + size + 16 > len(sink):
                break
            out.append((pos - p0, size))
            pos += size + 16
    except IndexError:
        pass
    return out

def sched_sx(vectored, answers):
    return "(sched %d %s)" % (vectored, " ".join(answers))

def expand(answers, n):
    """the first n answers of a schedule (the last one repeats)"""
    return [answers[min(i, len(answers) - 1)] for i in range(n)]

def base_schedules(rng, blocks, chop_header=True, n_random=2):
    """benign partial-write sinks for one file whose blocks are `blocks` = [(header length, data length)]:
    k bytes per call for k in {1,2,3} (gathering and default write_vectored), for k in 2..48 such that some block has
    header + data = m*k (a call ends exactly where the sync marker starts) or header + data + 16 = m*k, k strictly between
    the header length and header + data (a gathering sink's first call ends strictly inside the data), random k in 4..48,
    irregular sizes. -> [(tag, vectored, answers)] ; all but the 'chopped' ones let the file header through in one call"""
    out = []
    for k in (1, 2, 3):
        for v in (0, 1):
            out.append(("k%d" % k, v, [HDR_ONE, "(a %d)" % k]))
    ks = set()
    div = [k for k in range(4, 49) if any((h + b) % k == 0 for h, b in blocks if b)]
    div2 = [k for k in range(4, 49) if any((h + b + 16) % k == 0 for h, b in blocks if b)]
    inside = [k for k in range(4, 49) if any(h < k < h + b for h, b in blocks)]
    inside3 = [k for k in range(4, 49) if any(h + b < k < h + b + 16 for h, b in blocks)]
    for cands, cnt in ((div, 2), (div2, 1), (inside, 2), (inside3, 1), (list(range(4, 49)), n_random)):
        for _ in range(cnt):
            if cands:
                ks.add(rng.choice(cands))
    for k in sorted(ks):
        v = rng.randint(0, 1)
        out.append(("k%d" % k, v, [HDR_ONE, "(a %d)" % k]))
        if k in inside or k in inside3 or rng.random() < 0.3:
            out.append(("k%d" % k, 1 - v, [HDR_ONE, "(a %d)" % k]))
    for _ in range(2):
        ans = [HDR_ONE] + ["(a %d)" % rng.choice([1, 1, 2, 3, 4, 5, 7, 15, 16, 17, 18, 19, 33, 48, 1000]) for _ in range(rng.randint(2, 14))]
        out.append(("irregular", rng.randint(0, 1), ans))
    if chop_header:
        for k in rng.sample([1, 2, 3, 5, 16, 17, 100], 2):
            out.append(("chopped-header-k%d" % k, rng.randint(0, 1), ["(a %d)" % k]))
    return out

def flush_ranges(p):
    """[(first call index, end call index)] of the calls that each writer call made on the sink, from the harness' result"""
    out = []
    prev = p["built_calls"]
    for c in p["calls"]:
        if c > prev:
            out.append((prev, c))
        prev = c
    return out

def injected_schedules(rng, answers, p, singles=10, bad=True):
    """schedules derived from a benign one whose run on the crate is `p` (call counts per writer call): 'interrupted'
    injected at call indexes of block flushes -- first call of a flush, after partial progress, last call, anywhere; bursts of
    2 / 16 / 17 / 18 / 40 interruptions after partial progress; every call interrupted once (> 16 interruptions in total
    during one flush as soon as a flush takes > 16 calls), every call interrupted twice, random interruptions; and (bad)
    a zero-length write / hard error (kind Other and two more kinds, see bad_answers) at a call index.
    -> [(kind, tag, answers[, index of the bad answer])], kind in benign | z | h | (h KIND)"""
    total = p["calls"][-1] if p["calls"] else p["built_calls"]
    c0 = p["built_calls"]
    fl = flush_ranges(p)
    out = []
    if total <= c0 or not fl:
        return out
    base = expand(answers, total + 1)
    def inject(pos, what):
        return base[:pos] + what + base[pos:]
    pos = set()
    if total - c0 <= singles:
        pos = set(range(c0, total))
    else:
        for (s, e) in rng.sample(fl, min(len(fl), 3)):
            pos.update([s, min(s + 1, e - 1), e - 1, rng.randrange(s, e)])
        while len(pos) < singles:
            pos.add(rng.randrange(c0, total))
    for q in sorted(pos)[:singles + 4]:
        out.append(("benign", "i@%d" % q, inject(q, ["i"])))
    for n in (2, 16, 17, 18, 40):
        s, e = rng.choice(fl)
        q = rng.randrange(s, e) if rng.random() < 0.3 else min(s + rng.randint(1, 3), e - 1)
        out.append(("benign", "i*%d@%d" % (n, q), inject(q, ["i"] * n)))
    out.append(("benign", "every-call-interrupted-once", base[:c0] + [x for a in base[c0:] for x in ("i", a)]))
    out.append(("benign", "every-call-interrupted-once-after-the-first", base[:c0 + 1] + [x for a in base[c0 + 1:] for x in ("i", a)]))
    out.append(("benign", "every-call-interrupted-twice", base[:c0] + [x for a in base[c0:] for x in ("i", "i", a)]))
    out.append(("benign", "random-interruptions", [x for a in base for x in (["i"] * rng.choice([0, 0, 1, 1, 2, 5]) + [a])]))
    if bad:
        for kind in ["z", "h"] + rng.sample(bad_answers(rng)[2:], 2):
            qs = {rng.randrange(0, total), rng.randrange(c0, total)}
            s, e = rng.choice(fl)
            qs.add(min(s + 1, e - 1))
            for q in sorted(qs):
                pre = base[:q]
                if rng.random() < 0.3:
                    pre = [x for a in pre for x in (["i"] if rng.random() < 0.3 else []) + [a]]
                out.append((kind, "%s@%d" % (kind.strip("()").replace(" ", "-"), len(pre)), pre + [kind, "(a 1000000)"], len(pre)))
    return out

def sized_history(rng, k):
    """schema `bytes`, one value per block, lengths such that block header + block data = m*k for several m (a sink taking
    k bytes per call ends a call exactly where the sync marker starts), and one off by one"""
    h = History.__new__(History)
    h.rng = rng
    h.nodes = [G.Node("bytes")]
    by_total = {}
    for L in range(0, 400):
        b = len(G.varint(L)) + L
        by_total.setdefault(1 + len(G.varint(b)) + b, L)
    ms = [m for m in range(1, 400) if m * k in by_total]
    pick = [ms[0], rng.choice(ms[:6]), rng.choice(ms[:40])]
    lens = [by_total[m * k] for m in pick] + [by_total[pick[1] * k] + 1]
    rng.shuffle(lens)
    h.values = ["(bytes %s)" % C.hx(rng.randbytes(L)) for L in lens]
    h.schema = G.schema_sx(h.nodes)
    return h

def scheduled_runs(rng, cases, n_inject_bases=3, bad=True, singles=10, chop_header=True, n_random=2):
    """cases: [dict(h, ops, codec, bsz, meta, start, json, bp)] (bp = parse_cw of the run on the accept-everything sink).
    Runs every case through the benign partial-write sinks of base_schedules, then -- the crate's per-call sink call counts
    known -- through the schedules of injected_schedules derived from n_inject_bases of them; the writer model (null codec)
    gets the same schedules. -> [dict(ci, kind, tag, vectored, sched, line, mline, res, pi, rm)]"""
    specs = []
    for ci, c in enumerate(cases):
        blocks = file_blocks(c["bp"]["sink"], c["bp"]["built"])
        for tag, v, answers in base_schedules(rng, blocks, chop_header=chop_header, n_random=n_random):
            specs.append((ci, tag, v, answers))
    return scheduled_runs_from(rng, cases, specs, n_inject_bases=n_inject_bases, bad=bad, singles=singles)

def scheduled_runs_from(rng, cases, specs, n_inject_bases=3, bad=True, singles=10):
    """scheduled_runs with the benign base schedules given: specs = [(case index, tag, vectored, answers)]"""
    runs = []
    def mk(ci, kind, tag, v, answers, bad_at=None):
        c = cases[ci]
        sx = sched_sx(v, answers)
        line = with_start(c.get("start"), cw_line(c["h"], c["codec"], c["bsz"], sx, c["meta"], c["ops"]))
        mline = cw_line(c["h"], c["codec"], c["bsz"], sx, c["meta"], c["ops"], with_json=c["json"]) if c["codec"] == "null" else None
        return {"ci": ci, "kind": kind, "tag": tag, "vectored": v, "answers": answers, "sched": sx, "line": line, "mline": mline,
                "bad_at": bad_at}
    bases = [mk(ci, "benign", tag, v, answers) for ci, tag, v, answers in specs]
    for r, res in zip(bases, C.run_parallel(C.AVRODRIVE, [r["line"] for r in bases])):
        r["res"], r["pi"] = res, parse_cw(res)
    runs.extend(bases)
    inj = []
    by_case = {}
    for r in bases:
        if r["pi"] and not r["pi"].get("build_err") and r["pi"].get("calls") and r["answers"][0] == HDR_ONE:
            by_case.setdefault(r["ci"], []).append(r)
    for ci, rs in by_case.items():
        small = [r for r in rs if r["tag"] in ("k1", "k2", "k3")]
        pick = []
        for v in (1, 0):
            cand = [r for r in small if r["vectored"] == v]
            if cand:
                pick.append(rng.choice(cand))
        rest = [r for r in rs if r not in pick]
        while len(pick) < n_inject_bases and rest:
            pick.append(rest.pop(rng.randrange(len(rest))))
        for r in pick[:n_inject_bases]:
            for kind, tag, answers, *at in injected_schedules(rng, r["answers"], r["pi"], singles=singles, bad=bad):
                inj.append(mk(ci, kind, "%s/%s" % (r["tag"], tag), r["vectored"], answers, at[0] if at else None))
    for r, res in zip(inj, C.run_parallel(C.AVRODRIVE, [r["line"] for r in inj])):
        r["res"], r["pi"] = res, parse_cw(res)
    runs.extend(inj)
    ml = [r for r in runs if r["mline"] is not None]
    for r, rm in zip(ml, run_model([r["mline"] for r in ml])):
        r["rm"] = rm
    for r in runs:
        r.setdefault("rm", None)
    return runs

def canon_ops(ops):
    return [("ok" if r == "ok" else ("gone" if r == "gone" else "err"), l) for r, l in ops]

def model_vs_run(r):
    """the writer model under the same schedule: same build outcome, per-call outcomes, sink lengths, final bytes -> None | difference"""
    if r["rm"] is None or r["rm"] == "(unmodelled)":
        return None
    pi, pm = r["pi"], parse_cw(r["rm"])
    if pi is None:
        return None
    if pm is None or bool(pm.get("build_err")) != bool(pi.get("build_err")) or (
            not pi.get("build_err") and (canon_ops(pm["ops"]) != canon_ops(pi["ops"]) or pm["sink"] != pi["sink"])):
        return {"impl_case": r["line"], "model_case": r["mline"], "impl": r["res"][:500], "model": r["rm"][:500],
                "what": "writer model and crate differ under the sink schedule %s" % r["tag"]}
    return None

def run_model(lines):
    """the extracted model / reference parser on long inputs: run with a large stack (they recurse along the bytes)"""
    import codecloop
    return codecloop.run_model(lines, jobs=16)

# ---------------------------------------------------------------- a sink that refuses one write, then works again (C06, C15, C16)
# One bad answer -- a zero-length write or a hard error of some kind other than Interrupted -- at a call index of a block
# flush, after which the sink works again, and a caller that KEEPS USING the writer (retries finish_block, serializes on,
# calls into_inner). The writer keeps the finished block pending (Container.v: w_pending stays Some on the error path of
# flush_finished, the buffer is not cleared) and re-sends it FROM ITS START at the beginning of the next call.
#  * the writer model under the same schedule says what every later call returns and what the sink holds (null codec);
#  * when the refused call was the first sink call of the block's flush (no byte of the block accepted: a clean refusal) the
#    property itself decides: every later call that returns Ok leaves a complete valid file holding a prefix of the values
#    (all of them after finish_block / into_inner / drop), nothing lost, duplicated or glued into another block.
HARD_KINDS = ["other", "wouldblock", "timedout", "brokenpipe", "writezero", "unexpectedeof", "permissiondenied", "connectionreset",
              "connectionaborted", "notconnected", "invalidinput", "invaliddata", "outofmemory", "unsupported", "alreadyexists",
              "notfound", "addrinuse"]

def bad_answers(rng, n_random=1):
    """answers of a sink that are failures: zero-length write, hard error (plain h = kind Other) and hard errors of named
    kinds -- WouldBlock and TimedOut always (the kinds a non-blocking / timing-out sink reports), others at random"""
    return ["z", "h", "(h wouldblock)", "(h timedout)"] + ["(h %s)" % k for k in rng.sample(HARD_KINDS, n_random)]

def retry_ops(rng, h, allow_push=True, end=None):
    """a history whose caller goes on after every call: each serialize / push is followed by 0..2 finish_block calls (the
    second one is a retry when the first got the sink's refusal, a no-op otherwise), the history ends with finish_block
    (twice) and into_inner / drop / nothing. Canonical presentations, no failing values. -> (ops, expected)"""
    ops, expected = [], []
    for i, s in enumerate(h.spec):
        if allow_push and rng.random() < 0.2:
            ops.append(("push", "(push %s 1)" % s["canon"], [i]))
        else:
            ops.append(("ser", "(ser %s)" % s["present"], [i]))
        expected.append(i)
        for _ in range(rng.choice([0, 0, 1, 2, 2])):
            ops.append(("finish", "finish"))
    for _ in range(rng.choice([0, 1, 2, 2])):
        ops.append(("finish", "finish"))
    e = end if end is not None else rng.choice(["into_inner", "into_inner", "drop", "none"])
    if e != "none":
        ops.append((e, e))
    return ops, expected

def refusal_schedules(rng, answers, p, max_flushes=5, kinds=None):
    """schedules derived from a benign one (`answers`) whose run on the crate is `p` (sink calls per writer call): ONE bad
    answer at a call index of a block flush -- the first sink call of a writer call that flushes (clean refusal), the
    second, the last, a random one -- and behind it the sink works again: it goes on as the benign schedule would have
    (same partial writes, shifted by one call) or accepts everything. -> [(answer, tag, answers, index of the bad answer)]"""
    total = p["calls"][-1] if p["calls"] else p["built_calls"]
    fl = flush_ranges(p)
    if not fl:
        return []
    base = expand(answers, total + 2)
    kinds = kinds or bad_answers(rng)
    out = []
    pick = fl if len(fl) <= max_flushes else [fl[0], fl[-1]] + rng.sample(fl[1:-1], max_flushes - 2)
    for (s, e) in pick:
        qs = [("first", s)]
        if e - s > 1:
            qs.append(rng.choice([("second", s + 1), ("last", e - 1), ("mid", rng.randrange(s, e))]))
        for where, q in qs:
            for bad in rng.sample(kinds, 2 if where == "first" else 1):
                after = rng.choice(["same", "all"])
                tail = base[q:] if after == "same" else ["(a 1000000)"]
                out.append((bad, "%s@%s-call-of-flush(%d)/then-%s" % (bad.strip("()").replace(" ", "-"), where, q, after), base[:q] + [bad] + tail, q))
    return out

def refusal_runs(rng, cases, n_bases=3, max_flushes=5):
    """cases as for scheduled_runs (ops from retry_ops). Benign bases: accept-everything (gathering / default
    write_vectored), k bytes per call for a small k, a k ending a gathering call inside a block; then refusal_schedules of each;
    crate and (null codec) writer model under the same schedules. -> runs (dicts as scheduled_runs_from, + bad_at)"""
    specs = []
    for ci, c in enumerate(cases):
        blocks = file_blocks(c["bp"]["sink"], c["bp"]["built"])
        inside = [k for k in range(4, 49) if any(h < k < h + b for h, b in blocks)]
        cand = [("all", 1, [HDR_ONE]), ("all", 0, [HDR_ONE]), ("k%d" % 1, rng.randint(0, 1), [HDR_ONE, "(a 1)"]),
                ("k3", rng.randint(0, 1), [HDR_ONE, "(a 3)"])]
        if inside:
            k = rng.choice(inside)
            cand.append(("k%d" % k, 1, [HDR_ONE, "(a %d)" % k]))
        k = rng.randint(2, 48)
        cand.append(("k%d" % k, rng.randint(0, 1), [HDR_ONE, "(a %d)" % k]))
        first = cand[:2]
        rng.shuffle(first)
        rest = cand[2:]
        rng.shuffle(rest)
        for tag, v, answers in ([first[0]] + rest)[:n_bases]:
            specs.append((ci, tag, v, answers))
    def mk(ci, kind, tag, v, answers, bad_at=None):
        c = cases[ci]
        sx = sched_sx(v, answers)
        line = with_start(c.get("start"), cw_line(c["h"], c["codec"], c["bsz"], sx, c["meta"], c["ops"]))
        mline = cw_line(c["h"], c["codec"], c["bsz"], sx, c["meta"], c["ops"], with_json=c["json"]) if c["codec"] == "null" else None
        return {"ci": ci, "kind": kind, "tag": tag, "vectored": v, "answers": answers, "sched": sx, "line": line, "mline": mline,
                "bad_at": bad_at}
    bases = [mk(ci, "benign", tag, v, answers) for ci, tag, v, answers in specs]
    for r, res in zip(bases, C.run_parallel(C.AVRODRIVE, [r["line"] for r in bases])):
        r["res"], r["pi"] = res, parse_cw(res)
    runs = []
    for r in bases:
        if r["pi"] and not r["pi"].get("build_err") and r["pi"].get("calls"):
            for bad, tag, answers, q in refusal_schedules(rng, r["answers"], r["pi"], max_flushes=max_flushes):
                runs.append(mk(r["ci"], bad, "%s/%s" % (r["tag"], tag), r["vectored"], answers, q))
    for r, res in zip(runs, C.run_parallel(C.AVRODRIVE, [r["line"] for r in runs])):
        r["res"], r["pi"] = res, parse_cw(res)
    ml = [r for r in runs if r["mline"] is not None]
    for r, rm in zip(ml, run_model([r["mline"] for r in ml])):
        r["rm"] = rm
    for r in runs:
        r.setdefault("rm", None)
    return runs

def judge_refusals(runs, cases, violations, diffs, dist, surfaces=True, clip=lambda s: s):
    """verdicts on refusal_runs (see the section comment). cases[ci] needs h, ops, codec, bp."""
    q = []
    for r in runs:
        c = cases[r["ci"]]
        h, ops, bp, pi = c["h"], c["ops"], c["bp"], r["pi"]
        line = clip(r["line"])
        sink_kind = "%s, %s write_vectored" % (r["tag"], "gathering" if r["vectored"] else "default")
        if pi is None:
            violations.append({"impl_case": line, "what": "crash under a sink that refuses one write (%s)" % sink_kind, "impl": r["res"][:300]})
            continue
        d = model_vs_run(r)
        if d:
            d["what"] = "writer model and crate differ when the sink refuses one write and then works again (%s): outcomes per call / sink" % sink_kind
            diffs.append(d)
        if pi.get("build_err") or not pi.get("calls"):
            continue
        p = r["bad_at"]
        calls = [pi["built_calls"]] + pi["calls"]
        j = next((x for x in range(1, len(calls)) if calls[x - 1] < p + 1 <= calls[x]), None)
        if j is None:
            dist["refusal/never-reached"] += 1
            continue
        oj = j - 1                                  # index of the writer call that received the bad answer
        kindj = ops[oj][0]
        dist["refusal/%s/received-by-%s" % (r["kind"].strip("()").split()[-1], kindj)] += 1
        if pi["ops"][oj][0] == "ok" and surfaces and kindj != "drop":
            violations.append({"impl_case": line, "what": "call %d ('%s') received '%s' from the sink (sink call %d) but returned Ok (%s)" % (oj, kindj, r["kind"], p, sink_kind),
                               "impl": r["res"][:400]})
            continue
        if kindj in ("into_inner", "drop"):
            continue                                # the writer is gone: what its Drop did is the model's business
        lf = pi["ops"][oj][1]
        ends, pos = {bp["built"]}, bp["built"]
        for hl, dl in file_blocks(bp["sink"], bp["built"]):
            pos += hl + dl + 16
            ends.add(pos)
        clean = lf in ends and pi["sink"][:lf] == bp["sink"][:lf]
        dist["refusal/%s" % ("clean (no byte of the block accepted)" if clean else "after part of the block")] += 1
        if not clean:
            continue
        # values whose calls returned Ok, and the same + the value of the refused call (serialized into the pending block before
        # the flush failed: the writer model keeps it; a caller who got Err may not count on it) -- either list is accepted
        lw, lo = [], []
        seen = set()
        for oi, ((kind, _sx, *vals), (res, ln)) in enumerate(zip(ops, pi["ops"])):
            if kind in ("ser", "push") and (res == "ok" or oi == oj):
                lw.extend(vals[0])
                if res == "ok":
                    lo.extend(vals[0])
            if oi > oj and res == "ok":
                flush = kind in ("finish", "into_inner", "drop")
                if (ln, flush, len(lw)) in seen:
                    continue
                seen.add((ln, flush, len(lw)))
                q.append((r, oi, kind, ln, list(lw), list(lo), flush, sink_kind))
    if not q:
        return 0
    fam_of = lambda r: codec_family(cases[r["ci"]]["codec"])
    res_cr = C.run_parallel(C.AVRODRIVE, ["cr %s slice any %d" % (C.hx(r["pi"]["sink"][:ln]), len(lw) + 6) for (r, oi, kind, ln, lw, lo, fl, sk) in q])
    res_fp = run_model(["fileparse " + C.hx(r["pi"]["sink"][:ln]) for (r, oi, kind, ln, lw, lo, fl, sk) in q])
    dec = BlockDecoder()
    fps = [parse_fileparse(x) for x in res_fp]
    for (r, *_), fp in zip(q, fps):
        for cnt, d in (fp["blocks"] if fp else []):
            dec.want(fam_of(r), d)
    dec.flush()
    flagged = set()
    for (r, oi, kind, ln, lw, lo, flush, sink_kind), rcr, fp in zip(q, res_cr, fps):
        if id(r) in flagged:
            continue
        h = cases[r["ci"]]["h"]
        line = clip(r["line"])
        where = "after call %d ('%s' returned Ok, %d bytes in the sink; the sink refused one write of a finished block earlier and works again: %s)" % (oi, kind, ln, sink_kind)
        pr = parse_cr(rcr)
        what = None
        if fp is None:
            what = "the sink does not hold a valid container file (reference parser) " + where
        elif pr.get("open_err") or "items" not in pr:
            what = "the sink contents are not a readable file " + where
        else:
            alts = []
            for L in (lw, lo):
                ok, k, why = values_prefix_then_eof(pr["items"], [h.spec[i]["dany"] for i in L], flush)
                cnt = sum(bc for bc, _ in fp["blocks"])
                if ok:
                    pls = [dec.get(fam_of(r), d)[0] for _, d in fp["blocks"]]
                    if any(bc <= 0 for bc, _ in fp["blocks"]) or cnt != k or any(pl is None for pl in pls):
                        ok, why = False, "block counts %r do not match the %d values read / undecodable block" % ([bc for bc, _ in fp["blocks"]], k)
                    else:
                        pos = 0
                        for bi, ((bc, _), pl) in enumerate(zip(fp["blocks"], pls)):
                            if pl != b"".join(C.unhex(h.spec[i]["canon"]) for i in L[pos:pos + bc]):
                                ok, why = False, "block %d announces %d objects but its data is not their encodings" % (bi, bc)
                                break
                            pos += bc
                alts.append((ok, why))
            if not any(ok for ok, _ in alts):
                what = "%s: %s" % (where, alts[0][1])
        if what:
            flagged.add(id(r))
            violations.append({"impl_case": line, "what": what, "snapshot_case": "cr %s slice any %d" % (C.hx(r["pi"]["sink"][:ln]), len(lw) + 6)})
    return 2 * len(q)
