"""Container-file histories: generation and the checks shared by C05, C06, C15, C16, C17."""
import common as C
import gen as G
import codec
from present import Presenter

SYNC = bytes(range(0x30, 0x40))
CODECS = ["null", "(deflate default)", "(deflate 1)", "(deflate 9)", "(bzip2 default)", "(bzip2 1)", "snappy",
          "(xz default)", "(xz 1)", "(zstandard default)", "(zstandard 1)", "(zstandard 19)"]
CODEC_NAMES = {"null": "null", "deflate": "deflate", "bzip2": "bzip2", "snappy": "snappy", "xz": "xz",
               "zstandard": "zstandard"}

def codec_family(c):
    return c.strip("()").split()[0]

class History:
    """one schema, a list of values, an op sequence"""
    def __init__(self, rng, n_values=None, big=False, schema_kw=None):
        self.rng = rng
        nodes, v0 = G.schema_and_value(rng, **(schema_kw or {"max_nodes": rng.choice([1, 3, 6]), "max_depth": 3}))
        self.nodes = nodes
        vg = G.ValueGen(rng, nodes, layouts=False)
        n = n_values if n_values is not None else rng.choice([0, 1, 2, 3, 5, 8])
        vals = [v0] + [vg.gen(0) for _ in range(max(0, n - 1))]
        self.values = [v for v in vals if v is not None][:n] if n > 0 else []
        self.schema = G.schema_sx(nodes)

    def prepare(self):
        """asks the spec for encodings / expected events / canonical presentations"""
        self.spec = codec.spec_batch([(self.nodes, v) for v in self.values]) if self.values else []

def damaged(rng, sv):
    """a presentation damaged at a random leaf (Serialize impl failure or type mismatch): the value fails, possibly after
    part of it -- out-of-order record fields, buffered byte sequences -- has been produced"""
    toks = sv.split(" ")
    cands = [i for i, t in enumerate(toks) if t.startswith(("(i32", "(str", "(i64", "(bool", "(f64", "(bytes", "(u32")) or t == "unit"]
    if not cands:
        return "fail"
    i = rng.choice(cands)
    depth_close = toks[i].count("(") - toks[i].count(")")
    j = i
    while depth_close > 0 and j + 1 < len(toks):
        j += 1
        depth_close += toks[j].count("(") - toks[j].count(")")
    tail = ")" * (-depth_close) if depth_close < 0 else ""
    return " ".join(toks[:i] + [rng.choice(["fail", "(seq none fail)", "(f32 0)", "(some fail)"]) + tail] + toks[j + 1:])

def make_ops(rng, h, allow_fail=True, allow_push=True, end=None, reorder=False):
    """returns (ops as sexp strings, expected: list of indexes into h.values in file order, flush points).
    reorder: values are presented in random serde shapes (record fields out of order / omitted when nullable, structs or
    maps, ...) and failing values are such presentations damaged at a random leaf -- the writer reuses one serializer
    configuration, so what a failed value left behind must not leak into the next one"""
    ops, expected = [], []
    for i, s in enumerate(h.spec):
        r = rng.random()
        if allow_fail and reorder and r < 0.3:
            pr = Presenter(rng, h.nodes, break_prob=0.0, by_type_prob=0.1)
            ops.append(("fail", "(ser %s)" % damaged(rng, pr.pres(0, C.parse_sx(s["evalue"])[0]))))
        elif allow_fail and r < 0.15:
            ops.append(("fail", "(ser %s)" % rng.choice(["fail", "(seq none fail)", "(struct %s 1 (%s fail))" % (C.hx("X"), C.hx("f0")),
                                                         "(newtype_struct %s (some fail))" % C.hx("N")])))
        if allow_push and r > 0.8:
            # pre-serialized push of this value (and maybe the next one)
            ops.append(("push", "(push %s 1)" % s["canon"], [i]))
            expected.append(i)
        elif reorder:
            pr = Presenter(rng, h.nodes, break_prob=0.0, by_type_prob=0.1)
            sv = pr.pres(0, C.parse_sx(s["evalue"])[0])
            if pr.needs_slow or pr.expect != "value":
                sv = s["present"]
            ops.append(("ser", "(ser %s)" % sv, [i]))
            expected.append(i)
        else:
            # canonical presentation: the block bytes are then the canonical encodings
            ops.append(("ser", "(ser %s)" % s["present"], [i]))
            expected.append(i)
        if rng.random() < 0.2:
            ops.append(("finish", "finish"))
    e = end if end is not None else rng.choice(["into_inner", "drop", "finish", "none", "into_inner"])
    if e != "none":
        ops.append((e, e))
    return ops, expected

def cw_line(h, codec_sx, block_size, sink, meta, ops, with_json=None):
    metas = "(meta%s)" % "".join(" (%s %s)" % (C.hx(k), C.hx(v)) for k, v in meta)
    pre = "cw "
    if with_json is not None:
        pre += C.hx(with_json) + " "
    return "%s%s %s %d %s %s %s %s" % (pre, h.schema, codec_sx, block_size, C.hx(SYNC), sink, metas,
                                       " ".join(o[1] for o in ops))

def parse_cw(res):
    """-> dict(build=(len), ops=[(res, len)], sink=bytes) ; res in ok/err/gone/panic..."""
    p = C.parse_sx(res)
    if not p:
        return None
    p = p[0]
    if p[0] != "ok":
        return {"build_err": True, "raw": res}
    built = p[1]
    ops = []
    for o in p[2:-1]:
        r = o[0]
        if isinstance(r, list):
            r = r[0]
        ops.append((r, int(o[1])))
    return {"build_err": False, "built": int(built[1]), "ops": ops, "sink": C.unhex(p[-1])}

def parse_cr(res):
    """-> dict(open_err, json, meta, items=[('ok', text) | ('eof',) | ('err', class)])"""
    p = C.parse_sx(res)
    if not p:
        return {"crash": res}
    p = p[0]
    if p[0] == "open-err":
        return {"open_err": p[1] if len(p) > 1 else True}
    if p[0] != "ok":
        return {"crash": res}
    i = 1
    out = {"open_err": None}
    if isinstance(p[1], str):
        out["json"] = C.unhex(p[1])
        i = 2
    out["meta"] = [(C.unhex(kv[0]), C.unhex(kv[1])) for kv in p[i][1:]]
    items = []
    for it in p[i + 1:]:
        if it == "eof":
            items.append(("eof",))
        elif it[0] == "ok":
            items.append(("ok", G.erase_borrow_text(C.show_sx(it[1]))))
        elif it[0] == "err":
            items.append(("err", it[1]))
        else:
            items.append((C.show_sx(it),))
    out["items"] = items
    return out

def values_prefix_then_eof(items, expected_texts, must_be_all):
    """the reader's items must be a prefix of the expected values followed by eof, eof, with no
    error; returns (ok, k, why)"""
    k = 0
    for it in items:
        if it[0] == "ok":
            if k >= len(expected_texts) or it[1] != expected_texts[k]:
                return False, k, "value %d differs or was never written: %s" % (k, it[1][:200])
            k += 1
        elif it[0] == "eof":
            break
        else:
            return False, k, "reader reported %s" % (it,)
    else:
        return False, k, "no end of stream"
    if must_be_all and k != len(expected_texts):
        return False, k, "only %d of %d values present after a flush point" % (k, len(expected_texts))
    return True, k, ""
