"""C06 -- container files follow the Avro file layout and interoperate with other tools."""
import random, zlib, bz2, lzma
import common as C
import gen as G
import cont

MODEL_TARGETS = ["spec/FileSpec.vo", "spec/FileSpecCodec.vo", "model/Container.vo"]
COQ_TARGETS = ["props/C06.vo", "proofs/ConstsTie.vo"]
THEOREMS = [("C06", ["C06_grammar", "C06_layout", "C06_header_is_grammar", "C06_accepts", "C06_accepts_codec_absent", "C06_long", "C06_long_is_crate", "C06_codec_layout", "C06_codec_values", "C06_snappy_crc32_layout"])]
PROOF_FILES = ["proofs/ContainerProofs.v", "props/C06.v", "proofs/ContainerReadProofs.v", "proofs/ContainerHeaderProofs.v", "proofs/ContainerCodecProofs.v", "proofs/ContainerCodecLayout.v"]
TRUSTED_BASE = [
    "sink refusals (lib/cont.py refusal_runs / judge_refusals): one zero-length write or hard error (plain or of a named std::io::ErrorKind -- harness sink answer (h KIND); the model has ONE hard answer, VectoredWrite.Hard, for all kinds other than Interrupted) at a call index of a block flush, then a working sink, under a caller that keeps using the writer. What every later call returns and what the sink holds is Container.wrun under the same schedule (flush_finished keeps w_pending and the buffer on the error path: the block is re-sent from its start) -- compared for the null codec. The verdict on a CLEAN refusal (no byte of the block accepted) is a Python-side reading of the property, stated here: every later call that returns Ok leaves a file the extracted reference parser accepts, whose blocks (independent decoders) hold exactly the encodings of the values they announce, a prefix of the values (all after finish_block / into_inner / drop); the value of the refused serialize call itself may or may not be counted (the model keeps it)",
    "Coq 8.16.1 kernel; no axioms (Print Assumptions: closed); no native_compute",
    "extraction (ExtrOcamlBasic only) + ocaml/driver.ml (parsing/printing); Rust harness avrodrive",
    "spec/FileSpec.v transcribes the container layout of the Avro specification; its extracted parser judges the crate's files",
    "spec/FileSpecCodec.v (written from the specification text): the codec layer of the layout -- block size is the size AFTER the codec, avro.codec absent = null, snappy = raw block + big-endian CRC-32 (bitwise definition, check value proved) of the uncompressed data; used in theorems only (C06_codec_*): any independent reader whose decompressor inverts the writer's codec function reads, block by block, the specification encodings of the written values",
    "second implementation: apache-avro 0.17 (harness commands apache_read / apache_write); Python zlib/bz2/lzma decode deflate/bzip2/xz block data independently (one complete stream per block, nothing behind it); snappy / zstandard block data are decoded by the snap / zstd crates' own decoders (harness command blockdec, not the crate's reader) and the snappy trailer is compared with Python's zlib.crc32",
    "hook H3 (hooks/H3.diff, harness command cwh): the starting length of the encode loops' output buffer is set by the run; the crate's value 32768 is one of the values used",
    "OCaml driver command cwraw: Container.v's writer model (parametric in the block compressor) instantiated with the identity and the codec's name; lib/cont.py raw_view rebuilds the same view of the crate's file from the reference parser's blocks and the independent decoders' payloads",
]
ASSUMPTIONS = [
    "compression libraries, crc32fast are abstract: the crate's code around them is modelled and proved under contracts (CodecLoop.v, DecodeLoop.v: see C05/C17, hooks H3/H4); framing and interoperability of compressed blocks are checked on the crate (reference parser + independent decoders + apache-avro), not proved",
    "apache-avro limitations excluded from the comparison: zero-byte datums in compressed blocks, map entry order, leading-dot / empty-namespace spellings, and files whose embedded schema (as re-spelled by apache-avro's writer: a reference by short name where the enclosing namespace differs) is rejected by the MODEL's reader + parser as well"
]

def clip(line, n=1200000):
    """the whole harness line (it reproduces the case); only absurdly long ones are cut"""
    return line if len(line) <= n else line[:n]

def decompress(family, data):
    if family == "null":
        return data
    if family == "deflate":
        return zlib.decompress(data, -15)
    if family == "bzip2":
        return bz2.decompress(data)
    if family == "xz":
        return lzma.decompress(data)
    return None     # snappy / zstandard: no decoder in the Python standard library (apache-avro covers them)

def compress(family, data, rng):
    if family == "null":
        return data
    if family == "deflate":
        co = zlib.compressobj(rng.choice([1, 6, 9]), zlib.DEFLATED, -15)
        return co.compress(data) + co.flush()
    if family == "bzip2":
        return bz2.compress(data, rng.choice([1, 9]))
    if family == "xz":
        return lzma.compress(data, format=lzma.FORMAT_XZ, check=rng.choice([lzma.CHECK_CRC64, lzma.CHECK_CRC32, lzma.CHECK_NONE]))
    raise ValueError(family)

def ld(b):
    return G.varint(len(b)) + b

def ref_file(rng, json, family, datums, user_meta, omit_codec):
    """an independent conforming writer: any block partition, any metadata order and map layout"""
    entries = [(b"avro.schema", json)] + list(user_meta)
    if not omit_codec:
        entries.append((b"avro.codec", family.encode()))
    rng.shuffle(entries)
    meta = b""
    i = 0
    while i < len(entries):
        n = rng.randint(1, len(entries) - i)
        body = b"".join(ld(k) + ld(v) for k, v in entries[i:i + n])
        if rng.random() < 0.5:
            meta += G.varint(-n) + G.varint(len(body)) + body
        else:
            meta += G.varint(n) + body
        i += n
    meta += b"\x00"
    sync = bytes(rng.getrandbits(8) for _ in range(16))
    out = b"Obj\x01" + meta + sync
    i = 0
    while i < len(datums):
        n = rng.randint(1, len(datums) - i)
        data = compress(family, b"".join(datums[i:i + n]), rng)
        out += G.varint(n) + G.varint(len(data)) + data + sync
        i += n
    return out

def run(ctx):
    rng = random.Random(ctx["seed"] * 1000003 + 6)
    n = 90 if ctx["tier"] == "quick" else 3000
    violations, diffs, samples, distinct = [], [], [], set()
    hs = []
    for i in range(n):
        # apache-avro interop uses schemas without logical types (its decimal/duration handling differs in what it accepts)
        h = cont.History(rng, schema_kw={"max_nodes": rng.choice([1, 4, 8]), "max_depth": 3, "logical": False})
        h.prepare()
        ops, expected = cont.make_ops(rng, h, allow_fail=(i % 3 == 0), end="into_inner")
        c = cont.CODECS[i % len(cont.CODECS)]
        meta = [(G.rand_str(rng, 6) or "k", G.rand_bytes(rng)) for _ in range(rng.choice([0, 0, 1, 3]))]
        meta = list({k: v for k, v in meta if not k.startswith("avro.")}.items())
        # hook H3: with a small starting length even these small blocks take the deflate / bzip2 / xz loops through several growth steps
        start = rng.choice([None, 1, 2, 64]) if cont.codec_family(c) in cont.LOOP_FAMILIES else None
        hs.append((h, ops, expected, c, rng.choice([0, 3, 64, 65536]), meta, start))
    # blocks whose compressed form outgrows the encode loops' output buffer (several times): every codec setting x starting length
    bigs = []
    for (c, start, shape, content, far) in cont.big_plan(rng, ctx["tier"]):
        bigs.append((cont.BigHistory(rng, start, shape, content=content, want_far=far), c, start))
    cont.prepare_all([h for h, _, _ in bigs])
    for h, c, start in bigs:
        ops, expected = cont.make_ops(rng, h, allow_fail=rng.random() < 0.3, end="into_inner")
        meta = [("big", b"\x01")] if rng.random() < 0.3 else []
        hs.append((h, ops, expected, c, cont.big_block_size(rng, h), meta, start))
    jsons = [C.unhex(C.parse_sx(r)[0][2]) for r in C.run_parallel(C.AVRODRIVE, ["freeze " + h.schema for h, *_ in hs])]
    wl = [cont.with_start(start, cont.cw_line(h, c, b, "vec", meta, ops)) for (h, ops, ex, c, b, meta, start) in hs]
    wr = C.run_parallel(C.AVRODRIVE, wl)
    # Container.v's writer (block compressor = identity, the codec's name in the header): the file before block compression
    ml = [cont.raw_model_line(cont.cw_line(h, c, b, "vec", meta, ops, with_json=j)) for (h, ops, ex, c, b, meta, start), j in zip(hs, jsons)]
    mr = cont.run_model(ml)
    files, builts = [], []
    for (h, ops, expected, c, b, meta, start), line, res in zip(hs, wl, wr):
        p = cont.parse_cw(res)
        bad = p is None or p.get("build_err") or any(r != "ok" for (k, *_), (r, l) in zip(ops, p["ops"]) if k != "fail")
        files.append(None if bad else p["sink"])
        builts.append(None if bad else p["built"])
        if files[-1] is None:
            violations.append({"impl_case": clip(line), "what": "writing failed", "impl": res[:300]})
    # (1) layout: the extracted reference parser
    idx = [i for i, f in enumerate(files) if f is not None]
    parsed = cont.run_model(["fileparse " + C.hx(files[i]) for i in idx])
    apache = C.run_parallel(C.AVRODRIVE, ["apache_read " + C.hx(files[i]) for i in idx])
    from collections import Counter
    dist = Counter()
    dec = cont.BlockDecoder()
    for i, rp in zip(idx, parsed):
        fp = cont.parse_fileparse(rp)
        for cnt, d in (fp["blocks"] if fp else []):
            dec.want(cont.codec_family(hs[i][3]), d)
    dec.flush()
    for i, rp, ra in zip(idx, parsed, apache):
        h, ops, expected, c, b, meta, start = hs[i]
        fam = cont.codec_family(c)
        p = C.parse_sx(rp)[0]
        line = clip(wl[i])
        canon = [C.unhex(h.spec[j]["canon"]) for j in expected]
        distinct.add((h.schema, c, b, len(canon), len(meta)))
        if p[0] != "ok":
            violations.append({"impl_case": line, "what": "the file is not in the container grammar (reference parser)"})
            continue
        md = {C.unhex(kv[0]): C.unhex(kv[1]) for kv in p[1][1:]}
        want_md = {b"avro.schema": jsons[i], b"avro.codec": fam.encode()}
        want_md.update({k.encode(): v for k, v in meta})
        if md != want_md or len(p[1][1:]) != len(want_md):
            violations.append({"impl_case": line, "what": "header metadata differs: %r" % sorted(md.keys())})
        if C.unhex(p[2]) != cont.SYNC:
            violations.append({"impl_case": line, "what": "sync marker differs"})
        blocks = [(int(bk[1]), C.unhex(bk[2])) for bk in p[3:]]
        if any(cnt <= 0 for cnt, _ in blocks) or sum(cnt for cnt, _ in blocks) != len(canon):
            violations.append({"impl_case": line, "what": "block counts %r do not add up to %d" % ([c_ for c_, _ in blocks], len(canon))})
        # block data through a decoder that is not the crate's (all six codecs): exactly one complete stream per block, whose
        # payload is the encodings of the block's values -- block by block, not only in total
        datas = []
        pos = 0
        for bi, (cnt, d) in enumerate(blocks):
            pl, why = dec.get(fam, d)
            datas.append(pl)
            if pl is None:
                violations.append({"impl_case": line, "what": "data of block %d (%d bytes, %d objects) is not a %s stream an independent decoder accepts: %s" % (bi, len(d), cnt, fam, why)})
                continue
            want = b"".join(canon[pos:pos + max(cnt, 0)])
            if pl != want:
                violations.append({"impl_case": line, "what": "block %d announces %d objects, its data (%d bytes of %s) decodes to %d bytes; the encodings of these values are %d bytes%s" % (
                    bi, cnt, len(d), fam, len(pl), len(want),
                    " (the decoded data is longer and starts differently)" if len(pl) > len(want) and not pl.startswith(want) else
                    " (the values' encodings followed by other bytes)" if len(pl) > len(want) else "")})
            pos += max(cnt, 0)
        if all(d is not None for d in datas):
            if b"".join(datas) != b"".join(canon) and pos == len(canon) and not any(v["impl_case"] is line and v["what"].startswith("block ") for v in violations[-len(blocks):]):
                violations.append({"impl_case": line, "what": "decoded block data differs from the values' encodings"})
            dist["layout+data/" + fam] += 1
            # model: the crate's file with every block's data replaced by its payload = the file of Container.v's writer
            pm = cont.parse_cw(mr[i]) if mr[i] != "(unmodelled)" else None
            if pm is not None and not pm.get("build_err"):
                rv = cont.raw_view(files[i][:builts[i]], cont.SYNC, list(zip([cnt for cnt, _ in blocks], datas)))
                if rv != pm["sink"]:
                    diffs.append({"impl_case": line, "model_case": clip(ml[i]), "what": "the file with its blocks decompressed (%d bytes, blocks %r) is not the file of the writer model (%d bytes)" % (
                        len(rv), [cnt for cnt, _ in blocks], len(pm["sink"]))})
                dist["model-file/" + fam] += 1
            elif mr[i] != "(unmodelled)":
                diffs.append({"impl_case": line, "model_case": clip(ml[i]), "what": "the writer model did not run", "model": mr[i][:300]})
        else:
            dist["undecodable/" + fam] += 1
        if start is not None or isinstance(h, cont.BigHistory):
            st = start or 32768
            g = max([cont.growth_steps(st, len(d)) for _, d in blocks] + [0]) if fam in cont.LOOP_FAMILIES else 0
            dist["buffer-growth-steps/%s/%s" % (fam, "0" if g == 0 else "1-2" if g <= 2 else "3-6" if g <= 6 else "7+")] += 1
            if isinstance(h, cont.BigHistory):
                dist["big/%s/%s" % (h.shape, h.content)] += 1
        # second implementation
        pa = C.parse_sx(ra)[0]
        has_map = any(nd.t == "map" for nd in h.nodes)
        zero_byte = any(x == b"" for x in canon)
        if b'":".' in jsons[i] or b'[".' in jsons[i] or b',".' in jsons[i] or b'"namespace":""' in jsons[i]:
            # references to the null namespace from inside a namespace are spelled ".Name": read by the Java implementation and by this
            # crate, not by apache-avro (Rust) 0.17; likewise an explicit "namespace":""
            dist["apache-read-skipped/leading-dot-reference"] += 1
        elif zero_byte and pa[0] != "ok":
            dist["apache-read-skipped/zero-byte-datums"] += 1      # apache-avro 0.17 cannot read blocks of zero-byte datums
        elif pa[0] != "ok":
            msg = C.unhex(pa[1]).decode("utf-8", "replace") if len(pa) > 1 else ""
            violations.append({"impl_case": line, "what": "apache-avro cannot read the file: %s" % msg[:200]})
        else:
            got = [C.unhex(x) for x in pa[2:]]
            if got != canon and not has_map:      # apache-avro re-encodes maps in hash order
                violations.append({"impl_case": line, "what": "apache-avro reads different values"})
            dist["apache-read/" + fam] += 1
        if len(samples) < 4:
            samples.append({"direction": "crate writes", "codec": c, "blocks": [c_ for c_, _ in blocks], "metadata_keys": sorted(k.decode("utf-8", "replace") for k in md)})
    # (1b) the same histories written through sinks that take the file in pieces (partial writes: k bytes per call, write_vectored
    # gathering across block header / data / sync marker or std's default; 'interrupted' at call indexes of block flushes): the
    # file must be the one the accept-everything sink got (judged above); a file that differs is parsed / decoded / read on its own
    cand = [i for i in idx if i < n]
    rng.shuffle(cand)
    cand = cand[:(45 if ctx["tier"] == "quick" else 1000)]
    cases = [{"h": hs[i][0], "ops": hs[i][1], "codec": hs[i][3], "bsz": hs[i][4], "meta": hs[i][5], "start": hs[i][6],
              "json": jsons[i], "bp": cont.parse_cw(wr[i]), "i": i} for i in cand]
    sruns = cont.scheduled_runs(rng, cases, n_inject_bases=2, bad=False, singles=6, n_random=1)
    q = []
    for r in sruns:
        c = cases[r["ci"]]
        i, pi = c["i"], r["pi"]
        sink_kind = "%s, %s write_vectored" % (r["tag"], "gathering" if r["vectored"] else "default")
        dist["written-through-scheduled-sink/" + ("gathering" if r["vectored"] else "default-write_vectored")] += 1
        if pi is None or pi.get("build_err") or any(rr != "ok" for (k, *_), (rr, l) in zip(c["ops"], pi["ops"]) if k != "fail"):
            violations.append({"impl_case": clip(r["line"]), "what": "writing failed on a sink taking partial writes / reporting 'interrupted' (%s)" % sink_kind, "impl": r["res"][:300]})
            continue
        d = cont.model_vs_run(r)
        if d:
            diffs.append(d)
        if pi["sink"] != files[i]:
            q.append((r, i, sink_kind, pi["sink"]))
    q_fp = cont.run_model(["fileparse " + C.hx(f) for _, _, _, f in q])
    q_ap = C.run_parallel(C.AVRODRIVE, ["apache_read " + C.hx(f) for _, _, _, f in q])
    q_cr = C.run_parallel(C.AVRODRIVE, ["cr %s slice any %d" % (C.hx(f), len(hs[i][2]) + 3) for _, i, _, f in q])
    for (r, i, sink_kind, f), rfp, rap, rcr in zip(q, q_fp, q_ap, q_cr):
        h, ops, expected, c, b, meta, start = hs[i]
        fam = cont.codec_family(c)
        canon = [C.unhex(h.spec[j]["canon"]) for j in expected]
        line = clip(r["line"])
        fp = cont.parse_fileparse(rfp)
        k0 = next((x for x in range(min(len(f), len(files[i]))) if f[x] != files[i][x]), min(len(f), len(files[i])))
        how = "%d bytes instead of %d, first difference at offset %d" % (len(f), len(files[i]), k0)
        if fp is None:
            violations.append({"impl_case": line, "what": "the file written through a sink taking partial writes (%s) is not in the container grammar (reference parser); %s" % (sink_kind, how)})
            continue
        for cnt, dd in fp["blocks"]:
            dec.want(fam, dd)
        pls = [dec.get(fam, dd)[0] for cnt, dd in fp["blocks"]]
        if fp["sync"] != cont.SYNC or any(pl is None for pl in pls) or b"".join(pls) != b"".join(canon) or sum(cnt for cnt, _ in fp["blocks"]) != len(canon):
            violations.append({"impl_case": line, "what": "the file written through a sink taking partial writes (%s) does not hold the written values (blocks %r); %s" % (
                sink_kind, [cnt for cnt, _ in fp["blocks"]], how)})
            continue
        pr = cont.parse_cr(rcr)
        okr = not pr.get("open_err") and "items" in pr and cont.values_prefix_then_eof(pr["items"], [h.spec[j]["dany"] for j in expected], True)[0]
        pa = C.parse_sx(rap)[0]
        if not okr:
            violations.append({"impl_case": line, "what": "the file written through a sink taking partial writes (%s) is not read back by the crate's reader; %s" % (sink_kind, how)})
        elif pa[0] != "ok" and not any(x == b"" for x in canon) and not (b'":".' in jsons[i] or b'[".' in jsons[i] or b',".' in jsons[i] or b'"namespace":""' in jsons[i]):
            violations.append({"impl_case": line, "what": "apache-avro cannot read the file written through a sink taking partial writes (%s); %s" % (sink_kind, how)})
        else:
            diffs.append({"impl_case": line, "what": "the file written through %s differs from the accept-everything sink's file (both readable); %s" % (sink_kind, how)})
    n_sched = len(sruns) + sum(1 for r in sruns if r["rm"] is not None) + 3 * len(q)
    # (1c) files written through a sink that refuses ONE write of a block flush (zero-length write / hard error of some kind) and then
    # works again, by a caller that retries (finish_block again, more values, into_inner): whatever the writer reports as written
    # (every later call that returns Ok, after a refusal that accepted no byte of the block) must be a file of the specified layout
    rcases = []
    for _ in range(40 if ctx["tier"] == "quick" else 800):
        h = cont.History(rng, n_values=rng.choice([1, 2, 3, 5]), schema_kw={"max_nodes": rng.choice([1, 4]), "max_depth": 3, "logical": False})
        h.prepare()
        rops, rexp = cont.retry_ops(rng, h, end=rng.choice(["into_inner", "into_inner", "none"]))
        c = rng.choice(cont.CODECS) if rng.random() < 0.5 else "null"
        meta = [("k%d" % x, G.rand_bytes(rng)) for x in range(rng.choice([0, 0, 2]))]
        rcases.append({"h": h, "ops": rops, "codec": c, "bsz": rng.choice([0, 0, 3, 64, 65536]), "meta": meta, "start": None})
    for c, r in zip(rcases, C.run_parallel(C.AVRODRIVE, ["freeze " + c["h"].schema for c in rcases])):
        c["json"] = C.unhex(C.parse_sx(r)[0][2])
    rbl = [cont.cw_line(c["h"], c["codec"], c["bsz"], "vec", c["meta"], c["ops"]) for c in rcases]
    for c, bl, r in zip(rcases, rbl, C.run_parallel(C.AVRODRIVE, rbl)):
        c["bp"] = cont.parse_cw(r)
        if c["bp"] is None or c["bp"].get("build_err") or any(res != "ok" for res, _ in c["bp"]["ops"]):
            violations.append({"impl_case": clip(bl), "what": "writing failed", "impl": r[:300]})
            c["bp"] = None
    rcases = [c for c in rcases if c["bp"] is not None]
    rruns = cont.refusal_runs(rng, rcases, n_bases=3)
    n_sched += len(rbl) + len(rruns) + sum(1 for r in rruns if r["rm"] is not None)
    n_sched += cont.judge_refusals(rruns, rcases, violations, diffs, dist, surfaces=False, clip=clip)
    # (2) files from an independent conforming writer, read by the crate
    rl, rmeta = [], []
    for i, (h, ops, expected, c, b, meta, start) in enumerate(hs):
        canon = [C.unhex(h.spec[j]["canon"]) for j in expected]
        exp = [h.spec[j]["dany"] for j in expected]
        fam = rng.choice(["null", "null", "deflate", "bzip2", "xz"])
        omit = fam == "null" and rng.random() < 0.5
        extra = [(b"extra.key", b"\x00\xff"), (b"avro.other", b"x")][:rng.randint(0, 2)]
        f = ref_file(rng, jsons[i], fam, canon, [(k.encode(), v) for k, v in meta] + extra, omit)
        mode = rng.choice(["slice", "(chunks %d)" % rng.choice([1, 5, 100])])
        rl.append("cr %s %s any %d" % (C.hx(f), mode, len(exp) + 3))
        rmeta.append((i, "reference-writer/%s%s" % (fam, "/codec-absent" if omit else ""), exp, [(k.encode(), v) for k, v in meta] + extra))
    # (3) files written by apache-avro
    al, ameta = [], []
    for i, (h, ops, expected, c, b, meta, start) in enumerate(hs):
        canon = [h.spec[j]["canon"] for j in expected]
        fam = cont.codec_family(c)
        if any(nd.t == "map" for nd in h.nodes):
            dist["apache-write-skipped/map-order"] += 1     # apache-avro writes map entries in hash order
            continue
        al.append("apache_write %s %s %d %s" % (C.hx(jsons[i]), fam, rng.choice([0, 1, 2]), " ".join(canon)))
        ameta.append(i)
    ar = C.run_parallel(C.AVRODRIVE, al)
    for i, res in zip(ameta, ar):
        p = C.parse_sx(res)[0]
        h, ops, expected, c, b, meta, start = hs[i]
        if p[0] != "ok":
            dist["apache-write-skipped"] += 1
            continue
        exp = [h.spec[j]["dany"] for j in expected]
        rl.append("cr %s %s any %d" % (p[1], rng.choice(["slice", "(chunks 7)"]), len(exp) + 3))
        rmeta.append((i, "apache-writer/" + cont.codec_family(c), exp, None))
    rr = C.run_parallel(C.AVRODRIVE, rl)
    for line, res, (i, origin, exp, want_meta) in zip(rl, rr, rmeta):
        pr = cont.parse_cr(res)
        dist[origin] += 1
        if pr.get("open_err") or "items" not in pr:
            if origin.startswith("apache-writer/"):
                # apache-avro re-spells the schema it embeds, and its writer is known to spell a reference by its short name where the
                # enclosing namespace differs: such a file is NOT conforming. The MODEL's reader + parser judge the embedded text:
                # when they reject it too, the file is an apache-avro limitation, not a finding.
                import containercodec as CC
                w = CC.walk(C.unhex(line.split(" ")[1]))
                if w is not None and w.get("json") is not None:
                    rm = C.run_parallel(C.AVROMODEL, ["parse (text %s)" % C.hx(w["json"])])[0]
                    if not rm.startswith("(ok"):
                        dist["apache-write-skipped/embedded-schema-invalid-per-model"] += 1
                        continue
            violations.append({"impl_case": line, "what": "a conforming file (%s) was rejected" % origin, "impl": res[:300]})
            continue
        ok, k, why = cont.values_prefix_then_eof(pr["items"], exp, True)
        if not ok:
            violations.append({"impl_case": line, "what": "a conforming file (%s) was read incorrectly: %s" % (origin, why)})
        if want_meta is not None and sorted(pr["meta"]) != sorted(want_meta):
            violations.append({"impl_case": line, "what": "user metadata of a conforming file (%s) was not returned as written" % origin})
        if len(samples) < 8:
            samples.append({"direction": origin, "values": len(exp)})
    violations.sort(key=lambda v: len(v.get("impl_case", "")))      # the smallest reproducing inputs first
    return {"evaluations": len(wl) + len(ml) + len(rl) + len(al) + 2 * len(idx) + n_sched, "distinct_nontrivial": len(distinct),
            "rule": "(1) files written by the crate (12 codec settings, user metadata, block sizes; random schemas with small values, and a directed "
                    "enumeration codec setting x starting length of the encode loops' output buffer {1,2,64,1024,4096,32768} (hook H3) x value shapes {bytes, "
                    "string, fixed, record{long,bytes}, array of doubles, many medium records per block} with incompressible / text / constant contents of "
                    "START-1..40*START and 33000..200000 bytes, so that the compressed block outgrows the buffer up to 7+ times: distribution buffer-growth-steps) "
                    "parsed by the extracted reference parser "
                    "(FileSpec.ref_parse): metadata = {avro.schema, avro.codec, user entries}, one sync marker, positive counts adding up, every block's "
                    "data = exactly one complete stream for an independent decoder (Python's zlib/bz2/lzma for deflate/bzip2/xz, the snap / zstd crates' own decoders "
                    "and zlib.crc32 for snappy/zstandard) whose payload = the encodings (specification encoder) of the values the block announces; the file with "
                    "its blocks decompressed = the file of Container.v's writer model run with the identity as block compressor (model difference); and read by apache-avro 0.17; "
                    "(1b) a sample of the same histories written through sinks taking the file in pieces (lib/cont.py scheduled_runs: k bytes per call with write_vectored gathering across "
                    "block header / data / sync marker or std's default, k chosen against the blocks' lengths, irregular sizes, 'interrupted' at call indexes of block flushes incl. after "
                    "partial progress, bursts up to 40, every call once / twice): writing succeeds, the file = the one above (= the writer model's under the same schedule, null codec); a "
                    "file that differs is itself parsed by the reference parser, decoded, read by the crate and by apache-avro; "
                    "(1c) files written through a sink that refuses ONE write of a block flush (zero-length write / hard error of some kind; first sink call of the flush, second, last, "
                    "random) and then works again, by a caller that retries (finish_block again, more values, into_inner): after a refusal that accepted no byte of the block, what every "
                    "later call that returns Ok leaves in the sink is a file of the layout (reference parser, independent decoders: each block's data = the encodings of the values it "
                    "announces, all values after finish_block / into_inner); writer model under the same schedule (null codec); "
                    "(2) files from an independent writer (any block partition, shuffled metadata in any map layout incl. negative counts, extra "
                    "keys, avro.codec absent, deflate/bzip2/xz at several levels/checks) and (3) files written by apache-avro (six codecs) read by the crate",
            "samples": samples, "violations": violations, "model_diffs": diffs,
            "distribution": dict(dist)}
