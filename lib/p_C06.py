"""C06 -- container files follow the Avro file layout and interoperate with other tools."""
import random, zlib, bz2, lzma
import common as C
import gen as G
import cont

MODEL_TARGETS = ["spec/FileSpec.vo", "model/Container.vo"]
COQ_TARGETS = ["props/C06.vo", "proofs/ConstsTie.vo"]
THEOREMS = [("C06", ["C06_grammar", "C06_layout", "C06_header_is_grammar", "C06_accepts", "C06_accepts_codec_absent", "C06_long", "C06_long_is_crate"])]
PROOF_FILES = ["proofs/ContainerProofs.v", "props/C06.v", "proofs/ContainerReadProofs.v", "proofs/ContainerHeaderProofs.v"]
TRUSTED_BASE = [
    "Coq 8.16.1 kernel; no axioms (Print Assumptions: closed); no native_compute",
    "extraction (ExtrOcamlBasic only) + ocaml/driver.ml (parsing/printing); Rust harness avrodrive",
    "spec/FileSpec.v transcribes the container layout of the Avro specification; its extracted parser judges the crate's files",
    "second implementation: apache-avro 0.17 (harness commands apache_read / apache_write); Python zlib/bz2/lzma decode deflate/bzip2/xz block data independently"
]
ASSUMPTIONS = [
    "compression libraries, crc32fast are abstract: the crate's code around them is modelled and proved under contracts (CodecLoop.v, DecodeLoop.v: see C05/C17, hooks H3/H4); framing and interoperability of compressed blocks are checked on the crate (reference parser + independent decoders + apache-avro), not proved",
    "apache-avro limitations excluded from the comparison: zero-byte datums in compressed blocks, map entry order, leading-dot / empty-namespace spellings"
]

def decompress(family, data):
    if family == "null":
        return data
    if family == "deflate":
        return zlib.decompress(data, -15)
    if family == "bzip2":
        return bz2.decompress(data)
    if family == "xz":
        return lzma.decompress(data)
    return None     # snappy / zstandard: no decoder in the Python standard library (apache-avro covers them)

def compress(family, data, rng):
    if family == "null":
        return data
    if family == "deflate":
        co = zlib.compressobj(rng.choice([1, 6, 9]), zlib.DEFLATED, -15)
        return co.compress(data) + co.flush()
    if family == "bzip2":
        return bz2.compress(data, rng.choice([1, 9]))
    if family == "xz":
        return lzma.compress(data, format=lzma.FORMAT_XZ, check=rng.choice([lzma.CHECK_CRC64, lzma.CHECK_CRC32, lzma.CHECK_NONE]))
    raise ValueError(family)

def ld(b):
    return G.varint(len(b)) + b

def ref_file(rng, json, family, datums, user_meta, omit_codec):
    """an independent conforming writer: any block partition, any metadata order and map layout"""
    entries = [(b"avro.schema", json)] + list(user_meta)
    if not omit_codec:
        entries.append((b"avro.codec", family.encode()))
    rng.shuffle(entries)
    meta = b""
    i = 0
    while i < len(entries):
        n = rng.randint(1, len(entries) - i)
        body = b"".join(ld(k) + ld(v) for k, v in entries[i:i + n])
        if rng.random() < 0.5:
            meta += G.varint(-n) + G.varint(len(body)) + body
        else:
            meta += G.varint(n) + body
        i += n
    meta += b"\x00"
    sync = bytes(rng.getrandbits(8) for _ in range(16))
    out = b"Obj\x01" + meta + sync
    i = 0
    while i < len(datums):
        n = rng.randint(1, len(datums) - i)
        data = compress(family, b"".join(datums[i:i + n]), rng)
        out += G.varint(n) + G.varint(len(data)) + data + sync
        i += n
    return out

def run(ctx):
    rng = random.Random(ctx["seed"] * 1000003 + 6)
    n = 90 if ctx["tier"] == "quick" else 3000
    violations, diffs, samples, distinct = [], [], [], set()
    hs = []
    for i in range(n):
        # apache-avro interop uses schemas without logical types (its decimal/duration handling differs in what it accepts)
        h = cont.History(rng, schema_kw={"max_nodes": rng.choice([1, 4, 8]), "max_depth": 3, "logical": False})
        h.prepare()
        ops, expected = cont.make_ops(rng, h, allow_fail=(i % 3 == 0), end="into_inner")
        c = cont.CODECS[i % len(cont.CODECS)]
        meta = [(G.rand_str(rng, 6) or "k", G.rand_bytes(rng)) for _ in range(rng.choice([0, 0, 1, 3]))]
        meta = list({k: v for k, v in meta if not k.startswith("avro.")}.items())
        hs.append((h, ops, expected, c, rng.choice([0, 3, 64, 65536]), meta))
    jsons = [C.unhex(C.parse_sx(r)[0][2]) for r in C.run_parallel(C.AVRODRIVE, ["freeze " + h.schema for h, *_ in hs])]
    wl = [cont.cw_line(h, c, b, "vec", meta, ops) for (h, ops, ex, c, b, meta) in hs]
    wr = C.run_parallel(C.AVRODRIVE, wl)
    files = []
    for (h, ops, expected, c, b, meta), line, res in zip(hs, wl, wr):
        p = cont.parse_cw(res)
        files.append(None if p is None or p.get("build_err") else p["sink"])
        if files[-1] is None:
            violations.append({"impl_case": line[:3000], "what": "writing failed", "impl": res[:300]})
    # (1) layout: the extracted reference parser
    idx = [i for i, f in enumerate(files) if f is not None]
    parsed = C.run_parallel(C.AVROMODEL, ["fileparse " + C.hx(files[i]) for i in idx])
    apache = C.run_parallel(C.AVRODRIVE, ["apache_read " + C.hx(files[i]) for i in idx])
    from collections import Counter
    dist = Counter()
    for i, rp, ra in zip(idx, parsed, apache):
        h, ops, expected, c, b, meta = hs[i]
        fam = cont.codec_family(c)
        p = C.parse_sx(rp)[0]
        line = wl[i]
        canon = [C.unhex(h.spec[j]["canon"]) for j in expected]
        distinct.add((h.schema, c, b, len(canon), len(meta)))
        if p[0] != "ok":
            violations.append({"impl_case": line[:3000], "what": "the file is not in the container grammar (reference parser)"})
            continue
        md = {C.unhex(kv[0]): C.unhex(kv[1]) for kv in p[1][1:]}
        want_md = {b"avro.schema": jsons[i], b"avro.codec": fam.encode()}
        want_md.update({k.encode(): v for k, v in meta})
        if md != want_md or len(p[1][1:]) != len(want_md):
            violations.append({"impl_case": line[:3000], "what": "header metadata differs: %r" % sorted(md.keys())})
        if C.unhex(p[2]) != cont.SYNC:
            violations.append({"impl_case": line[:3000], "what": "sync marker differs"})
        blocks = [(int(bk[1]), C.unhex(bk[2])) for bk in p[3:]]
        if any(cnt <= 0 for cnt, _ in blocks) or sum(cnt for cnt, _ in blocks) != len(canon):
            violations.append({"impl_case": line[:3000], "what": "block counts %r do not add up to %d" % ([c_ for c_, _ in blocks], len(canon))})
        try:
            datas = [decompress(fam, d if fam != "snappy" else d) for _, d in blocks]
        except Exception as e:
            violations.append({"impl_case": line[:3000], "what": "block data is not a %s stream: %s" % (fam, e)})
            datas = [None]
        if all(d is not None for d in datas):
            if b"".join(datas) != b"".join(canon):
                violations.append({"impl_case": line[:3000], "what": "decoded block data differs from the values' encodings"})
            dist["layout+data/" + fam] += 1
        else:
            dist["layout-only/" + fam] += 1
        # second implementation
        pa = C.parse_sx(ra)[0]
        has_map = any(nd.t == "map" for nd in h.nodes)
        zero_byte = any(x == b"" for x in canon)
        if b'":".' in jsons[i] or b'[".' in jsons[i] or b',".' in jsons[i] or b'"namespace":""' in jsons[i]:
            # references to the null namespace from inside a namespace are spelled ".Name": read by the Java implementation and by this
            # crate, not by apache-avro (Rust) 0.17; likewise an explicit "namespace":""
            dist["apache-read-skipped/leading-dot-reference"] += 1
        elif zero_byte and pa[0] != "ok":
            dist["apache-read-skipped/zero-byte-datums"] += 1      # apache-avro 0.17 cannot read blocks of zero-byte datums
        elif pa[0] != "ok":
            msg = C.unhex(pa[1]).decode("utf-8", "replace") if len(pa) > 1 else ""
            violations.append({"impl_case": line[:3000], "what": "apache-avro cannot read the file: %s" % msg[:200]})
        else:
            got = [C.unhex(x) for x in pa[2:]]
            if got != canon and not has_map:      # apache-avro re-encodes maps in hash order
                violations.append({"impl_case": line[:3000], "what": "apache-avro reads different values"})
            dist["apache-read/" + fam] += 1
        if len(samples) < 4:
            samples.append({"direction": "crate writes", "codec": c, "blocks": [c_ for c_, _ in blocks], "metadata_keys": sorted(k.decode("utf-8", "replace") for k in md)})
    # (2) files from an independent conforming writer, read by the crate
    rl, rmeta = [], []
    for i, (h, ops, expected, c, b, meta) in enumerate(hs):
        canon = [C.unhex(h.spec[j]["canon"]) for j in expected]
        exp = [h.spec[j]["dany"] for j in expected]
        fam = rng.choice(["null", "null", "deflate", "bzip2", "xz"])
        omit = fam == "null" and rng.random() < 0.5
        extra = [(b"extra.key", b"\x00\xff"), (b"avro.other", b"x")][:rng.randint(0, 2)]
        f = ref_file(rng, jsons[i], fam, canon, [(k.encode(), v) for k, v in meta] + extra, omit)
        mode = rng.choice(["slice", "(chunks %d)" % rng.choice([1, 5, 100])])
        rl.append("cr %s %s any %d" % (C.hx(f), mode, len(exp) + 3))
        rmeta.append((i, "reference-writer/%s%s" % (fam, "/codec-absent" if omit else ""), exp, [(k.encode(), v) for k, v in meta] + extra))
    # (3) files written by apache-avro
    al, ameta = [], []
    for i, (h, ops, expected, c, b, meta) in enumerate(hs):
        canon = [h.spec[j]["canon"] for j in expected]
        fam = cont.codec_family(c)
        if any(nd.t == "map" for nd in h.nodes):
            dist["apache-write-skipped/map-order"] += 1     # apache-avro writes map entries in hash order
            continue
        al.append("apache_write %s %s %d %s" % (C.hx(jsons[i]), fam, rng.choice([0, 1, 2]), " ".join(canon)))
        ameta.append(i)
    ar = C.run_parallel(C.AVRODRIVE, al)
    for i, res in zip(ameta, ar):
        p = C.parse_sx(res)[0]
        h, ops, expected, c, b, meta = hs[i]
        if p[0] != "ok":
            dist["apache-write-skipped"] += 1
            continue
        exp = [h.spec[j]["dany"] for j in expected]
        rl.append("cr %s %s any %d" % (p[1], rng.choice(["slice", "(chunks 7)"]), len(exp) + 3))
        rmeta.append((i, "apache-writer/" + cont.codec_family(c), exp, None))
    rr = C.run_parallel(C.AVRODRIVE, rl)
    for line, res, (i, origin, exp, want_meta) in zip(rl, rr, rmeta):
        pr = cont.parse_cr(res)
        dist[origin] += 1
        if pr.get("open_err") or "items" not in pr:
            violations.append({"impl_case": line[:3000], "what": "a conforming file (%s) was rejected" % origin, "impl": res[:300]})
            continue
        ok, k, why = cont.values_prefix_then_eof(pr["items"], exp, True)
        if not ok:
            violations.append({"impl_case": line[:3000], "what": "a conforming file (%s) was read incorrectly: %s" % (origin, why)})
        if want_meta is not None and sorted(pr["meta"]) != sorted(want_meta):
            violations.append({"impl_case": line[:3000], "what": "user metadata of a conforming file (%s) was not returned as written" % origin})
        if len(samples) < 8:
            samples.append({"direction": origin, "values": len(exp)})
    return {"evaluations": len(wl) + len(rl) + len(al) + 2 * len(idx), "distinct_nontrivial": len(distinct),
            "rule": "(1) files written by the crate (12 codec settings, user metadata, block sizes) parsed by the extracted reference parser "
                    "(FileSpec.ref_parse): metadata = {avro.schema, avro.codec, user entries}, one sync marker, positive counts adding up, block "
                    "data (decoded with Python's zlib/bz2/lzma for deflate/bzip2/xz) = the values' encodings; and read by apache-avro 0.17; "
                    "(2) files from an independent writer (any block partition, shuffled metadata in any map layout incl. negative counts, extra "
                    "keys, avro.codec absent, deflate/bzip2/xz at several levels/checks) and (3) files written by apache-avro (six codecs) read by the crate",
            "samples": samples, "violations": violations, "model_diffs": diffs,
            "distribution": dict(dist)}
