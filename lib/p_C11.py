"""C11 -- slice and streamed input decode identically, however the stream is chunked."""
import random
import common as C
import gen as G
import codec, targets, cont, ocf
import directed as D
import containercodec

MODEL_TARGETS = ["model/De.vo", "model/Reader.vo", "model/ContainerCodec.vo", "model/ContainerReplay.vo"]
COQ_TARGETS = ["props/C11.vo", "proofs/ConstsTie.vo", "proofs/DeDispatchTie.vo"]
THEOREMS = [("C11", ["C11_varint", "C11_de", "C11_datum", "C11_container", "C11_compressed_file_chunk_independent", "C11_container_cap_per_value"])]
PROOF_FILES = ["proofs/ReaderProofs.v", "proofs/VarintProofs.v", "props/C11.v", "proofs/ContainerChunkProofs.v", "proofs/ContainerReadProofs.v", "proofs/DecodeLoopProofs.v", "proofs/ContainerCodecProofs.v", "proofs/DeClosure.v", "proofs/ContainerLimitsProofs.v"]
TRUSTED_BASE = [
    "lib/ocf.py (Python): null-codec container files written by hand with blocks of chosen byte sizes; single-object messages are built by the model's encoder (`sos` of ocaml/avromodel)",
    "Coq 8.16.1 kernel; no axioms (Print Assumptions: closed)",
    "hand-written model/Reader.v of de/read/mod.rs (SliceRead; ReaderRead over a BufRead whose fill_buf follows a chunk plan; the byte-wise varint gathering path), model/De.v, model/Varint.v of integer-encoding 4.1.0; tied by the correspondence run under every chunk size",
    "hand-written model/ContainerCodec.v (ccr_file: the reader of WHOLE files with compressed blocks -- cr_open, then per block count / size varints, negative checks, block_open / block_run of DecodeLoop.v or snappy_run, end-of-block check, sync marker, the chunk plan threaded through the blocks), tied to the crate by running the extracted function on every compressed file the run reads through `crt` (lib/containercodec.py, OCaml command `ccr`): same bytes, same kind of source (slice / the same chunk plan), the value decoder cc_vdec for the schema text of the header (the text itself, read by the model: JsonRead.json_of_text -> Parse.parse_schema), the codec named in the header, and a REPLAY streaming decoder (model/ContainerReplay.v) that answers from the reads hook H4 recorded for each block (bytes produced or Err, compressed bytes consumed = difference of the Take limits; a block finds its reads by the bytes its Take holds and the chunk-plan state at its first byte); compared: schema text, user metadata, the values before the first error (borrows erased), the way the run ends (end of stream; class of the first error: negative count/size, block cannot be opened, decoder Err / decompressed data left / Take not exhausted in the end check, sync mismatch, other = value error | unreadable count/size | short marker), under both extreme read policies (every refill a fill_buf; every refill of >= capacity outstanding bytes a bypassing read). TRUSTED in this tie: hook H4 records lengths only -- the BYTES of each read are the block's data decoded by the compression library on its own (harness `decode`, cross-checked against Python's zlib / bz2 / lzma on complete streams) sliced by the produced counts; snap::raw and CRC32 enter as tables (harness `decode snappy`, zlib.crc32); the runner's own walk of the file layout (block offsets for the replay keys). NOT tied by it: the request sizes on the model's real path (policy parameter; the end check's request is tied by `decend`), message texts, the per-call pretend_eof logic after the first error, runs too long for the list-based model (skipped and counted in coverage.notes), null-codec files (Container.cr_run). One tolerance (coverage.notes ... read_ahead): a decoder Err that reaches the crate's deserializer inside a value whose bytes were all out (read_slice calls fill_buf first, also for 0 bytes) fails that value in the crate; the model delivers it and meets the same Err afterwards",
    "std::io::BufRead contract (fill_buf/consume), read_exact, Take: modelled; the harness' ChunkedReader is the same machine as Reader.chunkst",
]
ASSUMPTIONS = [
    "side condition of the property: no field larger than max_alloc_size (theorem: input length <= max_alloc)",
    "tested, not proved: compressed container inputs of the run (complete, truncated, last bytes zeroed) read by the crate from a slice and under regular / irregular chunk plans agree with model/ContainerCodec.v reading the same bytes under the same plan (decoder replayed from the H4 trace): the chunk plan is threaded through header, blocks and markers in the model as in the harness' ChunkedReader (the replay decoder finds a block only under the chunk-plan state computed from the offset)",
    "container files: proved for the null codec (C11_container: same metadata, values and end of stream for any chunk plan); compressed files: proved for files written by the writer model with any block codec, for any chunking of the source, under the decoder contract (C11_compressed_file_chunk_independent; model/ContainerCodec.v); a general 'any accepted file reads identically under any chunking' is NOT provable for an abstract decoder (it sees the chunk plan and may depend on it outside its contract) and is decided on the crate (compression libraries are outside the model)",
]

def run(ctx):
    rng = random.Random(ctx["seed"] * 1000003 + 11)
    n = 260 if ctx["tier"] == "quick" else 10000
    pairs = [G.schema_and_value(rng) for _ in range(n)]
    sp = codec.spec_batch(pairs)
    lines, groups = [], []
    for s in sp:
        enc = C.unhex(s["enc"])
        variants = [enc, enc + G.rand_bytes(rng, rng.randint(1, 4))]
        b = bytearray(enc)
        if b:
            for _ in range(2):
                m = bytearray(b)
                i = rng.randrange(len(m))
                r = rng.random()
                if r < 0.4:
                    m[i] = rng.choice([0x80, 0xFF, 0x00, 0x7F, m[i] ^ 0x80, m[i] | 0x80])
                elif r < 0.7:
                    m = m[:i]
                else:
                    m[i:i] = bytes([rng.choice([0x80, 0xFF, 0x81])] * rng.randint(1, 6))      # over-long varints
                variants.append(bytes(m))
        for data in variants:
            tg = rng.choice(["any", s["ttarget"], "ignored", targets.typed(s["nodes"], 0, 0, rng, 0.3, 0.2)])
            cfg = rng.choice(["", "", "(cfg 1000 64 100000)", "(cfg 5 3 100000)"])
            plans = ["slice"] + ["(chunks %d)" % k for k in range(1, min(len(data), 24) + 1)] + \
                    ["(chunks %s)" % " ".join(str(rng.randint(1, 9)) for _ in range(rng.randint(2, 6))) for _ in range(3)]
            start = len(lines)
            for pl in plans:
                lines.append("de %s %s %s %s %s" % (s["schema"], tg, C.hx(data), pl, cfg))
            groups.append((start, len(lines)))
    impl = C.run_parallel(C.AVRODRIVE, lines)
    # the model on a sample (the whole set is the crate against itself)
    sample_idx = sorted(rng.sample(range(len(lines)), min(len(lines), 3000 if ctx["tier"] == "quick" else 60000)))
    model = dict(zip(sample_idx, C.run_parallel(C.AVROMODEL, [lines[i] for i in sample_idx])))
    violations, diffs, samples, distinct = [], [], [], set()
    for i, rm in model.items():
        if not C.same_outcome(impl[i], rm):
            diffs.append(codec.diff_entry(lines[i], impl[i], rm))
    def key(r):
        r = G.erase_borrow_text(r)
        return "(err)" if r.startswith("(err") else r
    for a, b in groups:
        base = key(impl[a])
        distinct.add(lines[a])
        for i in range(a + 1, b):
            if key(impl[i]) != base:
                violations.append({"impl_case": lines[i], "what": "a chunked reader and the slice disagree",
                                   "slice_case": lines[a], "slice": impl[a][:300], "reader": impl[i][:300]})
                break
    # single-object and container input (valid files): every reader kind gives the same items
    hs = []
    for i in range(12 if ctx["tier"] == "quick" else 300):
        h = cont.History(rng, n_values=rng.choice([1, 3, 6]))
        h.prepare()
        ops, expected = cont.make_ops(rng, h, allow_fail=False, end="into_inner")
        hs.append((h, ops, cont.CODECS[i % len(cont.CODECS)], rng.choice([0, 16, 65536])))
    wl = [cont.cw_line(h, c, b, "vec", [], ops) for (h, ops, c, b) in hs]
    clines, cgroups = [], []
    wjobs = []
    wrng = random.Random(ctx["seed"] * 1000003 + 1111)
    for (h, ops, c, b), res in zip(hs, C.run_parallel(C.AVRODRIVE, wl)):
        p = cont.parse_cw(res)
        if not p or p.get("build_err"):
            continue
        f = p["sink"]
        for vi, data in enumerate((f, f[:rng.randrange(len(f))], bytes(f[:-3]) + b"\x00\x00\x00")):
            start = len(clines)
            for pl in ["slice"] + ["(chunks %d)" % k for k in (1, 2, 3, 7, 64, 8191, 8192)] + ["(chunks %d %d %d)" % (rng.randint(1, 5), rng.randint(1, 50), rng.randint(1, 5))]:
                clines.append("cr %s %s any 12" % (C.hx(data), pl))
            cgroups.append((start, len(clines), c))
            # compressed files: the same bytes under chunk plans through the model of the compressed-file reader (model vs crate)
            if c != "null":
                cap = 0 if c == "snappy" else wrng.choice([1, 2, 7, 64, 0])
                for pl in ["slice", "(chunks 1)", "(chunks %d)" % wrng.choice([2, 3, 5, 7]), "(chunks %d %d %d)" % (wrng.randint(1, 5), wrng.randint(1, 50), wrng.randint(1, 5)),
                           "(chunks %s)" % " ".join(str(wrng.randint(1, 12)) for _ in range(wrng.randint(4, 9)))]:
                    wjobs.append({"file": data, "cap": cap, "mode": pl, "ncalls": 12,
                                  "where": "%s %s capacity %d %s" % (c, ("complete", "truncated", "last 3 bytes zeroed")[vi], cap, pl)})
    wf = containercodec.compare(wjobs)
    cres = C.run_parallel(C.AVRODRIVE, clines)
    def ckey(r):
        p = cont.parse_cr(r)
        if p.get("open_err"):
            return ("open-err",)
        out = []
        for it in p.get("items", []):
            out.append(it if it[0] != "err" else ("err",))
            if it[0] == "err":
                break
        return tuple(out)
    for a, b, c in cgroups:
        base = ckey(cres[a])
        for i in range(a + 1, b):
            k = ckey(cres[i])
            # on damaged files the slice reader may reject a short block up front where the streaming reader first yields its values:
            # prefix-comparable value sequences, both ending in an error
            if k != base:
                vb = [x for x in base if x[0] == "ok"]
                vk = [x for x in k if x[0] == "ok"]
                both_err = (base and base[-1][0] in ("err", "open-err")) and (k and k[-1][0] in ("err", "open-err"))
                if not (both_err and (vb == vk[:len(vb)] or vk == vb[:len(vk)])):
                    violations.append({"impl_case": clines[i][:3000], "what": "container input (%s): a chunked reader and the slice disagree" % c,
                                       "slice": cres[a][:300], "reader": cres[i][:300]})
                    break
    # container files written by hand (null codec) whose blocks differ in size: a small block (1..3 bytes, or several zero-byte
    # datums: 0 bytes) before / between / after blocks holding strings, bytes and fixed values longer than that block, read
    # through sources of every small refill size (the values straddle refills: the reader's scratch path); the container
    # model (Container.v reader) on the same lines
    hlines, hgroups, hsch = [], [], []
    fx = ("fixed-rec", b'{"type":"record","name":"R","fields":[{"name":"f","type":{"type":"fixed","name":"F","size":24}},{"name":"s","type":"string"}]}',
          [G.Node("record", name="R", fields=[("f", 1), ("s", 2)]), G.Node("fixed", name="F", size=24), G.Node("string")], None, False)
    for rep in range(3 if ctx["tier"] == "quick" else 40):
        for lab, js, nodes, enc1, var_len in ocf.SCHEMAS + [fx]:
            def datum(nlen):
                body = bytes(0x61 + rng.randrange(26) for _ in range(nlen))
                if lab == "fixed-rec":
                    return bytes(rng.randrange(256) for _ in range(24)) + G.varint(nlen) + body
                return enc1(nlen, body)
            shape = rng.choice(["small-first", "small-first", "small-middle", "shrinking", "growing"])
            sizes = {"small-first": [[rng.choice([0, 1])], [rng.choice([5, 18, 40]), 3], [rng.choice([2, 70])]],
                     "small-middle": [[30, 2], [0], [rng.choice([9, 33])], [1], [12]],
                     "shrinking": [[50], [20], [6], [1], [17]],
                     "growing": [[0], [2], [7], [30], [130]]}[shape]
            blocks = [[datum(x) for x in b] for b in sizes]
            if lab == "union" and rng.random() < 0.7:
                blocks[0] = [G.varint(0)] * rng.randint(1, 3)          # null branch: one byte each
            f = ocf.file(js, blocks)
            total = sum(len(b) for b in blocks)
            start = len(hlines)
            for pl in ["slice"] + ["(chunks %d)" % k for k in (1, 2, 3, 5, 7, 16, 64, 8192)] + ["(chunks %d %d %d)" % (rng.randint(1, 5), rng.randint(1, 50), rng.randint(1, 5))]:
                hlines.append("cr %s %s any %d" % (C.hx(f), pl, total + 3))
                hsch.append(G.schema_sx(nodes))
            hgroups.append((start, len(hlines), "null, hand-written blocks (%s, %s)" % (lab, shape)))
    # files of zero-byte datums: every block has byte size 0
    for nodes, v in D.zero_byte_cases():
        js = C.run_lines(C.AVROMODEL, ["tojson " + G.schema_sx(nodes)])[0]
        pj = C.parse_sx(js)
        if not pj or pj[0][0] != "ok":
            continue
        f = ocf.file(C.unhex(pj[0][1]), [[b""] * 2, [b""], [b""] * 3])
        start = len(hlines)
        for pl in ["slice"] + ["(chunks %d)" % k for k in (1, 2, 3, 7, 64)]:
            hlines.append("cr %s %s any 9" % (C.hx(f), pl))
            hsch.append(G.schema_sx(nodes))
        hgroups.append((start, len(hlines), "null, zero-byte datums"))
    hres = C.run_parallel(C.AVRODRIVE, hlines)
    hmod = C.run_parallel(C.AVROMODEL, ["%s %s" % (l, s) for l, s in zip(hlines, hsch)])
    for a, b, c in hgroups:
        base = ckey(hres[a])
        if base != ckey(hmod[a]) and "(unmodelled)" not in hmod[a]:
            diffs.append({"impl_case": hlines[a][:3000], "model_case": ("%s %s" % (hlines[a], hsch[a]))[:3000], "impl": hres[a][:400], "model": hmod[a][:400]})
        if any(x[0] != "ok" for x in base[:-2]) or len(base) < 3:
            violations.append({"impl_case": hlines[a][:3000], "what": "container input (%s): the slice reader did not yield every value of a valid file" % c, "impl": hres[a][:400]})
        for i in range(a + 1, b):
            if ckey(hres[i]) != ckey(hmod[i]) and "(unmodelled)" not in hmod[i]:
                diffs.append({"impl_case": hlines[i][:3000], "model_case": ("%s %s" % (hlines[i], hsch[i]))[:3000], "impl": hres[i][:400], "model": hmod[i][:400]})
            if ckey(hres[i]) != base:
                violations.append({"impl_case": hlines[i][:3000], "what": "container input (%s): a chunked reader and the slice disagree" % c,
                                   "slice": hres[a][:300], "reader": hres[i][:300]})
                break
    # container files written by hand whose blocks LIE about their byte size (null codec): the announced size is larger than what
    # the announced objects take (surplus bytes before a correct sync marker), an empty block (0 objects) of non-zero size, a
    # size that is too small, a count that is too small / too large -- in the first, a middle or the last block, all bytes
    # present: the slice and every chunking must agree item by item (and with the container reader model)
    mlines, mgroups, msch = [], [], []
    sync = bytes(range(0xA0, 0xB0))
    for rep in range(4 if ctx["tier"] == "quick" else 60):
        for lab, js, nodes, enc1, var_len in ocf.SCHEMAS + [fx]:
            def datum2(nlen):
                body = bytes(0x61 + rng.randrange(26) for _ in range(nlen))
                if lab == "fixed-rec":
                    return bytes(rng.randrange(256) for _ in range(24)) + G.varint(nlen) + body
                return enc1(nlen, body)
            good = [[datum2(rng.choice([0, 1, 4, 20])) for _ in range(rng.randint(1, 3))] for _ in range(3)]
            at = rng.randrange(3)
            kind = rng.choice(["surplus", "surplus", "surplus", "empty-nonzero-size", "empty-nonzero-size", "size-too-small", "count-too-small", "count-too-large"])
            pad = bytes(rng.choice([0, 0, 2, 0xFF, 0x61]) for _ in range(rng.choice([1, 1, 2, 5, 40])))
            parts = []
            for bi, b in enumerate(good):
                if bi != at:
                    parts.append(ocf.block(b, sync))
                elif kind == "surplus":
                    parts.append(ocf.block(b + [pad], sync, count=len(b)))
                elif kind == "empty-nonzero-size":
                    parts.append(ocf.block([pad], sync, count=0))
                elif kind == "size-too-small":
                    parts.append(ocf.block(b, sync, size=max(0, len(b"".join(b)) - rng.choice([1, 2]))))
                elif kind == "count-too-small":
                    parts.append(ocf.block(b + [datum2(3)], sync, count=len(b)))
                else:
                    parts.append(ocf.block(b, sync, count=len(b) + 1))
            f = ocf.header(js, sync) + b"".join(parts)
            total = sum(len(b) for b in good)
            start = len(mlines)
            for pl in ["slice"] + ["(chunks %d)" % k for k in (1, 2, 3, 5, 7, 16, 64, 8192)] + ["(chunks %d %d %d)" % (rng.randint(1, 5), rng.randint(1, 50), rng.randint(1, 5))]:
                mlines.append("cr %s %s any %d" % (C.hx(f), pl, total + 4))
                msch.append(G.schema_sx(nodes))
            mgroups.append((start, len(mlines), "null, hand-written, block %d: %s (%s)" % (at + 1, kind, lab)))
    mres = C.run_parallel(C.AVRODRIVE, mlines)
    mmod = C.run_parallel(C.AVROMODEL, ["%s %s" % (l, s_) for l, s_ in zip(mlines, msch)])
    from collections import Counter
    mdist = Counter()
    for a, b, c in mgroups:
        base = ckey(mres[a])
        mdist[c.split(": ")[1].split(" (")[0] + ("/err" if base and base[-1][0] in ("err", "open-err") else "/no-err")] += 1
        for i in range(a, b):
            if ckey(mres[i]) != ckey(mmod[i]) and "(unmodelled)" not in mmod[i]:
                diffs.append({"impl_case": mlines[i][:3000], "model_case": ("%s %s" % (mlines[i], msch[i]))[:3000], "impl": mres[i][:400], "model": mmod[i][:400]})
        for i in range(a + 1, b):
            if ckey(mres[i]) != base:
                violations.append({"impl_case": mlines[i][:3000], "what": "container input (%s): a chunked reader and the slice disagree" % c,
                                   "slice_case": mlines[a][:3000], "slice": mres[a][:300], "reader": mres[i][:300]})
                break
    # single-object input: messages (header from the MODEL's encoder) incl. zero-byte datums -- the message is exactly the 10
    # header bytes --, followed by other data, cut at every length 0..12 and beyond: slice vs every refill size
    so_pairs = D.zero_byte_cases() + [(s["nodes"], s["evalue"]) for s in sp[:40 if ctx["tier"] == "quick" else 2000]]
    so_sp = codec.spec_batch(so_pairs)
    so_msgs = C.run_parallel(C.AVROMODEL, ["sos %s %s" % (s["schema"], s["present"]) for s in so_sp])
    slines, sgroups = [], []
    for s, rmsg in zip(so_sp, so_msgs):
        pm = C.parse_sx(rmsg)
        if not pm or pm[0][0] != "ok":
            continue
        msg = C.unhex(pm[0][1])
        variants = [msg, msg + G.rand_bytes(rng, rng.randint(1, 4)), msg[:10]] + [msg[:k] for k in sorted(set([0, 1, 2, 9, rng.randrange(0, len(msg) + 1)]))]
        g = bytearray(msg); g[rng.randrange(10)] ^= 0x40; variants.append(bytes(g))
        for data in variants:
            tg = rng.choice(["any", s["ttarget"], "ignored"])
            start = len(slines)
            for pl in ["slice"] + ["(chunks %d)" % k for k in range(1, min(len(data), 13) + 1)] + ["(chunks %d %d)" % (rng.randint(1, 9), rng.randint(1, 9)), "(chunks 64)"]:
                slines.append("sod %s %s %s %s" % (s["schema"], tg, C.hx(data), pl))
            sgroups.append((start, len(slines), data == msg))
    sres = C.run_parallel(C.AVRODRIVE, slines)
    smod = C.run_parallel(C.AVROMODEL, slines)
    for a, b, valid in sgroups:
        base = key(sres[a])
        for i in range(a, b):
            if not C.same_outcome(sres[i], smod[i]):
                diffs.append(codec.diff_entry(slines[i], sres[i], smod[i]))
        if valid and base == "(err)":
            violations.append({"impl_case": slines[a], "what": "single-object input: a complete message (header + datum, nothing else) was rejected from the slice", "impl": sres[a][:300]})
        for i in range(a + 1, b):
            if key(sres[i]) != base:
                violations.append({"impl_case": slines[i], "what": "single-object input: a chunked reader and the slice disagree",
                                   "slice_case": slines[a], "slice": sres[a][:300], "reader": sres[i][:300]})
                break
    samples = [{"case": lines[g[0] + 1][:200]} for g in groups[:4]]
    diffs.extend(wf["diffs"])
    return {"evaluations": len(lines) + len(clines) + len(hlines) + len(mlines) + len(slines) + wf["evaluations"], "distribution": dict(mdist), "distinct_nontrivial": len(distinct) + len(cgroups) + len(hgroups) + len(sgroups),
            "notes": {"whole_file_reader_model_vs_crate(compressed files under chunk plans)": wf["notes"]},
            "rule": "(schema, bytes) with bytes = valid encodings (random block layouts), valid + trailing data, and mutations (flipped continuation "
                    "bits, truncations, runs of 0x80/0xFF making over-long varints) x targets (dynamic, typed, ignored, random hints) x limits; "
                    "decoded from the slice and from readers with EVERY chunk size 1..min(len,24) plus irregular plans: same value (borrows "
                    "erased) and same number of bytes left, or an error everywhere; container files (12 codec settings; complete, truncated, "
                    "damaged) from slice vs 9 chunkings; hand-written null-codec files whose blocks differ in byte size (a block of 0..3 bytes "
                    "before / between blocks holding strings, bytes, fixed values of up to 130 bytes; files of zero-byte datums) from slice vs "
                    "refill sizes 1,2,3,5,7,16,64,8192 and a random plan, and against the container reader model; hand-written files whose first / "
                    "middle / last block LIES about its size or count (surplus bytes before a correct sync marker, an empty block of non-zero size, size "
                    "too small, count too small / too large; all bytes present): slice vs the same refill sizes item by item, and against the model; single-object messages (header "
                    "by the model's encoder; incl. zero-byte datums: the message is exactly its header) complete, followed by data, cut at 0,1,2,9,10 "
                    "and a random length, one header bit flipped: slice vs refill sizes 1..13 and plans, and against the model; "
                    "model vs crate on a sample",
            "samples": samples, "violations": violations, "model_diffs": diffs}
