"""C01 -- datum round trip: decode(encode(v, S), S) = v for every schema and value."""
import random, re
import common as C
import gen as G
import codec

MODEL_TARGETS = ["model/Ser.vo", "model/De.vo", "spec/Denote.vo", "spec/DenoteOpt.vo", "spec/Encoding.vo"]
COQ_TARGETS = ["props/C01.vo", "proofs/SerDispatchTie.vo", "proofs/DeDispatchTie.vo"]
THEOREMS = [("C01", ["C01_any", "C01_any_default", "C01_node", "C01_encoding_injective", "C01_encoding_prefix_free", "C01_typed"]),
            ("SerDispatchTie", ["tie_ser_bool", "tie_ser_integer", "tie_ser_f32", "tie_ser_f64", "tie_ser_str", "tie_ser_bytes", "tie_ser_unit", "tie_ser_unit_struct", "tie_ser_unit_variant", "tie_ser_seq", "tie_ser_map", "tie_ser_forward_names", "tie_ser_simple_forwards", "ser_int_leaf_is_rows", "ser_str_leaf_is_rows", "ser_bytes_leaf_is_rows"])]
PROOF_FILES = ["proofs/RoundTripProofs.v", "proofs/SerProofs.v", "proofs/DeProofs.v", "proofs/VarintProofs.v", "props/C01.v", "proofs/RoundTripTyped.v", "proofs/DS1.v", "proofs/DS2.v", "proofs/DS3.v", "proofs/DS4.v", "proofs/DS5.v", "proofs/DS6.v", "proofs/DS7.v", "proofs/SerDispatchTie.v"]
TRUSTED_BASE = [
    'spec/DenoteOpt.v (definitions only, no theorems): the second family of ordinary Rust types -- Option<enum of the non-null branches> for every union that is not [null,T] -- and the callbacks it must receive; used as expectation for the `typed-opt` decodes (the model De.v is compared on the same lines)',
    "dispatch tie: translators/gen_ser_dispatch.py (+ rustmatch.py) reads the arms of the serialize_* methods of DatumSerializer into gen/GenSerDispatch.v; proofs/SerDispatchTie.v ties them to the rows of model/Ser.v (leaf functions proved to be the interpretation of the rows on non-union nodes; 2 arms unclassified: the Decimal arm of serialize_integer and the Union arm of serialize_unit_variant)",
    "Coq 8.16.1 kernel; no axioms (Print Assumptions: closed)",
    "spec/{AvroValue,Encoding,Denote,Wf}.v written from the Avro specification: values, conformance, the encoding, the canonical presentation `present` (union branches by reported name), the expected callback traces dval_any / dval_typed",
    "hand-written models Ser.v and De.v/Reader.v/Varint.v tied by the correspondence run (bytes, events, borrowed offsets, consumed length)",
    "translators/gen_union.py (union lookup table regenerated from the source)",
    "extraction (ExtrOcamlBasic) + ocaml/driver.ml; Rust harness: sval realised as a Serialize value, dtarget as a recording DeserializeSeed; harness/src/rtypes.rs: a family of ordinary Rust types (derive Serialize/Deserialize) round-tripped natively",
    "lib/targets.py variant_shapes: rewrites the specification's typed target (newtype variants) into tuple variants over array branches / struct variants over record branches; the expected events are unchanged (spec/Denote dval_typed) when the model De.v accepts (arity fits), Err when the model rejects",
    "harness/src/rt_fixed.rs (`rt`): fixed Rust types incl. enums as unions with tuple / struct / newtype / unit variants followed by further fields and elements (Geo, Tup3, Track), an enum with a symbol called Null under Option / Vec / map, optional fields skipped by the Serialize impl (skip_serializing_if) at every position, a union of same-short-name types; each value also written through short-writing sinks and exact / too-small slices (std's write_all contract)",
]
ASSUMPTIONS = [
    "schema_wf (spec/Wf.v): keys in range, union branches are not unions and pairwise distinct in the name the deserializer reports, distinct field names / symbols. This excludes unions with two duration branches, which the specification allows: known finding KF1 (the frozen schema keeps no name for a duration)",
    "values within the limits: decimals |unscaled| < 2^96 and scale <= 28 (rust_decimal), lengths and counts < 2^63, configured max_seq_size and depth budget",
    "proved for the dynamically typed consumer (C01_any) and for the typed target of every node kind (C01_typed: struct per record, enum by branch name, Option, seq, map, unit-variant enum, duration triple), slice input; reader input follows with C11_de; concrete derived Rust types (serde's derive output) are exercised natively by the type family",
]

def borrowed_ok(res, inp):
    """every borrowed event of a slice-mode result points into the input and spells its payload"""
    for m in re.finditer(r"\(b(?:str|bytes) (-?\d+) (\d+) x([0-9a-f]*)\)", res):
        off, ln, hx = int(m.group(1)), int(m.group(2)), m.group(3)
        if off < 0 or inp[off:off + ln].hex() != hx:
            return False
    return True

KF1_CASE = ("(schema (node (union 1 2 3) none) (node (fixed x447531 12) duration) (node long timestamp-millis) (node (fixed x447532 12) duration))",
            "(newtype_variant x 0 x4475726174696f6e (tuple (u32 1) (u32 0) (u32 4294967295)))", bytes([0]) + (1).to_bytes(4, "little") + (0).to_bytes(4, "little") + (4294967295).to_bytes(4, "little"))

def run(ctx):
    rng = random.Random(ctx["seed"] * 1000003 + 1)
    quick = ctx["tier"] == "quick"
    n = 700 if quick else 40000
    pairs = [G.schema_and_value(rng, layouts=False) for _ in range(n)]
    # names that collide with what the union lookup registers (enum symbols called Null / String / ..., named types
    # sharing a short name across namespaces): random schemas with such names, and the directed families
    import directed as D
    pairs += [G.schema_and_value(rng, layouts=False, special_names=0.35) for _ in range(n // 3)]
    n_dir = 260 if quick else 6000
    for _ in range(n_dir):
        nodes = D.name_clash_case(rng)
        for _ in range(2):
            v = G.ValueGen(rng, nodes, layouts=False).gen(0)
            if v is not None:
                pairs.append((nodes, v))
    # unions that are not [null,T] (two non-null branches: every ordered pair of leaf kinds; one branch; three branches with
    # or without null), which a Rust type may still hold as Option<enum of the branches> (second typed target below)
    n_leaf = len([1 for lab, _ in G.leaf_kind_schemas() if not lab.startswith("unknown-logical")])
    upairs = [(i, j) for i in range(n_leaf) for j in range(n_leaf) if i != j]
    rng.shuffle(upairs)
    for pr_ in upairs[:(260 if quick else len(upairs))] + [None] * (140 if quick else 6000):
        nodes = D.plain_union_case(rng, pr_)
        for _ in range(2):
            v = G.ValueGen(rng, nodes, layouts=False).gen(0)
            if v is not None:
                pairs.append((nodes, v))
    # unions with container branches (array / record / map) followed by further fields / elements: the enum that holds
    # them takes tuple / struct variants below
    for _ in range(160 if quick else 5000):
        nodes, alen = D.variant_shape_case(rng)
        for _ in range(2):
            vg = G.ValueGen(rng, nodes, layouts=False)
            vg.array_len = alen
            v = vg.gen(0)
            if v is not None:
                pairs.append((nodes, v))
    # records most of whose fields are omittable and hold null (for the omission subsets below)
    n_rec = 70 if quick else 2500
    rec_from = len(pairs)
    for _ in range(n_rec):
        nodes = D.nullable_record_case(rng)
        v = D.value_with_nulls(rng, nodes)
        if v is not None:
            pairs.append((nodes, v))
    sp = codec.spec_batch(pairs)
    ser_lines = ["ser %s %s" % (s["schema"], s["present"]) for s in sp]
    # the same values in other branch-determining serde shapes (fields permuted, nullable fields omitted, structs as maps,
    # other integer widths, Some/None ...): the bytes may differ in block layout, the decoded value may not
    from present import Presenter
    alt = []
    for s in sp:
        for rep in range(2):
            # second round: unions of null and one other branch the way Option<T> presents them (branch determined by type)
            pr = Presenter(rng, s["nodes"], break_prob=0.0, by_type_prob=0.15 if rep == 0 else 0.0, option_prob=0.0 if rep == 0 else 0.8)
            sv = pr.pres(0, C.parse_sx(s["evalue"])[0])
            if pr.expect == "value" or pr.expect == "value-if-ok":
                if rep == 1 and pr.expect == "value":
                    continue        # no such union in this schema: same family as the first round
                alt.append((s, "ser %s %s%s" % (s["schema"], sv, " slow" if pr.needs_slow else ""), pr.expect))
    # every subset of omitted null-holding fields x presentation orders (identity, reverse, rotations, random) of the
    # records above: fields that follow an omitted one are buffered until end() fills the gap
    for s in sp[rec_from:]:
        rc = D.RecCase(rng, s)
        for line, perm, sub, form in rc.omission_lines(4 if quick else 8, 16):
            alt.append((s, line, "value"))
    ai, am = codec.both([l for _, l, _ in alt])
    si, sm = codec.both(ser_lines)
    violations, diffs, samples, distinct = [], [], [], set()
    from collections import Counter
    dist = Counter()
    de_lines, de_meta = [], []
    import targets as T
    vstats, variant_want = {}, {}
    for s, line, ri, rm in zip(sp, ser_lines, si, sm):
        distinct.add(line)
        if not C.same_outcome(ri, rm) or (ri.startswith("(ok") and ri != rm):
            diffs.append(codec.diff_entry(line, ri, rm))
        p = C.parse_sx(ri)[0]
        if p[0] != "ok":
            violations.append({"impl_case": line, "what": "serializing a conforming value (canonical presentation) failed", "impl": ri[:300]})
            continue
        enc = p[1]
        dist["ser-ok"] += 1
        modes = ["slice", "(chunks %d)" % rng.choice([1, 2, 3, 7, 64])]
        tgs = [("any", "any", s["dany"]), ("typed", s["ttarget"], s["dtyped"])]
        if s["otarget"] != s["ttarget"]:
            # the Rust side keeps the position optional although the union is not [null,T]: Option<enum of the branches>
            tgs.append(("typed-opt", s["otarget"], s["dopt"]))
        for tg, target, exp in tgs:
            for mode in modes:
                de_lines.append("de %s %s %s %s" % (s["schema"], target, enc, mode))
                de_meta.append((tg + "/" + mode.split(" ")[0].strip("("), "(ok %s 0)" % exp, enc, mode == "slice"))
        # the same Rust enum-as-union with the other variant shapes serde offers: a TUPLE variant over an array branch (arity =
        # the number of items), a STRUCT variant over a record branch. Same events as the newtype shape; the model says
        # whether every tuple's arity fits its data (then the specification's expectation applies), else Err is due
        vt = C.show_sx(T.variant_shapes(C.parse_sx(s["ttarget"])[0], C.parse_sx(s["dtyped"])[0], rng, vstats))
        if vt != s["ttarget"]:
            for mode in modes:
                de_lines.append("de %s %s %s %s" % (s["schema"], vt, enc, mode))
                de_meta.append(("typed-variants/" + mode.split(" ")[0].strip("("), None, enc, mode == "slice"))
                variant_want[de_lines[-1]] = "(ok %s 0)" % s["dtyped"]
    for (s, line, expect), ri, rm in zip(alt, ai, am):
        distinct.add(line)
        if not C.same_outcome(ri, rm) or (ri.startswith("(ok") and ri != rm):
            diffs.append(codec.diff_entry(line, ri, rm))
        p = C.parse_sx(ri)[0]
        if p[0] != "ok":
            if expect == "value":
                violations.append({"impl_case": line, "what": "serializing a conforming value (alternative presentation) failed", "impl": ri[:300]})
            else:
                dist["ser-by-type-rejected"] += 1
            continue
        dist["ser-alt-ok" if expect == "value" else "ser-by-type-ok"] += 1
        de_lines.append("de %s any %s slice" % (s["schema"], p[1]))
        de_meta.append(("alt/slice", "(ok %s 0)" % s["dany"], p[1], True))
    di, dm = codec.both(de_lines)
    for line, ri, rm, (kind, want, enc, is_slice) in zip(de_lines, di, dm, de_meta):
        distinct.add(line)
        dist[kind] += 1
        if not C.same_outcome(ri, rm) or (ri.startswith("(ok") and ri != rm):
            diffs.append(codec.diff_entry(line, ri, rm))
        if want is None:
            # variant shapes: the model decides between "fits" and "does not fit"
            if rm.startswith("(ok"):
                want = variant_want[line]
                dist["typed-variants-fit"] += 1
                if G.erase_borrow_text(rm) != want:
                    diffs.append({"impl_case": line, "model_case": line, "impl": ri[:400], "model": rm[:400],
                                  "what": "model vs specification (dval_typed) under tuple / struct variants"})
                    continue
            elif rm.startswith("(err"):
                dist["typed-variants-misfit"] += 1
                if not ri.startswith("(err"):
                    violations.append({"impl_case": line, "what": "a tuple variant whose arity does not fit the array it is read from "
                                       "(model: Err) was accepted", "impl": ri[:400], "model": rm[:200]})
                continue
            else:
                continue
        if G.erase_borrow_text(ri) != want:
            violations.append({"impl_case": line, "what": "round trip (%s): decoded value differs from the value that was serialized" % kind,
                               "impl": ri[:400], "expected": want[:400]})
        elif is_slice and not borrowed_ok(ri, C.unhex(enc)):
            violations.append({"impl_case": line, "what": "a borrowed str/bytes event does not point into the input slice", "impl": ri[:400]})
        if len(samples) < 5 and kind == "typed/slice":
            samples.append({"case": line[:240], "result": ri[:160]})
    # ordinary Rust data types (derive Serialize/Deserialize), natively in the harness
    nat = C.run_lines(C.AVRODRIVE, ["rt %d %d" % (ctx["seed"], 60 if quick else 3000)])
    r = nat[0] if nat else "(crash)"
    dist["rust-types"] = 0
    if r.startswith("(ok"):
        dist["rust-types"] = int(C.parse_sx(r)[0][1])
    else:
        violations.append({"impl_case": "rt %d %d" % (ctx["seed"], 60 if quick else 3000), "what": "native round trip of an ordinary Rust type failed", "impl": r[:600]})
    # known finding KF1: two duration branches in one union are indistinguishable by name
    kf = C.run_lines(C.AVRODRIVE, ["ser %s %s" % (KF1_CASE[0], KF1_CASE[1])])[0]
    pk = C.parse_sx(kf)[0]
    if pk[0] == "ok" and C.unhex(pk[1]) != KF1_CASE[2]:
        violations.append({"class": "two-duration-branches", "impl_case": "ser %s %s" % (KF1_CASE[0], KF1_CASE[1]),
                           "what": "value presented for the first of two duration branches is written as the last one", "impl": kf[:200]})
    return {"evaluations": len(ser_lines) + len(de_lines) + dist["rust-types"], "distinct_nontrivial": len(distinct),
            "rule": "random valid schemas (all node kinds and logical types, named references, recursion; names colliding with the union lookup's: "
                    "enum symbols called Null/String/..., named types sharing a short name across namespaces, at random and as directed families; "
                    "records of mostly omittable fields) x conforming values, canonical presentation and alternative ones (fields permuted, every "
                    "subset of null-holding fields omitted x orders, unions of null and one branch presented as Option<T> does, i.e. by type): "
                    "to_datum must succeed; the bytes are decoded from a slice and from chunked readers under the dynamic target and the typed "
                    "target; events must equal the specification's expectation (bit-exact floats, byte-exact strings, branch names, symbols); "
                    "borrowed events must point into the input slice; model vs crate on every call; plus native round trips of a family of "
                    "ordinary Rust types (structs, enums as unions, Option, maps, Vec, tuples, newtype structs, borrowed &str/&[u8]); enums as "
                    "unions with TUPLE variants over array branches and STRUCT variants over record branches (typed target rewritten "
                    "from the specification's, arity = item count; directed unions of container branches followed by fields / elements; "
                    "the model decides fit / misfit, the specification's events are expected on a fit; natively: Geo / Tup3 / Track)",
            "samples": samples, "violations": violations, "model_diffs": diffs, "distribution": dict(dist, **{"variants:" + k: v for k, v in vstats.items()})}
