#!/usr/bin/env python3
"""Regenerates coq/gen/GenUnionTable.v from schema/union_variants_per_type_lookup.rs:
the UnionVariantLookupKey order, N_VARIANTS, and per schema node kind the
register_type_name / register_name / register(key, priority) calls."""
import os, re, sys
sys.path.insert(0, os.path.dirname(os.path.abspath(__file__)))
from rustexpr import TranslateError
import rustmatch as R
import rustast as A
import rustnorm as N
from rustmatch import ShapeError

KINDS = ["Null", "Boolean", "Int", "Long", "Float", "Double", "Bytes", "String", "Array", "Map",
         "Union", "Record", "Enum", "Fixed", "Decimal", "BigDecimal", "Uuid", "Date", "TimeMillis",
         "TimeMicros", "TimestampMillis", "TimestampMicros", "Duration"]
KEYS = ["Null", "UnitStruct", "Boolean", "Integer", "Integer4", "Integer8", "Float4", "Float8", "Str",
        "SliceU8", "UnitVariant", "StructOrMap", "SeqOrTupleOrTupleStruct"]

def strip_comments(s):
    return re.sub(r"//[^\n]*", "", s)

# The code around the registration table, pinned in canonical form (rustnorm.py: locals renamed in binding order,
# formatting / comments / message texts / let-vs-inline differences removed). `__ARMS__` stands for the
# `match schema_node.as_ref() { .. }` whose arms are the table. Its meaning is written by hand in model/Schema.v.
PIN_NEW = """
    #[derive(Clone, Copy)]
    enum NoneSomeOrConflict<'a> {
        None,
        Some { priority: usize, discriminant_and_schema_node: (i64, NodeRef<'a>) },
        Conflict { priority: usize },
    }
    let mut per_direct_union_variant = [NoneSomeOrConflict::None; N_VARIANTS];
    let per_name = std::cell::RefCell::new(HashMap::new());
    let per_alias = std::cell::RefCell::new(HashMap::new());
    for (discriminant, &schema_node) in variants.iter().enumerate() {
        let discriminant: i64 = discriminant.try_into().expect("_");
        let mut register = |variant: UnionVariantLookupKey, priority: usize| {
            let val = &mut per_direct_union_variant[variant as usize];
            match *val {
                NoneSomeOrConflict::None => {
                    *val = NoneSomeOrConflict::Some { discriminant_and_schema_node: (discriminant, schema_node), priority }
                }
                NoneSomeOrConflict::Some { priority: old_priority, .. } => {
                    match old_priority.cmp(&priority) {
                        Ordering::Less => {}
                        Ordering::Equal => { *val = NoneSomeOrConflict::Conflict { priority: old_priority }; }
                        Ordering::Greater => {
                            *val = NoneSomeOrConflict::Some { priority, discriminant_and_schema_node: (discriminant, schema_node) };
                        }
                    }
                }
                NoneSomeOrConflict::Conflict { priority: old_priority } => {
                    if priority < old_priority {
                        *val = NoneSomeOrConflict::Some { priority, discriminant_and_schema_node: (discriminant, schema_node) };
                    }
                }
            }
        };
        let register_name = |name: &Name| {
            per_alias.borrow_mut().insert(Cow::Owned(name.name().to_owned()), (discriminant, schema_node));
            per_name.borrow_mut().insert(Cow::Owned(name.fully_qualified_name().to_owned()), (discriminant, schema_node));
        };
        let register_type_name_alias = |type_name: &'static str| {
            per_alias.borrow_mut().insert(Cow::Borrowed(type_name), (discriminant, schema_node));
        };
        let register_type_name = |type_name: &'static str| {
            per_name.borrow_mut().insert(Cow::Borrowed(type_name), (discriminant, schema_node));
        };
        __ARMS__
    }
    let per_direct_union_variant = per_direct_union_variant.map(|v| match v {
        NoneSomeOrConflict::None => None,
        NoneSomeOrConflict::Some { discriminant_and_schema_node, .. } => Some(discriminant_and_schema_node),
        NoneSomeOrConflict::Conflict { .. } => None,
    });
    let mut per_name = per_name.into_inner();
    for (alias, variant) in per_alias.into_inner() {
        per_name.entry(alias).or_insert(variant);
    }
    PerTypeLookup { per_name, per_direct_union_variant }
"""
PIN_UNNAMED = "self.per_direct_union_variant[variant as usize].map(|(i, n)| (i, n.as_ref()))"
PIN_NAMED = "self.per_name.get(name).copied().map(|(i, n)| (i, n.as_ref()))"
ROLES = ["register", "register_name", "register_type_name_alias", "register_type_name"]

def canon(body_toks, env, path, params):
    b = N.normalize_body(A.parse_block_tokens(body_toks), env, path, "PerTypeLookup")
    return b, {p: ["__p%d" % i] for i, p in enumerate(params)}

def is_arms_match(e):
    return e[0] == "match" and A.text(e[1]) == "schema_node . as_ref ( )"

def split_new(body):
    """the normalised body of PerTypeLookup::new -> (body with the registration match replaced by `__ARMS__`,
    the match, the names of the four closures in the order of their `let`s)"""
    found = []
    def go(x):
        if is_arms_match(x):
            found.append(x)
            return N.path_of("__ARMS__")
        if x[0] == "closure":
            return x
        return N.map_expr(x, go)
    nb = go(body)
    if len(found) != 1:
        raise TranslateError("registration match not found")
    names = []
    def loops(x):
        if x[0] == "for":
            for st in x[3][1]:
                if st[0] == "let" and st[3] is not None and st[3][0] == "closure" and st[1][0] == "p_ident":
                    names.append(st[1][3])
        if x[0] != "closure":
            N.map_expr(x, loops)
        return x
    loops(nb)
    return nb, found[0], names

def params_of(fn):
    return [pat[0] for pat, ty in fn.params if ty and len(pat) == 1]

def translate(path):
    try:
        return translate_(path)
    except ShapeError as e:
        raise TranslateError(str(e))

def translate_(path):
    src = strip_comments(open(path).read())
    apath = os.path.abspath(path)
    env = N.ConstEnv(None)
    items = env.items(apath)
    m = re.search(r"enum\s+UnionVariantLookupKey\s*\{(.*?)\}", src, re.S)
    if not m:
        raise TranslateError("UnionVariantLookupKey not found")
    keys = [k.strip() for k in m.group(1).split(",") if k.strip()]
    if sorted(keys) != sorted(KEYS):
        raise TranslateError("UnionVariantLookupKey variants changed: %s" % keys)
    nvar = env.lookup("N_VARIANTS", apath)
    if not isinstance(nvar, int):
        raise TranslateError("N_VARIANTS not found")
    def the_fn(name):
        fns = [f for f in items.fns if f.name == name and f.owner == (None, "PerTypeLookup") and f.body is not None]
        if len(fns) != 1:
            raise TranslateError("PerTypeLookup::%s not found" % name)
        return fns[0]
    # the code around the table is in the pinned shape
    for name, pin in (("unnamed", PIN_UNNAMED), ("named", PIN_NAMED)):
        f = the_fn(name)
        b, outer = canon(f.body, env, apath, params_of(f))
        pb, pouter = canon(R.tokenize(pin), env, apath, params_of(f))
        if N.canonical_text(b, outer, statements=True) != N.canonical_text(pb, pouter, statements=True):
            raise TranslateError("the code of %s is not in the pinned shape" % name)
    f = the_fn("new")
    body, outer = canon(f.body, env, apath, params_of(f))
    body, arms_match, closure_names = split_new(body)
    pbody, _ = canon(R.tokenize(PIN_NEW), env, apath, params_of(f))
    pbody, pm, _ = split_new(N.substitute(pbody, {"__ARMS__": ("match", A.parse_expr_tokens(R.tokenize("schema_node.as_ref()")), ())}))
    got, want = N.canonical_text(body, outer, statements=True), N.canonical_text(pbody, outer, statements=True)
    if got != want:
        k = 0
        while k < min(len(got), len(want)) and got[k] == want[k]:
            k += 1
        raise TranslateError("the code of PerTypeLookup::new around the registration table is not in the pinned shape (near: %s)" % got[max(0, k - 60):k + 60])
    if len(closure_names) != 4:
        raise TranslateError("expected the four registration closures, found %r" % closure_names)
    role = dict(zip(closure_names, ROLES))
    # the arms
    def calls_of(stmts, binders):
        """statements of an arm -> [(role, argument expr)] ; nested `match repr` returned as ("match", expr)"""
        out = []
        for st in stmts:
            if st[0] not in ("semi", "expr"):
                raise TranslateError("unrecognised statement in an arm: %s" % st[0])
            e = st[1]
            if e[0] == "call" and N.is_var(e[1]) and e[1][1][0][0] in role:
                out.append((role[e[1][1][0][0]], e[2]))
            elif e[0] == "match":
                out.append(("match", e))
            else:
                raise TranslateError("unrecognised statements in arm: %r" % A.text(e)[:80])
        return out
    def str_arg(args, what):
        if len(args) != 1 or args[0][0] != "lit" or not args[0][1].startswith('"'):
            raise TranslateError("%s: argument is not a string literal" % what)
        return args[0][1][1:-1]
    def field_binder(pat, field):
        """`Kind(Type { field, .. })` / `Kind(Type { field: x, .. })` -> the name bound to the field, else None"""
        if pat[0] == "p_ts" and len(pat[2]) == 1:
            q = pat[2][0]
            while q[0] == "p_ref":
                q = q[2]
            if q[0] == "p_struct":
                for n, b in q[2]:
                    if n == field and b[0] == "p_ident":
                        return b[3]
        return None
    arms = {}
    for pat, guard, abody in arms_match[2]:
        if guard is not None:
            raise TranslateError("guard in the registration match")
        if pat[0] not in ("p_path", "p_ts", "p_struct"):
            raise TranslateError("cannot parse arm pattern: %s" % A.pat_text(pat))
        segs = pat[1][1]
        if len(segs) != 2 or segs[0][0] != "SchemaNode":
            raise TranslateError("cannot parse arm pattern: %s" % A.pat_text(pat))
        kind = segs[1][0]
        if kind in arms:
            raise TranslateError("duplicate arm %s" % kind)
        arms[kind] = (pat, list(N.as_block(abody)[1]))
    if sorted(arms) != sorted(KINDS):
        raise TranslateError("node kinds changed: %s" % sorted(arms))
    out = []
    out.append("(* GENERATED by translators/gen_union.py from %s -- do not edit *)" % ("serde_avro_fast/src/" + path.split("/serde_avro_fast/src/")[-1]))
    out.append("Require Import Base Kinds.")
    out.append("Open Scope N_scope.")
    out.append("Definition N_VARIANTS : N := %d." % nvar)
    out.append("Definition ukey_index (k : ukey) : N :=\n  match k with")
    for i, k in enumerate(keys):
        out.append("  | K%s => %d" % (k, i))
    out.append("  end.")
    tn, rn, regs = [], [], []
    dec_bytes_name = dec_fixed_alias = None
    for kind in KINDS:
        pat, stmts = arms[kind]
        name_binder = field_binder(pat, "name")
        calls = calls_of(stmts, None)
        fixed_name = False
        names, plain_name, rr = [], False, []
        for r, args in calls:
            if r == "match":
                if kind != "Decimal":
                    raise TranslateError("nested match in arm %s" % kind)
                e = args
                repr_binder = field_binder(pat, "repr")
                if repr_binder is None or not N.is_var(e[1], repr_binder):
                    raise TranslateError("Decimal arm: match repr not in the expected shape")
                sub = {}
                for p2, g2, b2 in e[2]:
                    if g2 is not None or p2[0] not in ("p_path", "p_ts") or A.text(p2[1]).split(" ")[0] != "DecimalRepr":
                        raise TranslateError("Decimal arm: match repr not in the expected shape")
                    sub[p2[1][1][-1][0]] = (p2, calls_of(N.as_block(b2)[1], None))
                if sorted(sub) != ["Bytes", "Fixed"]:
                    raise TranslateError("Decimal arm: match repr not in the expected shape")
                fp, fcalls = sub["Fixed"]
                fb = fp[2][0][3] if fp[0] == "p_ts" and len(fp[2]) == 1 and fp[2][0][0] == "p_ident" else None
                fa, fnames = [], 0
                for r2, a2 in fcalls:
                    if r2 == "register_type_name_alias":
                        fa.append(str_arg(a2, "register_type_name_alias"))
                    elif r2 == "register_name" and fb is not None and len(a2) == 1 and A.text(a2[0]) == "& %s . name" % fb:
                        fnames += 1
                    else:
                        raise TranslateError("Decimal/Fixed arm not in the expected shape")
                if fnames != 1 or len(fa) > 1:
                    raise TranslateError("Decimal/Fixed arm not in the expected shape")
                bn = []
                for r2, a2 in sub["Bytes"][1]:
                    if r2 != "register_type_name":
                        raise TranslateError("Decimal/Bytes arm not in the expected shape")
                    bn.append(str_arg(a2, "register_type_name"))
                if len(bn) > 1:
                    raise TranslateError("Decimal/Bytes arm not in the expected shape")
                dec_fixed_alias = fa[0] if fa else None
                dec_bytes_name = bn[0] if bn else None
                fixed_name = True
            elif r == "register_type_name":
                names.append(str_arg(args, "register_type_name"))
            elif r == "register_name":
                if name_binder is None or len(args) != 1 or not N.is_var(args[0], name_binder):
                    raise TranslateError("unrecognised register_name call in %s" % kind)
                if plain_name:
                    raise TranslateError("unrecognised register_name call in %s" % kind)
                plain_name = True
            elif r == "register":
                if len(args) != 2 or args[0][0] != "path" or len(args[0][1]) != 2 or args[0][1][0][0] != "UnionVariantLookupKey" \
                        or args[1][0] != "lit" or not args[1][1].isdigit():
                    raise TranslateError("unrecognised register call in %s" % kind)
                rr.append((args[0][1][1][0], args[1][1]))
            else:
                raise TranslateError("unrecognised statements in arm %s" % kind)
        if len(names) > 1:
            raise TranslateError("several type names in %s" % kind)
        if kind == "Decimal" and not fixed_name:
            raise TranslateError("Decimal arm: match repr not in the expected shape")
        tn.append((kind, names[0] if names else None))
        rn.append((kind, "RnName" if plain_name else ("RnDecimalFixedName" if fixed_name else "RnNone")))
        regs.append((kind, rr))
    def blit(n):
        return "None" if n is None else "Some [%s]" % "; ".join(str(b) for b in n.encode())
    out.append("(* register_type_name in the DecimalRepr::Bytes arm / register_type_name_alias in the Fixed arm *)")
    out.append("Definition gen_decimal_bytes_type_name : option bytes := %s." % blit(dec_bytes_name))
    out.append("Definition gen_decimal_fixed_type_alias : option bytes := %s." % blit(dec_fixed_alias))
    out.append("Definition gen_type_name (k : nkind) : option bytes :=\n  match k with")
    for kind, n in tn:
        out.append("  | Nk%s => %s" % (kind, "None" if n is None else "Some [%s]" % "; ".join(str(b) for b in n.encode())))
    out.append("  end.")
    out.append("Definition gen_register_name (k : nkind) : regname :=\n  match k with")
    for kind, r in rn:
        out.append("  | Nk%s => %s" % (kind, r))
    out.append("  end.")
    out.append("Definition gen_registrations (k : nkind) : list (ukey * N) :=\n  match k with")
    for kind, rr in regs:
        out.append("  | Nk%s => [%s]" % (kind, "; ".join("(K%s, %s)" % (k, p) for k, p in rr)))
    out.append("  end.")
    return "\n".join(out) + "\n"

if __name__ == "__main__":
    repo, outp = sys.argv[1], sys.argv[2]
    try:
        txt = translate(repo + "/serde_avro_fast/src/schema/union_variants_per_type_lookup.rs")
    except TranslateError as e:
        print("TRANSLATE-ERROR gen_union: %s" % e)
        sys.exit(3)
    try:
        old = open(outp).read()
    except OSError:
        old = None
    if old != txt:
        open(outp, "w").write(txt)
