#!/usr/bin/env python3
"""Regenerates coq/gen/GenConsts.v from the numeric / byte-string constants of the crate:
default limits of the deserializer (de/mod.rs, de/read/mod.rs), the container magic and metadata
limits and key names (object_container_file_encoding/*), codec names (kebab-case of the
CompressionCodec variants), the single-object marker (single_object_encoding.rs)."""
import os, re, sys
sys.path.insert(0, os.path.dirname(os.path.abspath(__file__)))
import rustmatch as R
import rustast as A
import rustnorm as N
from rustmatch import ShapeError

class TranslateError(Exception):
    pass

def find(pat, src, what, flags=0):
    m = re.search(pat, src, flags)
    if not m:
        raise TranslateError(what + " not found")
    return m

def kebab(name):
    out = ""
    for i, ch in enumerate(name):
        if ch.isupper() and i > 0:
            out += "-"
        out += ch.lower()
    return out

def blist(bs):
    return "[" + "; ".join(str(b) for b in bs) + "]"

class File:
    """one source file: the normalised bodies of its functions (constants resolved through the crate, lets bound
    to constants substituted), and its raw tokens"""
    def __init__(self, path, env):
        self.path = os.path.abspath(path)
        self.env = env
        self.text = open(path).read()
        self.toks = R.tokenize(self.text)
        self.items = env.items(self.path)
        self.bodies = []
        self.unparsed = []
        for f in self.items.fns:
            if f.body is None:
                continue
            try:
                owner = f.owner[1] if f.owner and f.owner[0] != "trait" else None
                self.bodies.append((f, N.normalize_body(A.parse_block_tokens(f.body), env, self.path, owner)))
            except ShapeError as e:
                self.unparsed.append((f.name, str(e)))

    def nodes(self, pred):
        out = []
        def go(x):
            if pred(x):
                out.append(x)
            N.map_expr(x, go)
            return x
        for f, b in self.bodies:
            go(b)
        return out

    def const_of(self, e):
        return self.env.eval(e, self.path)

    def field_constant(self, field, what, owner=None):
        """the constant that the struct field `field` is initialised with (`T { field: <const>, .. }`) or assigned
        (`x.field = <const>;`): every occurrence whose value is a constant must agree"""
        vals = []
        def pred(x):
            if x[0] == "struct":
                if owner is not None and A.text(x[1]).split(" ")[-1] != owner:
                    return False
                for n, v in x[2]:
                    if n == field:
                        c = self.const_of(v)
                        if c is not None:
                            vals.append(c)
            if x[0] == "assign" and x[1] == "=" and x[2][0] == "field" and x[2][2] == field and owner is None:
                c = self.const_of(x[3])
                if c is not None:
                    vals.append(c)
            return False
        self.nodes(pred)
        if not vals:
            hint = ("; functions not understood: " + ", ".join(n for n, _ in self.unparsed)) if self.unparsed else ""
            raise TranslateError(what + " not found" + hint)
        if any(v != vals[0] for v in vals):
            raise TranslateError(what + ": several different constants %r" % (sorted(set(map(str, vals))),))
        if not isinstance(vals[0], int):
            raise TranslateError(what + " is not an integer")
        return vals[0]

    def array_type_len(self, field, what):
        """N of the declaration `field: [u8; N]` (a struct field), constants resolved"""
        t = self.toks
        vals = []
        for i in range(len(t) - 6):
            if t[i] == field and t[i + 1] == ":" and t[i + 2] == "[" and t[i + 3] == "u8" and t[i + 4] == ";":
                e = R.match_close(t, i + 2)
                try:
                    v = self.env.eval_tokens(t[i + 5:e], self.path)
                except ShapeError:
                    v = None
                if not isinstance(v, int):
                    raise TranslateError(what + ": length is not a constant")
                vals.append(v)
        if not vals:
            raise TranslateError(what + " not found")
        if any(v != vals[0] for v in vals):
            raise TranslateError(what + ": several different lengths")
        return vals[0]

def main(repo, out):
    base = repo + "/serde_avro_fast/src/"
    env = N.ConstEnv(base)
    try:
        return main_(repo, out, base, env)
    except ShapeError as e:
        raise TranslateError(str(e))

def main_(repo, out, base, env):
    de = File(base + "de/mod.rs", env)
    max_seq = de.field_constant("max_seq_size", "DeserializerConfig default max_seq_size", "DeserializerConfig")
    depth = de.field_constant("allowed_depth", "DeserializerConfig default allowed_depth", "DeserializerConfig")
    rd = File(base + "de/read/mod.rs", env)
    max_alloc = rd.field_constant("max_alloc_size", "max_alloc_size default", "ReaderRead")
    ocf = File(base + "object_container_file_encoding/mod.rs", env)
    oc = ocf.text
    magic_v = env.lookup("HEADER_CONST", ocf.path)
    if not (isinstance(magic_v, tuple) and len(magic_v[1]) == 4):
        raise TranslateError("HEADER_CONST not found (or not 4 constant bytes)")
    magic = list(magic_v[1])
    m = find(r"#\[serde\(rename_all\s*=\s*\"([a-z-]+)\"\)\]\s*(?:#\[[^\]]*\]\s*)*(?:pub(?:\([a-z]+\))?\s+)?enum\s+CompressionCodec\s*\{(.*?)\n\}", oc, "enum CompressionCodec", re.S)
    if m.group(1) != "kebab-case":
        raise TranslateError("CompressionCodec is not renamed kebab-case")
    body = re.sub(r"///[^\n]*|//[^\n]*|#\[[^\]]*\]", "", m.group(2))
    variants = re.findall(r"\b([A-Z][A-Za-z0-9]*)\s*,", body)
    if not variants or variants[0] != "Null":
        raise TranslateError("CompressionCodec variants not recognised: %r" % variants)
    keys = re.findall(r"#\[serde\(rename\s*=\s*\"(avro\.[a-z]+)\"", oc)
    if keys[:2] != ["avro.schema", "avro.codec"]:
        raise TranslateError("metadata key names not recognised: %r" % keys)
    codec_default_null = bool(re.search(r"rename\s*=\s*\"avro\.codec\"\s*,\s*default\s*=\s*\"CompressionCodec::null\"", oc))
    rdr = File(base + "object_container_file_encoding/reader/mod.rs", env)
    meta_max_seq = rdr.field_constant("max_seq_size", "metadata max_seq_size")
    wr = File(base + "object_container_file_encoding/writer/mod.rs", env)
    approx = wr.field_constant("approx_block_size", "default approx_block_size")
    # the magic as the reader compares it and as the writer writes it (when these can be located) is HEADER_CONST
    def four(c):
        return isinstance(c, tuple) and len(c[1]) == 4
    r_magic = [c for c in (rdr.const_of(x[k]) for x in rdr.nodes(lambda x: x[0] == "binary" and x[1] in ("==", "!=")) for k in (2, 3)) if four(c)]
    w_magic = [c for c in (wr.const_of(x[4][0]) for x in wr.nodes(lambda x: x[0] == "mcall" and x[2] == "write_all" and len(x[4]) == 1)) if four(c)]
    for c in r_magic + w_magic:
        if list(c[1]) != magic:
            raise TranslateError("the container magic used by the reader / writer is not HEADER_CONST")
    sync_r = rdr.array_type_len("sync_marker", "reader sync_marker length")
    sync_w = wr.array_type_len("sync_marker", "writer sync_marker length")
    if sync_r != sync_w:
        raise TranslateError("sync marker length differs between reader (%d) and writer (%d)" % (sync_r, sync_w))
    so = File(base + "single_object_encoding.rs", env)
    def two(c):
        return isinstance(c, tuple) and len(c[1]) == 2
    ws = [c for c in (so.const_of(x[4][0]) for x in so.nodes(lambda x: x[0] == "mcall" and x[2] == "write_all" and len(x[4]) == 1)) if two(c)]
    if not ws or any(c != ws[0] for c in ws):
        raise TranslateError("single-object marker (write) not found")
    marker_w = list(ws[0][1])
    cs = [c for c in (so.const_of(x[k]) for x in so.nodes(lambda x: x[0] == "binary" and x[1] in ("==", "!=")) for k in (2, 3)) if two(c)]
    if not cs or any(c != cs[0] for c in cs):
        raise TranslateError("single-object marker (check) not found")
    marker_r = list(cs[0][1])
    text = "(* GENERATED by translators/gen_consts.py from the crate's source -- do not edit *)\n"
    text += "From Coq Require Import NArith List.\nImport ListNotations.\nOpen Scope N_scope.\n\n"
    text += "Definition GEN_MAX_SEQ_SIZE : N := %d.\nDefinition GEN_ALLOWED_DEPTH : nat := %d%%nat.\nDefinition GEN_MAX_ALLOC_SIZE : N := %d.\n" % (max_seq, depth, max_alloc)
    text += "Definition GEN_HEADER_CONST : list N := %s.\nDefinition GEN_META_MAX_SEQ_SIZE : N := %d.\nDefinition GEN_APPROX_BLOCK_SIZE : N := %d.\n" % (blist(magic), meta_max_seq, approx)
    text += "Definition GEN_SO_MARKER_WRITE : list N := %s.\nDefinition GEN_SO_MARKER_CHECK : list N := %s.\n" % (blist(marker_w), blist(marker_r))
    text += "Definition GEN_CODEC_NAMES : list (list N) :=\n  [%s].\n" % ";\n   ".join(blist(kebab(v).encode()) for v in variants)
    text += "Definition GEN_META_KEYS : list (list N) := [%s].\n" % "; ".join(blist(k.encode()) for k in keys[:2])
    text += "Definition GEN_CODEC_DEFAULT_NULL : bool := %s.\n" % ("true" if codec_default_null else "false")
    text += "Definition GEN_SYNC_MARKER_LEN : N := %d.\n" % sync_r
    try:
        old = open(out).read()
    except OSError:
        old = None
    if old != text:
        open(out, "w").write(text)

if __name__ == "__main__":
    try:
        main(sys.argv[1], sys.argv[2])
    except TranslateError as e:
        print("gen_consts: " + str(e))
        sys.exit(1)
