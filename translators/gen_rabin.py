#!/usr/bin/env python3
"""Regenerates coq/gen/GenRabin.v from serde_avro_fast/src/schema/safe/rabin.rs:
EMPTY64, the FP_TABLE entries, the per-byte step expression of Rabin::write,
the initial state of Default and the byte order of finish()."""
import os, re, sys
sys.path.insert(0, os.path.dirname(os.path.abspath(__file__)))
from rustexpr import to_gallina, TranslateError
import rustmatch as R
import rustast as A
import rustnorm as N
from rustmatch import ShapeError

def the_fn(items, name, owner):
    fns = [f for f in items.fns if f.name == name and f.owner == owner and f.body is not None and not f.nested]
    if len(fns) != 1:
        raise TranslateError("fn %s of %s: %d definitions" % (name, owner, len(fns)))
    return fns[0]

def to_rustexpr(e):
    """rustast expression -> the tuples of rustexpr.py (the fragment of the CRC step)"""
    k = e[0]
    if k == "lit":
        iv = N.int_value(e[1])
        if iv is None:
            raise TranslateError("literal %s in the step expression" % e[1])
        return ("lit", iv[0])
    if k == "path" and len(e[1]) == 1 and e[1][0][1] is None:
        return ("var", e[1][0][0])
    if k == "field":
        return ("field", to_rustexpr(e[1]), e[2])
    if k == "binary" and e[1] in (">>", "<<", "^", "&", "|"):
        return ("bin", e[1], to_rustexpr(e[2]), to_rustexpr(e[3]))
    if k == "cast" and len(e[2][1]) == 1:
        return ("cast", e[2][1][0], to_rustexpr(e[1]))
    if k == "index":
        return ("index", to_rustexpr(e[1]), to_rustexpr(e[2]))
    if k == "unary" and e[1] == "*":
        return to_rustexpr(e[2])                  # the byte behind the reference the iterator yields
    raise TranslateError("unsupported construct in the step expression: %s" % A.text(e)[:120])

ITER_SUFFIXES = ([], ["iter"], ["iter", "copied"], ["iter", "cloned"], ["into_iter"], ["iter", "copied", "into_iter"])

def iter_over(e, param):
    """is e an iteration over the bytes of the slice parameter, front to back?"""
    chain = []
    while e[0] == "mcall" and not e[4]:
        chain.insert(0, e[2])
        e = e[1]
    return N.is_var(e, param) and chain in [list(x) for x in ITER_SUFFIXES]

def byte_binder(pat):
    """`&b` / `b` / `&byte` .. -> the name bound to the byte (or to the reference to it)"""
    while pat[0] == "p_ref":
        pat = pat[2]
    if pat[0] == "p_ident" and pat[4] is None:
        return pat[3]
    raise TranslateError("loop pattern not understood: %s" % A.pat_text(pat))

STATE = ("field", N.path_of("self"), "result")

def step_of_write(fn, body):
    """symbolic execution of Rabin::write: -> the expression (over `s` and `b`) that one input byte applies to the state"""
    params = fn.params[1:] if fn.has_self() else fn.params
    if len(params) != 1 or len(params[0][0]) != 1:
        raise TranslateError("Rabin::write: parameters not understood")
    data = params[0][0][0]
    S, B = N.path_of("s"), N.path_of("b")
    env = {}                       # local name -> symbolic value
    state = {"v": S}               # current symbolic value of self.result
    step = []
    def ev(e, env):
        def go(x):
            if x == STATE:
                return state["v"]
            if x[0] == "path" and len(x[1]) == 1 and x[1][0][1] is None and x[1][0][0] in env:
                return env[x[1][0][0]]
            return N.map_expr(x, go)
        return go(e)
    def run_body(stmts, env, carried):
        """executes straight-line statements; returns the value of the block (or None)"""
        val = None
        for i, st in enumerate(stmts):
            val = None
            if st[0] == "let" and st[1][0] == "p_ident" and st[3] is not None and st[4] is None:
                env[st[1][3]] = ev(st[3], env)
            elif st[0] in ("semi", "expr") and st[1][0] == "assign" and st[1][1] in ("=", "^="):
                lhs, rhs = st[1][2], ev(st[1][3], env)
                if st[1][1] == "^=":
                    rhs = ("binary", "^", ev(lhs, env), rhs)
                if lhs == STATE:
                    state["v"] = rhs
                elif N.is_var(lhs) and lhs[1][0][0] in env:
                    env[lhs[1][0][0]] = rhs
                else:
                    raise TranslateError("assignment to %s" % A.text(lhs))
                carried.add(A.text(lhs))
            elif st[0] == "expr" and i + 1 == len(stmts):
                val = ev(st[1], env)
            else:
                raise TranslateError("statement not understood in Rabin::write: %s" % st[0])
        return val
    stmts = list(body[1])
    seen_loop = False
    for st in stmts:
        e = st[1] if st[0] in ("semi", "expr") else None
        if e is not None and e[0] == "for":
            if seen_loop or not iter_over(e[2], data):
                raise TranslateError("Rabin::write: loop not over the bytes of the input, in order")
            seen_loop = True
            b = byte_binder(e[1])
            # the loop-carried variable starts as `s` (the state, or a local initialised from it)
            pre_state, pre_env = state["v"], dict(env)
            loc = dict(env); loc[b] = B
            for n, v in pre_env.items():
                if v == S:
                    loc[n] = S
            if pre_state != S and S not in pre_env.values():
                raise TranslateError("Rabin::write: the state is modified before the loop")
            state["v"] = S
            carried = set()
            run_body(e[3][1], loc, carried)
            if len(carried) != 1:
                raise TranslateError("Rabin::write: %d variables carried by the loop" % len(carried))
            c = carried.pop()
            if c == A.text(STATE):
                if pre_state != S:
                    raise TranslateError("Rabin::write: the state is modified before the loop")
                step.append(state["v"])
                state["v"] = ("fold",)
            else:
                if pre_env.get(c) != S:
                    raise TranslateError("Rabin::write: the accumulator is not initialised from the state")
                step.append(loc[c])
                env[c] = ("fold",)
                state["v"] = pre_state
        elif e is not None and e[0] == "assign" and e[1] == "=" and e[2] == STATE and e[3][0] == "mcall" and e[3][2] == "fold" \
                and len(e[3][4]) == 2 and e[3][4][1][0] == "closure" and len(e[3][4][1][2]) == 2:
            if seen_loop or not iter_over(e[3][1], data):
                raise TranslateError("Rabin::write: fold not over the bytes of the input, in order")
            seen_loop = True
            if ev(e[3][4][0], env) != S:
                raise TranslateError("Rabin::write: the fold does not start from the state")
            clo = e[3][4][1]
            acc = clo[2][0][0]
            if acc[0] != "p_ident" or acc[4] is not None:
                raise TranslateError("Rabin::write: accumulator pattern not understood")
            loc = {acc[3]: S, byte_binder(clo[2][1][0]): B}
            val = run_body(N.as_block(clo[4])[1], loc, set())
            if val is None:
                raise TranslateError("Rabin::write: the fold closure has no value")
            step.append(val)
            state["v"] = ("fold",)
        else:
            carried = set()
            run_body([st], env, carried)
    if len(step) != 1 or state["v"] != ("fold",):
        raise TranslateError("Rabin::write: the state after the call is not the fold of one step over the input")
    return step[0]

def canon_fn_text(fn, env, path, self_type):
    body = N.normalize_body(A.parse_block_tokens(fn.body), env, path, self_type)
    outer = {}
    n = 0
    for pat, ty in fn.params:
        if ty and len(pat) == 1:
            outer[pat[0]] = ["__p%d" % n]; n += 1
    return N.canonical_text(body, outer, statements=True)

def translate(path):
    try:
        return translate_(path)
    except ShapeError as e:
        raise TranslateError(str(e))

def translate_(path):
    apath = os.path.abspath(path)
    items = A.scan_items(R.tokenize(open(path).read()))
    env = N.ConstEnv(None)
    env.files[apath] = items
    empty = env.lookup("EMPTY64", apath)
    if not isinstance(empty, int):
        raise TranslateError("EMPTY64 not found")
    defs = items.consts.get("FP_TABLE", [])
    if len(defs) != 1:
        raise TranslateError("FP_TABLE not found")
    tbl = env.lookup("FP_TABLE", apath)
    if not (isinstance(tbl, tuple) and tbl[0] == "bytes"):
        raise TranslateError("FP_TABLE is not a table of integer constants")
    entries = list(tbl[1])
    m = re.fullmatch(r"(?:& )?\[ u64 ; (.+) \]", " ".join(defs[0][0]))
    if not m:
        raise TranslateError("FP_TABLE: type not understood")
    n = env.eval_tokens(m.group(1).split(" "), apath)
    if len(entries) != n:
        raise TranslateError("FP_TABLE has %d entries, declared %s" % (len(entries), n))
    # write loop
    wfn = the_fn(items, "write", (None, "Rabin"))
    wbody = N.normalize_body(A.parse_block_tokens(wfn.body), env, apath, "Rabin")
    GENV = {"s": "s", "b": "b", "FP_TABLE": "FP_TABLE"}
    try:
        step = to_gallina(to_rustexpr(step_of_write(wfn, wbody)), GENV)
    except TranslateError:
        # the step may have been moved to a private fn of the file: replace the call by its body and retry
        helpers = N.Helpers(items, env, apath)
        wbody2 = N.normalize_body(N.inline_helpers(wbody, helpers, wfn), env, apath, "Rabin")
        if wbody2 == wbody:
            raise
        step = to_gallina(to_rustexpr(step_of_write(wfn, wbody2)), GENV)
    dfn = the_fn(items, "default", ("Default", "Rabin"))
    dbody = N.unwrap_block(N.normalize_body(A.parse_block_tokens(dfn.body), env, apath, "Rabin"))
    if not (dbody[0] == "struct" and A.text(dbody[1]) == "Rabin" and len(dbody[2]) == 1 and dbody[2][0][0] == "result" and dbody[3] is None):
        raise TranslateError("Default for Rabin not in the expected shape")
    init = env.eval(dbody[2][0][1], apath)
    if not isinstance(init, int):
        raise TranslateError("Default for Rabin: the initial state is not a constant")
    init_g = "EMPTY64" if init == empty else str(init)
    ffn = the_fn(items, "finish", (None, "Rabin"))
    ftxt = canon_fn_text(ffn, env, apath, "Rabin")
    m = re.fullmatch(r"self \. result \. (to_le_bytes|to_be_bytes) \( \)", ftxt)
    if not m or " ".join(ffn.ret or []) != "[ u8 ; 8 ]":
        raise TranslateError("Rabin::finish not in the expected shape")
    order = "le" if m.group(1) == "to_le_bytes" else "be"
    # write_str must feed the bytes of the str
    sfn = the_fn(items, "write_str", ("Write", "Rabin"))
    if canon_fn_text(sfn, env, apath, "Rabin") != "self . write ( __p0 . as_bytes ( ) ) ; Ok ( ( ) )":
        raise TranslateError("fmt::Write for Rabin not in the expected shape")
    out = []
    out.append("(* GENERATED by translators/gen_rabin.py from %s -- do not edit *)" % ("serde_avro_fast/src/" + path.split("/serde_avro_fast/src/")[-1]))
    out.append("From Coq Require Import NArith List.")
    out.append("Import ListNotations.")
    out.append("Open Scope N_scope.")
    out.append("Definition EMPTY64 : N := %d." % empty)
    out.append("Definition FP_TABLE : list N := [")
    out.append(";\n".join(str(e) for e in entries))
    out.append("].")
    out.append("(* Rabin::write, one iteration: state s (u64), input byte b *)")
    out.append("Definition gen_step (s b : N) : N := %s." % step)
    out.append("Definition gen_init : N := %s." % init_g)
    out.append("(* Rabin::finish byte order: true = to_le_bytes, false = to_be_bytes *)")
    out.append("Definition gen_finish_le : bool := %s." % ("true" if order == "le" else "false"))
    return "\n".join(out) + "\n"

if __name__ == "__main__":
    repo, outp = sys.argv[1], sys.argv[2]
    try:
        txt = translate(repo + "/serde_avro_fast/src/schema/safe/rabin.rs")
    except TranslateError as e:
        print("TRANSLATE-ERROR gen_rabin: %s" % e)
        sys.exit(3)
    try:
        old = open(outp).read()
    except OSError:
        old = None
    if old != txt:
        open(outp, "w").write(txt)
